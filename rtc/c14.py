"""Bounded stand-in for C14: PyTorch modules compute what their NumPy counterparts compute.

Clauses (ids):
  C14.stft.shape        PyTorchSTFTFrameComputer.from_stft_frame_computer(c)(x).shape == c.compute_full(x).shape (all N)
  C14.stft.shape_empty  N < frame_length//2+1: both are (0, num_filts + include_energy)
  C14.stft.value        N >= frame_length: values agree; float64 rtol 1e-9, float32 rtol 1e-4, measured in the
                        linear domain (for use_log the difference of logs is compared through expm1)
  C14.stft.defined      the module call raises nothing where compute_full returns
  C14.stft.script       torch.jit.script(module)(x) == module(x) (shape; values to the same tolerance)
  C14.stft.params       from_stft_frame_computer copies every parameter (lengths, flags, offsets, filters, window)
  (observation, not a clause: for frame_length//2+1 <= N < frame_length only the shape is compared; value
   differences there are counted in a note - torch reflects once with flip, numpy pads periodically)
  C14.preemph.value / .params / .script      PyTorchPreemphasize vs Preemphasize.apply
  C14.post.value / .params                   PyTorchPostProcessorWrapper vs PostProcessor.apply (Deltas, Stack, Standardize)
  C14.si.value / .params                     PyTorchSIFrameComputer vs SIFrameComputer.compute_full (float32, float64)
  C14.dither.moments / .reproducible / .identity0 / .independent / .params / .script    PyTorchDither
The NumPy side is always a freshly built instance with the same arguments (never the object wrapped by the module).
"""
import math
import warnings

import numpy as np

from rtc import _common

PROPERTY = "C14"
ASSUMPTIONS = ["A-REAL", "A-TORCH", "A-NP-PAD", "A-FFT", "A-DET"]
RATE = 8000
RTOL = {"f64": 1e-9, "f32": 1e-4}
N_SE = 4.5

_LIN0 = {"name": "linear", "low_hz": 0.0}

# complex banks whose supports wrap below 0 Hz / past Nyquist first
BANKS = [
    {"kind": "gabor", "scale": "mel", "num_filts": 5, "low_hz": 0.0},
    {"kind": "gammatone", "scale": "mel", "num_filts": 12, "low_hz": 0.0},
    {"kind": "gabor", "scale": "mel", "num_filts": 12, "low_hz": 20.0},
    {"kind": "tri", "scale": "mel", "num_filts": 5, "low_hz": 20.0, "analytic": True},
    {"kind": "fbank", "num_filts": 6, "low_hz": 20.0, "analytic": False},
    {"kind": "gabor", "scale": "mel", "num_filts": 2, "low_hz": 0.0},
    {"kind": "tri", "scale": "mel", "num_filts": 5, "low_hz": 20.0, "analytic": False},
    {"kind": "gammatone", "scale": "bark", "num_filts": 5, "low_hz": 20.0, "order": 2},
    {"kind": "fbank", "num_filts": 6, "low_hz": 20.0, "analytic": True},
    {"kind": "gabor", "scale": "bark", "num_filts": 5, "low_hz": 0.0, "scale_l2_norm": True, "erb": True},
    {"kind": "tri", "scale": _LIN0, "num_filts": 5, "low_hz": 0.0, "analytic": False},
    {"kind": "gammatone", "scale": "mel", "num_filts": 5, "low_hz": 20.0, "max_centered": True},
]
BANKS_EXTRA = [
    {"kind": "gabor", "scale": "mel", "num_filts": 3, "low_hz": 0.0},
    {"kind": "gammatone", "scale": _LIN0, "num_filts": 8, "low_hz": 0.0, "order": 1},
    {"kind": "tri", "scale": "bark", "num_filts": 7, "low_hz": 0.0, "analytic": True},
    {"kind": "fbank", "num_filts": 10, "low_hz": 0.0, "analytic": False},
    {"kind": "gabor", "scale": _LIN0, "num_filts": 6, "low_hz": 20.0, "high_hz": 3000.0},
]
ZERO_FRAME_BANK = {"kind": "gabor", "scale": "mel", "num_filts": 4}

_STYLES = [("centered", False), ("causal", False), ("centered", True)]
_FLAGS = [(a, b, c) for a in (True, False) for b in (False, True) for c in (True, False)]  # log, power, energy
_WINDOWS = [None, "hamming", "gamma", "bartlett", "blackman", "hann"]

_CONFIG_FIELDS = ("bank", "frame_length", "frame_shift", "pad", "frame_style", "kaldi_shift", "window", "use_log", "use_power", "include_energy")


def _make_bank(spec, rate=RATE):
    from pydrobert.speech import filters

    kw = {k: v for k, v in spec.items() if k not in ("kind", "scale")}
    kw["sampling_rate"] = rate
    kind = spec["kind"]
    scale = spec.get("scale")
    if isinstance(scale, dict):
        scale = dict(scale)
    if kind == "tri":
        return filters.TriangularOverlappingFilterBank(scale, **kw)
    if kind == "fbank":
        return filters.Fbank(**kw)
    if kind == "gabor":
        return filters.GaborFilterBank(scale, **kw)
    if kind == "gammatone":
        return filters.ComplexGammatoneFilterBank(scale, **kw)
    raise ValueError(kind)


def _make_stft(case):
    from pydrobert.speech.compute import ShortTimeFourierTransformFrameComputer

    rate = case.get("rate", RATE)
    with warnings.catch_warnings():
        warnings.simplefilter("ignore")
        c = ShortTimeFourierTransformFrameComputer(
            _make_bank(case["bank"], rate),
            frame_length_ms=(case["frame_length"] + 0.5) * 1000.0 / rate,
            frame_shift_ms=(case["frame_shift"] + 0.5) * 1000.0 / rate,
            frame_style=case["frame_style"],
            include_energy=case["include_energy"],
            pad_to_nearest_power_of_two=case["pad"],
            window_function=case.get("window"),
            use_log=case["use_log"],
            use_power=case["use_power"],
            kaldi_shift=case["kaldi_shift"],
        )
    if c.frame_length != case["frame_length"] or c.frame_shift != case["frame_shift"]:
        raise RuntimeError("harness: asked for L=%d s=%d, computer has %d %d" % (case["frame_length"], case["frame_shift"], c.frame_length, c.frame_shift))
    return c


class _Ctx:
    """In-memory cache of computers / modules of the current run (nothing on disk)."""

    def __init__(self):
        self.np_computers = {}
        self.modules = {}

    def _key(self, case):
        return repr([case.get(f) for f in _CONFIG_FIELDS] + [case.get("rate", RATE)])

    def computer(self, case):
        k = self._key(case)
        if k not in self.np_computers:
            if len(self.np_computers) > 32:
                self.np_computers.clear()
            self.np_computers[k] = _make_stft(case)
        return self.np_computers[k]

    def module(self, case, scripted):
        """(eager module or scripted module, source computer it was built from)"""
        import torch
        from pydrobert.speech import torch as pst

        k = (self._key(case), case["precision"])
        if k not in self.modules:
            if len(self.modules) > 32:
                self.modules.clear()
            src = _make_stft(case)  # a second instance: the oracle never shares state with the module
            if case["precision"] == "f64":
                m = pst.PyTorchSTFTFrameComputer.from_stft_frame_computer(src, filter_type=torch.cdouble, window_type=torch.double)
            else:
                m = pst.PyTorchSTFTFrameComputer.from_stft_frame_computer(src)
            self.modules[k] = [m, src, None]
        ent = self.modules[k]
        if scripted and ent[2] is None:
            with warnings.catch_warnings():
                warnings.simplefilter("ignore")
                ent[2] = torch.jit.script(ent[0])
        return ent


def _signal(case):
    rng = _common.make_rng(case["seed"], "c14:sig:%s:%d" % (case.get("salt", ""), case["N"]))
    x = rng.standard_normal(int(case["N"])) * float(case.get("amp", 1.0))
    return x.astype(np.float32 if case["precision"] == "f32" else np.float64)


def _lin_err(got, want, use_log):
    """max relative difference in the linear domain (inf for NaNs / shape problems)"""
    got = np.asarray(got, dtype=np.float64)
    want = np.asarray(want, dtype=np.float64)
    if got.shape != want.shape:
        return float("inf")
    if got.size == 0:
        return 0.0
    if not (np.all(np.isfinite(got)) and np.all(np.isfinite(want))):
        return float("inf")
    if use_log:
        return float(np.max(np.abs(np.expm1(got - want))))
    den = np.maximum(np.abs(want), np.abs(got))
    d = np.abs(got - want)
    with np.errstate(all="ignore"):
        r = np.where(d == 0, 0.0, d / np.where(den == 0, 1.0, den))
    return float(np.max(r))


def _check_params(m, src, case):
    import torch

    msgs = []
    want = {
        "frame_length": src.frame_length,
        "frame_shift": src.frame_shift,
        "centered": src.frame_style == "centered",
        "dft_size": src._dft_size,
        "use_log": case["use_log"],
        "use_power": case["use_power"],
        "include_energy": case["include_energy"],
        "kaldi_shift": case["kaldi_shift"],
        "is_real": bool(src.bank.is_real),
    }
    for k, v in want.items():
        if getattr(m, k) != v:
            msgs.append(f"{k} = {getattr(m, k)!r}, computer has {v!r}")
    D = src._dft_size
    exp_D = (1 << (case["frame_length"] - 1).bit_length()) if case["pad"] else case["frame_length"]
    if D != exp_D:
        msgs.append(f"harness: dft size {D} != {exp_D}")
    offs, filts = [], []
    for i in range(src.bank.num_filts):
        o, f = src.bank.get_truncated_response(i, D)
        offs.append(int(o))
        filts.append(np.asarray(f))
    if list(m.offsets) != offs:
        msgs.append(f"offsets {list(m.offsets)} != {offs}")
    cd = torch.cdouble if case["precision"] == "f64" else torch.cfloat
    rd = torch.double if case["precision"] == "f64" else torch.float
    tol = 0.0 if case["precision"] == "f64" else 1e-6
    if len(m.filters) != len(filts):
        msgs.append(f"{len(m.filters)} filters, bank has {len(filts)}")
    else:
        for i, (p, f) in enumerate(zip(m.filters, filts)):
            if p.dtype != cd or tuple(p.shape) != f.shape or not np.allclose(p.detach().numpy(), f, rtol=tol, atol=tol * max(1e-30, float(np.max(np.abs(f))) if f.size else 0.0)):
                msgs.append(f"filter {i} differs from the bank's truncated response (dtype {p.dtype}, shape {tuple(p.shape)})")
                break
    w = src._window
    if m.window is None or m.window.dtype != rd or tuple(m.window.shape) != w.shape or not np.allclose(m.window.detach().numpy(), w, rtol=tol, atol=tol * float(np.max(np.abs(w)))):
        msgs.append("window differs from the computer's window")
    return msgs


def _check_stft(case, ctx):
    import torch

    fails, stats = [], {}
    prec = case["precision"]
    L, s, N = case["frame_length"], case["frame_shift"], case["N"]
    x = _signal(case)
    c = ctx.computer(case)
    with warnings.catch_warnings():
        warnings.simplefilter("ignore")
        want = c.compute_full(x.copy())
    F = c.bank.num_filts + int(case["include_energy"])
    scripted = bool(case.get("script"))
    m, src, ms = ctx.module(case, scripted)
    if not case.get("_params_done"):
        for msg in _check_params(m, src, case):
            fails.append(("C14.stft.params", case, msg))
    xt = torch.tensor(x)
    try:
        with torch.no_grad(), warnings.catch_warnings():
            warnings.simplefilter("ignore")
            got_t = m(xt)
    except Exception as e:  # noqa
        if L // 2 + 1 <= N < L:
            # region the statement leaves open: observation only (see the note written by run())
            stats["short"], stats["short_raises"], stats["short_differs"] = True, True, False
            stats["short_msg"] = f"L={L} s={s} N={N} {case['frame_style']}: {type(e).__name__}: {str(e)[:120]}"
            return fails, False, stats
        fails.append(("C14.stft.defined", case, f"module raised {type(e).__name__}: {str(e)[:200]} (compute_full returned shape {want.shape})"))
        return fails, False, stats
    got = got_t.detach().numpy()
    empty_dom = N < L // 2 + 1
    if empty_dom:
        if tuple(got.shape) != (0, F) or want.shape != (0, F):
            fails.append(("C14.stft.shape_empty", case, f"N={N} < L//2+1={L//2+1}: torch {tuple(got.shape)}, numpy {want.shape}, expected (0, {F})"))
    if tuple(got.shape) != want.shape:
        if not empty_dom:
            fails.append(("C14.stft.shape", case, f"torch {tuple(got.shape)} vs numpy {want.shape}"))
    elif N >= L:
        err = _lin_err(got, want, case["use_log"])
        stats["err"] = err
        if not err <= RTOL[prec]:
            k = np.unravel_index(int(np.argmax(np.abs(got.astype(np.float64) - want.astype(np.float64)))), got.shape) if got.size else None
            fails.append(("C14.stft.value", case, f"linear-domain relative difference {err:.3g} > {RTOL[prec]} (frame, coeff) = {tuple(int(v) for v in k) if k else None}: torch {got[k]!r} numpy {want[k]!r}; D={c._dft_size}"))
    elif not empty_dom:
        err = _lin_err(got, want, case["use_log"])
        stats["short_differs"] = bool(err > RTOL[prec])
        stats["short"] = True
        if stats["short_differs"]:
            stats["short_msg"] = f"L={L} s={s} N={N} {case['frame_style']}{'+kaldi' if case['kaldi_shift'] else ''}: relative difference {err:.3g}"
    if got.dtype != x.dtype:
        fails.append(("C14.stft.value", case, f"result dtype {got.dtype} for a {x.dtype} signal"))
    if scripted:
        try:
            with torch.no_grad(), warnings.catch_warnings():
                warnings.simplefilter("ignore")
                got_s = ms(xt).detach().numpy()
                got_s = ms(xt).detach().numpy()  # second call: the profiling executor may specialise
        except Exception as e:  # noqa
            fails.append(("C14.stft.script", case, f"scripted module raised {type(e).__name__}: {str(e)[:200]}"))
        else:
            err = _lin_err(got_s, got, case["use_log"])
            stats["script_err"] = err
            if got_s.shape != got.shape or not err <= RTOL[prec]:
                fails.append(("C14.stft.script", case, f"scripted {got_s.shape} vs eager {got.shape}, linear-domain relative difference {err:.3g}"))
    nontrivial = want.shape[0] >= 1 and N >= L
    if empty_dom or want.shape[0] == 0:
        nontrivial = case["include_energy"] or case.get("zero_frame", False)  # the empty clause is exercised where columns could go missing
    return fails, bool(nontrivial), stats


# ------------------------------------------------------------------------------------------
# pre-emphasis, post-processors, SI, dither


def _vec(case):
    rng = _common.make_rng(case["seed"], "c14:vec:%s" % case.get("salt", ""))
    x = rng.standard_normal(int(case["n"])) * float(case.get("amp", 100.0))
    return x.astype(np.float32 if case["precision"] == "f32" else np.float64)


def _check_preemph(case):
    import torch
    from pydrobert.speech import torch as pst
    from pydrobert.speech.pre import Preemphasize

    fails, stats = [], {}
    coeff = float(case["coeff"])
    x = _vec(case)
    want = Preemphasize(coeff).apply(x.copy())
    m = pst.PyTorchPreemphasize.from_preemphasize(Preemphasize(coeff))
    if m.coeff != coeff:
        fails.append(("C14.preemph.params", case, f"from_preemphasize: coeff {m.coeff!r} != {coeff!r}"))
    xt = torch.tensor(x)
    try:
        got = m(xt).numpy()
    except Exception as e:  # noqa
        return [("C14.preemph.value", case, f"module raised {type(e).__name__}: {e}")], False, stats
    if not np.array_equal(xt.numpy(), x):
        fails.append(("C14.preemph.value", case, "input tensor modified"))
    rt = RTOL[case["precision"]]
    # forward-error bound of one multiply-subtract: relative to |x[i]| + |coeff x[i-1]|
    xx = np.abs(x.astype(np.float64))
    bound = xx.copy()
    bound[1:] += abs(coeff) * xx[:-1]
    if got.shape != want.shape or got.dtype != want.dtype:
        fails.append(("C14.preemph.value", case, f"shape/dtype {got.shape}/{got.dtype} vs {want.shape}/{want.dtype}"))
    else:
        d = np.abs(got.astype(np.float64) - want.astype(np.float64))
        if len(x) and not np.all(d <= rt * bound):
            i = int(np.argmax(d - rt * bound))
            fails.append(("C14.preemph.value", case, f"sample {i}: torch {got[i]!r} numpy {want[i]!r}"))
        stats["err"] = float(np.max(d / np.maximum(bound, 1e-300))) if len(x) else 0.0
    if case.get("script"):
        try:
            with warnings.catch_warnings():
                warnings.simplefilter("ignore")
                ms = torch.jit.script(m)
            gs = ms(xt).numpy()
            if gs.shape != got.shape or not np.array_equal(gs, got):
                fails.append(("C14.preemph.script", case, "scripted module differs from eager"))
        except Exception as e:  # noqa
            fails.append(("C14.preemph.script", case, f"scripting/calling raised {type(e).__name__}: {str(e)[:200]}"))
    return fails, len(x) >= 2, stats


def _make_post(spec, rng_feats=None):
    from pydrobert.speech import post

    kind = spec["kind"]
    if kind == "deltas":
        return post.Deltas(spec["num_deltas"], **{k: v for k, v in spec.items() if k not in ("kind", "num_deltas")})
    if kind == "stack":
        return post.Stack(spec["num_vectors"], **{k: v for k, v in spec.items() if k not in ("kind", "num_vectors")})
    if kind == "standardize":
        p = post.Standardize(norm_var=spec.get("norm_var", True))
        if spec.get("stats_seed") is not None:
            rng = _common.make_rng(spec["stats_seed"], "c14:stats")
            for _ in range(3):
                p.accumulate(rng.standard_normal((17, spec["F"])) * 3.0 + 1.5)
        return p
    raise ValueError(kind)


def _check_post(case):
    import torch
    from pydrobert.speech import torch as pst

    fails, stats = [], {}
    spec = case["post"]
    rng = _common.make_rng(case["seed"], "c14:feats:%s" % case.get("salt", ""))
    T, F = int(case["T"]), int(case["F"])
    x = (rng.standard_normal((T, F)) * 5.0 + 2.0).astype(np.float32 if case["precision"] == "f32" else np.float64)
    with warnings.catch_warnings():
        warnings.simplefilter("ignore")
        want = np.asarray(_make_post(spec).apply(x.copy()))
        pp = _make_post(spec)
        m = pst.PyTorchPostProcessorWrapper.from_postprocessor(pp)
        if m.postprocessor is not pp:
            fails.append(("C14.post.params", case, "from_postprocessor does not hold the given post-processor"))
        xt = torch.tensor(x)
        try:
            got_t = m(xt)
        except Exception as e:  # noqa
            return [("C14.post.value", case, f"wrapper raised {type(e).__name__}: {str(e)[:200]}")], False, stats
    got = got_t.numpy()
    if not np.array_equal(xt.numpy(), x):
        fails.append(("C14.post.value", case, "input tensor modified"))
    if got.shape != want.shape:
        fails.append(("C14.post.value", case, f"shape {got.shape} vs PostProcessor.apply {want.shape}"))
    else:
        rt = RTOL[case["precision"]]
        if not np.allclose(got.astype(np.float64), want.astype(np.float64), rtol=rt, atol=rt * 1e-3):
            k = np.unravel_index(int(np.argmax(np.abs(got.astype(np.float64) - want))), got.shape)
            fails.append(("C14.post.value", case, f"element {tuple(int(v) for v in k)}: wrapper {got[k]!r}, apply {want[k]!r}"))
        if got_t.dtype != xt.dtype:
            fails.append(("C14.post.value", case, f"wrapper returned {got_t.dtype} for a {xt.dtype} tensor"))
    return fails, want.size > 0, stats


def _make_si(case):
    from pydrobert.speech.compute import ShortIntegrationFrameComputer

    with warnings.catch_warnings():
        warnings.simplefilter("ignore")
        return ShortIntegrationFrameComputer(
            _make_bank(case["bank"]),
            frame_shift_ms=(case["frame_shift"] + 0.5) * 1000.0 / RATE,
            frame_style=case["frame_style"],
            include_energy=case["include_energy"],
            pad_to_nearest_power_of_two=case["pad"],
            use_power=case["use_power"],
            use_log=case["use_log"],
        )


def _check_si(case):
    import torch
    from pydrobert.speech import torch as pst

    fails, stats = [], {}
    x = _signal(case)
    with warnings.catch_warnings():
        warnings.simplefilter("ignore")
        try:
            want = _make_si(case).compute_full(x.copy())
        except Exception as e:  # noqa
            # the NumPy computer itself refuses this input (C03's business): the wrapper has nothing to equal;
            # it must not return a value either
            stats["np_raised"] = f"{type(e).__name__}: {str(e)[:80]}"
            try:
                pst.PyTorchSIFrameComputer.from_si_frame_computer(_make_si(case))(torch.tensor(x))
            except type(e):
                return fails, False, stats
            except Exception as e2:  # noqa
                return fails, False, stats
            return [("C14.si.value", case, f"SIFrameComputer.compute_full raises {stats['np_raised']} but the wrapper returned a value")], False, stats
        src = _make_si(case)
        m = pst.PyTorchSIFrameComputer.from_si_frame_computer(src)
        if m.si_frame_computer is not src:
            fails.append(("C14.si.params", case, "from_si_frame_computer does not hold the given computer"))
        xt = torch.tensor(x)
        try:
            got_t = m(xt)
            got2_t = m(xt)  # the wrapped computer must be reusable
        except Exception as e:  # noqa
            return [("C14.si.value", case, f"wrapper raised {type(e).__name__}: {str(e)[:200]}")], False, stats
    got, got2 = got_t.numpy(), got2_t.numpy()
    rt = RTOL[case["precision"]]
    if got.shape != want.shape or got_t.dtype != xt.dtype:
        fails.append(("C14.si.value", case, f"shape/dtype {got.shape}/{got_t.dtype} vs compute_full {want.shape}/{want.dtype}"))
    else:
        err = _lin_err(got, want, case["use_log"])
        stats["err"] = err
        if not err <= rt:
            fails.append(("C14.si.value", case, f"linear-domain relative difference {err:.3g}"))
        if not np.array_equal(got, got2):
            fails.append(("C14.si.value", case, "second call on the same signal differs from the first"))
    return fails, want.shape[0] >= 1, stats


class _TorchSeed:
    def __init__(self, s):
        self.s = s

    def __enter__(self):
        import torch

        self.state = torch.get_rng_state()
        torch.manual_seed(self.s)

    def __exit__(self, *a):
        import torch

        torch.set_rng_state(self.state)


def _check_dither(case):
    import torch
    from pydrobert.speech import torch as pst
    from pydrobert.speech.pre import Dither

    fails, stats = [], {}
    chk = case["check"]
    coeff = float(case["coeff"])
    dt = torch.float32 if case["precision"] == "f32" else torch.float64
    n = int(case["n"])
    tseed = int(case["torch_seed"])
    m = pst.PyTorchDither.from_dither(Dither(coeff))
    if m.coeff != coeff:
        fails.append(("C14.dither.params", case, f"from_dither: coeff {m.coeff!r} != {coeff!r}"))
    if chk == "dither.moments":
        x = torch.zeros(n, dtype=dt)
        if case.get("signal") == "random":
            x = torch.tensor(_vec(dict(case, amp=10.0)))
        with _TorchSeed(tseed):
            out = m(x)
        if out.dtype != dt or out.shape != x.shape:
            fails.append(("C14.dither.moments", case, f"dtype/shape {out.dtype}/{tuple(out.shape)}"))
            return fails, True, stats
        noise = out.double().numpy() - x.double().numpy()
        mu, sd = float(noise.mean()), float(noise.std())
        se_m, se_s = coeff / math.sqrt(n), coeff / math.sqrt(2 * n)
        # float32 rounding of x + noise adds at most ~1e-7*|x| per sample: negligible against se
        stats["z"] = max(abs(mu) / se_m, abs(sd - coeff) / se_s)
        if not abs(mu) <= N_SE * se_m:
            fails.append(("C14.dither.moments", case, f"sample mean {mu:.6g} is {abs(mu)/se_m:.2f} standard errors from 0"))
        if not abs(sd - coeff) <= N_SE * se_s:
            fails.append(("C14.dither.moments", case, f"sample std {sd:.6g} is {abs(sd-coeff)/se_s:.2f} standard errors from coeff {coeff}"))
        return fails, True, stats
    x = torch.tensor(_vec(dict(case, amp=10.0)))
    x0 = x.clone()
    if chk == "dither.identity0":
        m0 = pst.PyTorchDither.from_dither(Dither(0.0))
        with _TorchSeed(tseed):
            out = m0(x)
        if out.dtype != x.dtype or not torch.equal(out, x0):
            fails.append(("C14.dither.identity0", case, "coeff 0 changed the signal"))
    elif chk == "dither.reproducible":
        with _TorchSeed(tseed):
            a = m(x)
        with _TorchSeed(tseed):
            b = m(x)
        with _TorchSeed(tseed + 1):
            c = m(x)
        if not torch.equal(a, b):
            fails.append(("C14.dither.reproducible", case, "two runs under the same torch.manual_seed differ"))
        if n >= 8 and torch.equal(a, c):
            fails.append(("C14.dither.reproducible", case, "a different seed gave the same output"))
        if case.get("script"):
            try:
                with warnings.catch_warnings():
                    warnings.simplefilter("ignore")
                    ms = torch.jit.script(m)
                with _TorchSeed(tseed):
                    s = ms(x)
                if not torch.equal(s, a):
                    fails.append(("C14.dither.script", case, "scripted module under the same seed differs from eager"))
            except Exception as e:  # noqa
                fails.append(("C14.dither.script", case, f"scripting/calling raised {type(e).__name__}: {str(e)[:200]}"))
    elif chk == "dither.independent":
        z = torch.zeros(n, dtype=dt)
        with _TorchSeed(tseed):
            nz = m(z).double().numpy()
        with _TorchSeed(tseed):
            nx = (m(x).double() - x.double()).numpy()
        eps = 1e-6 if case["precision"] == "f32" else 1e-14
        tol = eps * (np.abs(x.double().numpy()) + np.abs(nz)) * 4 + RTOL[case["precision"]] * coeff * 1e-3
        if nx.shape != nz.shape or not np.all(np.abs(nx - nz) <= tol):
            fails.append(("C14.dither.independent", case, "noise added to a signal differs from the noise added to zeros under the same seed"))
    else:
        raise ValueError(chk)
    if not torch.equal(x, x0):
        fails.append((f"C14.{chk}", case, "input tensor modified"))
    return fails, n >= 1, stats


def _check_case(case, ctx=None):
    _common.use_repo()
    import torch

    nt = torch.get_num_threads()
    torch.set_num_threads(1)  # tiny tensors: the thread pool only adds latency
    try:
        chk = case["check"]
        if chk == "stft":
            return _check_stft(case, ctx or _Ctx())
        if chk == "preemph":
            return _check_preemph(case)
        if chk == "post":
            return _check_post(case)
        if chk == "si":
            return _check_si(case)
        if chk.startswith("dither."):
            return _check_dither(case)
        raise ValueError(chk)
    finally:
        torch.set_num_threads(nt)


# ------------------------------------------------------------------------------------------


def _dft_size(L, pad):
    return (1 << (L - 1).bit_length()) if pad else L


def _lengths(tier):
    Ls = [100, 101, 102, 128, 61] if tier == "quick" else [100, 101, 102, 128, 61, 130, 96, 37, 64, 75]
    out = []
    for L in Ls:
        for pad in (False, True):
            if pad and _dft_size(L, True) == L:
                continue
            out.append((L, pad))
    return out


def _signal_lengths(L):
    return [3 * L + 7, L, L // 2, L + 1, 0, L // 2 + 1, L - 1, 1]


def _stft_case(bank, L, s, pad, style, kaldi, window, flags, prec, N, seed, amp=1.0, script=False, **extra):
    c = {
        "check": "stft", "bank": bank, "frame_length": L, "frame_shift": s, "pad": pad, "frame_style": style, "kaldi_shift": kaldi,
        "window": window, "use_log": flags[0], "use_power": flags[1], "include_energy": flags[2], "precision": prec, "N": int(N),
        "amp": amp, "seed": int(seed), "script": bool(script),
    }
    c.update(extra)
    return c


def _enumerate_sentinels(seed):
    """Deterministic cases every run starts with."""
    # no frames although N >= L//2+1: frame_shift > frame_length (Gabor mel 4 filters, 8 kHz, causal, L=34, shift=80)
    for N in (18, 39, 34, 40, 33, 17):
        for prec in ("f64", "f32"):
            for energy in (True, False):
                yield _stft_case(ZERO_FRAME_BANK, 34, 80, True, "causal", False, None, (True, False, energy), prec, N, seed, zero_frame=True)
    yield _stft_case(ZERO_FRAME_BANK, 34, 80, False, "centered", False, None, (True, False, True), "f64", 30, seed, zero_frame=True, script=True)
    # the empty result must keep the energy column
    for bank in BANKS[:2]:
        for N in (0, 1, 50):
            for prec in ("f64", "f32"):
                yield _stft_case(bank, 100, 37, True, "centered", False, None, (True, False, True), prec, N, seed, script=(N == 1))
    # complex banks, all four DFT-size parities, plain magnitude: the mirror-segment walk
    for bank in BANKS[:3]:
        for L, pad in ((100, False), (101, False), (102, False), (100, True), (61, False)):
            yield _stft_case(bank, L, 37, pad, "causal", False, None, (False, False, False), "f64", 3 * L + 7, seed, script=(L == 100))


def _enumerate(tier, seed):
    yield from _enumerate_sentinels(seed)
    yield from _enumerate_other(tier, seed, first=True)
    banks = list(BANKS) + (list(BANKS_EXTRA) if tier == "thorough" else [])
    lengths = _lengths(tier)
    nvar = 2 if tier == "quick" else 24
    for var in range(nvar):
        for li, (L, pad) in enumerate(lengths):
            for si, (style, kaldi) in enumerate(_STYLES):
                for bi, bank in enumerate(banks):
                    rng = _common.make_rng(seed, "c14enum:%d:%d:%d:%d" % (var, li, si, bi))
                    shifts = [t for t in [37, 40, L // 2 + 3, L, 23, 7, L + 9] if (not kaldi or t // 2 <= L // 2)]
                    j = bi + 3 * li + 5 * si + 7 * var
                    if var < 2:
                        s = shifts[(j + 3 * var) % len(shifts)]
                        flags = _FLAGS[(j * 3 + var * 5) % 8]
                        window = _WINDOWS[(j + var) % len(_WINDOWS)]
                    else:
                        s = shifts[int(rng.integers(0, len(shifts)))]
                        flags = _FLAGS[int(rng.integers(0, 8))]
                        window = _WINDOWS[int(rng.integers(0, len(_WINDOWS)))]
                    amp = [1.0, 30.0, 0.02, 1.0, 0.0, 1.0][(j + 2 * var) % 6] if flags[0] else [1.0, 1e-3, 50.0][(j + var) % 3]
                    script = (j % (5 if tier == "quick" else 3)) == 0
                    Ns = _signal_lengths(L)
                    if var >= 2:
                        Ns = Ns + [int(rng.integers(L, 4 * L + s))]
                    for ni, N in enumerate(Ns):
                        for prec in ("f64", "f32"):
                            yield _stft_case(bank, L, s, pad, style, kaldi, window, flags, prec, N, seed, amp=amp, script=script and (ni < 4), salt="v%d" % var)
        if var == 0:
            yield from _enumerate_other(tier, seed, first=False)


def _enumerate_other(tier, seed, first):
    rng = _common.make_rng(seed, "c14:other")
    tseeds = [int(v) for v in rng.integers(0, 2**31 - 2, size=64)]
    if first:
        # cheap deterministic cases
        for prec in ("f64", "f32"):
            for n in (3, 1000, 0, 1, 2, 5):
                for coeff in (0.97, 1.0, -0.5, 0.0):
                    yield {"check": "preemph", "precision": prec, "n": n, "coeff": coeff, "seed": seed, "salt": f"p{n}", "script": coeff == 0.97}
            for n in (1000, 5, 0):
                yield {"check": "dither.identity0", "precision": prec, "n": n, "coeff": 1.0, "torch_seed": tseeds[0], "seed": seed, "salt": "d0"}
                yield {"check": "dither.reproducible", "precision": prec, "n": n, "coeff": 2.5, "torch_seed": tseeds[1], "seed": seed, "salt": "dr", "script": True}
                yield {"check": "dither.independent", "precision": prec, "n": n, "coeff": 0.7, "torch_seed": tseeds[2], "seed": seed, "salt": "di"}
        posts = [
            {"kind": "deltas", "num_deltas": 2},
            {"kind": "stack", "num_vectors": 3},
            {"kind": "standardize", "F": 6},
            {"kind": "standardize", "F": 6, "stats_seed": seed},
            {"kind": "deltas", "num_deltas": 1, "concatenate": False, "context_window": 3},
            {"kind": "stack", "num_vectors": 2, "pad_mode": "edge"},
            {"kind": "standardize", "F": 6, "stats_seed": seed, "norm_var": False},
        ]
        for spec in posts:
            for T in (7, 1, 50) + ((0,) if spec["kind"] == "stack" else ()):
                if spec["kind"] == "standardize" and spec.get("stats_seed") is None and T == 1:
                    continue  # Standardize.apply itself refuses a single vector without global statistics
                for prec in ("f64", "f32"):
                    yield {"check": "post", "post": spec, "T": T, "F": 6, "precision": prec, "seed": seed, "salt": "po"}
        n_seeds = 3 if tier == "quick" else 20
        for i in range(n_seeds):
            for prec in ("f64", "f32"):
                for coeff in (1.0, 0.05, 30.0):
                    yield {"check": "dither.moments", "precision": prec, "n": 100000, "coeff": coeff, "torch_seed": tseeds[3 + i], "seed": seed, "salt": f"dm{i}", "signal": "zeros" if i % 2 == 0 else "random"}
    else:
        si_banks = [BANKS[0], BANKS[4], BANKS[7], BANKS[3]] if tier == "quick" else BANKS
        k = 0
        for bank in si_banks:
            for style in ("causal", "centered"):
                flags = _FLAGS[k % 8]
                for prec in ("f64", "f32"):
                    for N in (900, 0, 40, 2500) if tier == "thorough" else (900, 0, 40):
                        yield {"check": "si", "bank": bank, "frame_shift": [80, 37][k % 2], "frame_style": style, "pad": bool(k % 3), "use_log": flags[0], "use_power": flags[1], "include_energy": flags[2], "precision": prec, "N": N, "amp": 1.0, "seed": seed, "salt": "si"}
                k += 1


def _cfg_key(case):
    return {k: v for k, v in case.items() if not k.startswith("_")}


def run(tier: str, seed: int) -> dict:
    _common.use_repo()
    import torch

    col = _common.Collector(PROPERTY, tier, seed, budget_s=48 if tier == "quick" else 480)
    ctx = _Ctx()
    worst = {"f64": 0.0, "f32": 0.0, "script": 0.0, "si": 0.0, "z": 0.0}
    short_n = short_diff = short_raise = 0
    short_ex = []
    np_raised = []
    n_script = 0
    checked_params = set()
    nt = torch.get_num_threads()
    torch.set_num_threads(1)
    try:
        for case in _enumerate(tier, seed):
            if col.out_of_time() or col.too_many_failures():
                col.note("stopped early (time or failure cap)")
                break
            run_case = case
            if case["check"] == "stft":
                pk = (ctx._key(case), case["precision"])
                if pk in checked_params:
                    run_case = dict(case, _params_done=True)
                checked_params.add(pk)
            try:
                fails, nontrivial, stats = _check_case(run_case, ctx)
            except Exception as e:  # noqa
                fails, nontrivial, stats = [("C14.exception", case, f"{type(e).__name__}: {str(e)[:300]}")], False, {}
            col.case(_cfg_key(case), nontrivial=nontrivial, sample=case if (col.evaluations % 997 == 5) else None)
            if case["check"] == "stft":
                if "err" in stats:
                    worst[case["precision"]] = max(worst[case["precision"]], stats["err"])
                if "script_err" in stats:
                    n_script += 1
                    worst["script"] = max(worst["script"], stats["script_err"])
                if stats.get("short"):
                    short_n += 1
                    short_diff += int(stats["short_differs"])
                    short_raise += int(bool(stats.get("short_raises")))
                    if stats.get("short_msg") and len(short_ex) < 2 and (not short_ex or bool(stats.get("short_raises")) != short_ex[0][0]):
                        short_ex.append((bool(stats.get("short_raises")), stats["short_msg"]))
            elif case["check"] == "si" and "err" in stats:
                worst["si"] = max(worst["si"], stats["err"])
            elif case["check"] == "si" and "np_raised" in stats:
                np_raised.append(f"{case['bank']['kind']} {case['bank']['num_filts']} filters, shift {case['frame_shift']}, {case['frame_style']}, pad {case['pad']}, N={case['N']}: {stats['np_raised']}")
            elif "z" in stats:
                worst["z"] = max(worst["z"], stats["z"])
            for clause, c, msg in fails:
                col.fail(clause, _cfg_key(c), msg)
    finally:
        torch.set_num_threads(nt)
    col.note(f"STFT worst linear-domain relative difference torch vs numpy for N >= frame_length: float64 {worst['f64']:.2e} (tol 1e-9), float32 {worst['f32']:.2e} (tol 1e-4); scripted vs eager over {n_script} scripted evaluations: {worst['script']:.2e}")
    col.note(
        f"observation (outside the VALUE clause): of {short_n} evaluations with frame_length//2+1 <= N < frame_length the torch module RAISED in {short_raise} "
        f"(numpy returned frames), returned the same shape but values differing beyond the working precision in {short_diff}, and agreed in the rest "
        "(a differing shape would be reported as C14.stft.shape). Mechanism: when pad_right > N torch pads with one flipped slice sig[N-pad_right:].flip(0) - the negative start "
        "wraps, the padded signal is too short and as_strided fails - whereas numpy's 'symmetric' pad reflects periodically. Examples: " + "; ".join(m for _, m in short_ex)
    )
    col.note(f"SI wrapper worst difference {worst['si']:.2e}; PyTorchDither largest |z| in the moment tests {worst['z']:.2f} standard errors (limit {N_SE}); PyTorchPostProcessorWrapper and PyTorchSIFrameComputer cannot be compiled by torch.jit.script (non-tensor attribute / NumPy code behind @torch.jit.unused), so the TorchScript clause is checked for the STFT, pre-emphasis and dither modules only")
    if np_raised:
        col.note(f"SIFrameComputer.compute_full itself raised on {len(np_raised)} SI cases (nothing to compare; the wrapper raised too), e.g. " + np_raised[0])
    return col.result(
        rule="one STFT case = (bank, frame_length, frame_shift, padded DFT?, frame style, kaldi_shift, window, use_log, use_power, include_energy, precision, signal length N, amplitude, eager [+ scripted]); non-trivial when N >= frame_length and >= 1 frame is produced, or (empty-result clause) when the result is empty and include_energy is set / the zero-frame configuration; other cases = one module call of PyTorchPreemphasize / PostProcessorWrapper / SIFrameComputer / Dither (non-trivial: non-empty output)",
        bound="BOUNDED: rate 8000 Hz; 12 banks (quick) / 17 (thorough): Gabor low_hz 0/20, gammatone, triangular and Fbank real/analytic; frame lengths {100,101,102,128,61} (thorough + {130,96,37,64,75}) with DFT = L or next power of two (sizes 0,1,2,3 mod 4); shifts {37,40,L//2+3,L,23,7,L+9} (Kaldi: shift//2 <= L//2); causal / centered / centered+kaldi; 6 windows; all 8 flag combinations by rotation; N in {0,1,L//2,L//2+1,L-1,L,L+1,3L+7} (+ random); white-noise signals; float64 and float32; dither moments on 1e5 samples for 3 (quick) / 20 (thorough) torch seeds",
        assumptions=ASSUMPTIONS,
    )


def replay(case: dict):
    _common.use_repo()
    try:
        fails, _, _ = _check_case(dict(case), _Ctx())
    except Exception as e:  # noqa
        return False, f"C14.exception {type(e).__name__}: {e}"
    if fails:
        return False, "; ".join(f"{c}: {m}" for c, _, m in fails[:3])
    return True, f"C14 {case.get('check')} holds on the case"


if __name__ == "__main__":
    from rtc import _common
    import sys

    _common.main(sys.modules[__name__])

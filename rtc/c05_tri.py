"""Runtime rendering of the sidecar contracts of TriangularOverlappingFilterBank / Fbank (contracts/filters_tri.py): the same
clauses evaluated on the REAL objects for concrete parameters - the replay oracle for refuted / undecided obligations of
those contracts (bounded; never counted as proved)."""
import math
import warnings

import numpy as np

from rtc import _common


def _scale(name):
    from pydrobert.speech import scales
    return {"mel": lambda: scales.MelScaling(), "bark": lambda: scales.BarkScaling(), "linear": lambda: scales.LinearScaling(10.0, 0.5),
            "octave": lambda: scales.OctaveScaling(20.0)}[name]()


def _build(case):
    from pydrobert.speech import filters
    kw = dict(num_filts=int(case["num_filts"]), low_hz=float(case["low_hz"]), sampling_rate=float(case["rate"]), analytic=bool(case.get("analytic", False)))
    kw["high_hz"] = None if case.get("high_hz") is None else float(case["high_hz"])
    if case.get("bank", "tri") == "fbank":
        return filters.Fbank(**kw), _scale("mel")
    sc = _scale(case.get("scale", "mel"))
    return filters.TriangularOverlappingFilterBank(sc, **kw), sc


def replay(case):
    _common.use_repo()
    with warnings.catch_warnings():
        warnings.simplefilter("ignore")
        return _replay(case)


def _replay(case):
    rate, low, n = float(case["rate"]), float(case["low_hz"]), int(case["num_filts"])
    nyq = rate / 2
    is_fbank = case.get("bank", "tri") == "fbank"
    # (Fbank's default top edge is sampling_rate // 2, the Nyquist frequency rounded down: observation O-2 in DESIGN.md)
    high0 = (float(rate // 2) if is_fbank else nyq) if case.get("high_hz") is None else float(case["high_hz"])
    stated_reject = low < 0 or (case.get("high_hz") is not None and high0 > 0 and (high0 <= low or high0 > nyq + 1))
    try:
        bank, sc = _build(case)
    except ValueError as e:
        if stated_reject or not (0 <= low < high0 <= nyq + 1) or (is_fbank and high0 > rate // 2):
            return True, "rejected with ValueError as it should be"
        return False, f"valid range ({low}, {case.get('high_hz')}) at rate {rate} rejected: {e}"
    except Exception as e:
        return False, f"constructor raised {type(e).__name__}: {e}"
    if stated_reject:
        return False, f"range ({low}, {case.get('high_hz')}) at rate {rate} must be rejected with ValueError but was accepted"
    if not low < nyq:
        return True, "not a case (low_hz at or above the Nyquist frequency)"
    v = np.asarray(bank._vertices, dtype=float)
    highc = min(high0, nyq)
    tol = 1e-9 * max(1.0, rate)
    if len(v) != n + 2:
        return False, f"{len(v)} vertices for {n} filters"
    if not np.all(np.diff(v) > 0):
        return False, f"vertices not strictly increasing: {v.tolist()[:6]}..."
    if abs(v[0] - low) > tol or abs(v[-1] - highc) > tol:
        return False, f"vertices run from {v[0]!r} to {v[-1]!r}; contract: from low_hz {low!r} to min(high_hz, nyquist) = {highc!r}"
    sv = np.array([sc.hertz_to_scale(float(x)) for x in v])
    want = sv[0] + np.arange(n + 2) * (sc.hertz_to_scale(highc) - sv[0]) / (n + 1)
    if not np.allclose(sv, want, rtol=1e-9, atol=1e-9 * max(1.0, abs(want).max())):
        return False, "vertices are not equally spaced on the scale"
    if case.get("kind") != "trunc":
        return True, "constructor contract holds"
    w, fi = int(case["width"]), int(case["filt_idx"]) % n
    start, tr = bank.get_truncated_response(fi, w)
    full = bank.get_frequency_response(fi, w)
    left, mid, right = v[fi], v[fi + 1], v[fi + 2]
    if is_fbank:
        l2, m2, r2 = (sc.hertz_to_scale(x) for x in (left, mid, right))

    def tri(b):
        hz = rate * b / w
        if is_fbank:
            mel = sc.hertz_to_scale(hz)
            return math.sqrt(max(0.0, min((mel - l2) / (m2 - l2), (r2 - mel) / (r2 - m2))))
        return max(0.0, min((hz - left) / (mid - left), (right - hz) / (right - mid)))

    if not (0 <= start < w):
        return False, f"start bin {start} not in [0, {w})"
    if not bank.is_real and False:
        pass
    if start + len(tr) > w // 2 + 1:
        return False, f"truncated response [{start}, {start + len(tr)}) leaves the half spectrum of width {w}"
    for j, x in enumerate(tr):
        if abs(x - tri(start + j)) > 1e-9:
            return False, f"filter {fi} width {w}: tap {j} (bin {start + j}) is {x!r}, documented triangle gives {tri(start + j)!r}"
        b = start + j
        if (b == 0 or 2 * b == w) and abs(x) > 1e-9:  # exactly 0 over the reals; the vertex s2h(h2s(nyquist)) carries round-off
            return False, f"filter {fi} width {w}: non-zero tap {x!r} at bin {b} (DC / Nyquist) of a real bank"
    for b in range(w // 2 + 1):
        if abs(full[b] - tri(b)) > 1e-9:
            return False, f"filter {fi} width {w}: full response bin {b} is {full[b]!r}, documented triangle gives {tri(b)!r}"
    return True, "constructor and response contracts hold"


def standard_cases(bank="tri"):
    out = []
    for rate in (8000.0, 16000.0, 11025.0):
        nyq = rate / 2
        for low, high in ((0.0, None), (20.0, None), (0.0, nyq), (100.0, nyq + 0.5), (20.0, nyq + 1.0), (300.0, nyq - 7.3), (-1.0, None), (50.0, 50.0),
                          (50.0, 40.0), (20.0, nyq + 1.5)):
            for n in (1, 2, 11):
                for scale in (("mel",) if bank == "fbank" else ("mel", "bark", "linear")):
                    base = {"bank": bank, "rate": rate, "low_hz": low, "high_hz": high, "num_filts": n, "scale": scale}
                    out.append(dict(base, kind="init"))
                    for w in (2, 3, 8, 9, 64, 129, 512):
                        out.append(dict(base, kind="trunc", width=w, filt_idx=n - 1))
                        out.append(dict(base, kind="trunc", width=w, filt_idx=0))
    return out

"""Bounded stand-in for C10: signals-to-torch-feat-dir survives kill/resume and parallelism unchanged.

The REAL entry point `command_line.signals_to_torch_feat_dir(argv)` is run in a SUBPROCESS
(`python -c CHILD ...`, tree = $VERIF_REPO).  Before calling it the child installs harness-side wrappers
(no repository edit):

  * `torch.save`                      -> counts calls, logs SAVE_BEGIN/SAVE_END, delivers the kill
  * `argparse.FileType.__call__`      -> an append-mode file (the manifest) is returned inside a proxy whose
                                         `write`/`flush` are logged and can deliver the kill
  * `command_line.read_signal`        -> logs READ <utterance id> (to see what a resumed run recomputes)

A kill is either HARD (`os.kill(os.getpid(), SIGKILL)`) or SOFT (`raise KeyboardInterrupt`) and happens at

  before_save(k)    entry of the k-th torch.save of the run (for k >= 2 this is also "after manifest line k-1")
  mid_save(k)       half of the serialized bytes of the k-th tensor are written to the target path, then kill
  after_save(k)     the k-th torch.save returned, its manifest line not yet printed
  mid_manifest(k)   the k-th manifest line was handed to the file object, `print` has not returned (no flush yet)
  after_return      the entry point returned (after the last manifest line), before interpreter exit

Clauses
  C10.I1.listed_complete   every line of the manifest found on disk after the kill is an utterance of the map whose
                           feature file exists, loads with torch.load and equals the uninterrupted run's tensor
  C10.I2.completed_listed  every utterance whose torch.save completed before the kill (SAVE_END in the log), except
                           the one in flight (the k-th), is in the manifest
  C10.kill_unreached       harness sanity: the requested kill point fired (else the run is not a kill run)
  C10.resume.exit          the re-run of the same command finishes with exit status 0
  C10.resume.identical     after the re-run the directory has the same set of files as an uninterrupted run and each
                           tensor is exactly equal (dtype, shape, torch.equal); the manifest lists every utterance
  C10.resume.not_rewritten files of utterances listed before the re-run keep inode, mtime_ns, size and bytes
  C10.resume.not_recomputed the re-run neither reads (read_signal) nor saves (torch.save) a listed utterance, and
                           saves exactly the utterances that were not listed
  C10.workers.identical    a fresh run with --num-workers w in {1, 2} gives the same directory as w = 0

All runs use a Dither pre-processor and a fixed --seed, so a seed that depends on the resume state shows up
in C10.resume.identical.  Exact equality throughout (no tolerance).

Pre-processor chains: "with a fixed --seed this includes randomised pre-processing (dither)" and "The output is
independent of --num-workers" are stated for whatever --preprocess holds, so the configurations put the random
pre-processor alone (list and single-dict spelling), last, FIRST (dither -> preemphasis), in the MIDDLE of three, at
both ends, and twice in a row before a deterministic one (CONFIGS / RANDOM_POSITION); each of them gets a kill + re-run
scenario and a --num-workers comparison (some as one scenario: killed with w workers, re-run with w' != w), all in
separate interpreter processes compared with an uninterrupted --num-workers 0 process.

Input classes ("over all utterance counts / any valid map", "with a fixed --seed"):
  * utterance ids are NOT fixed-width: within each id set some id is a proper prefix / suffix / infix of an id
    that comes EARLIER in the map (so the longer one is already listed when the kill happens and the shorter one
    is still to do), and some id extends an earlier, shorter one ("listed" means: is a line of the manifest);
  * one fixture uses the boundary value --seed=0 (a fixed seed like any other) in a kill/resume case, a
    same-command-twice case (kill before the first save, then the re-run) and a --num-workers case.
  * maps that MIX what the command accepts utterance by utterance (MIXED, see LAYOUT NOTE): mono signals stored as
    (S,) and as (1, S) side by side with --channel left at its default; (1, S) / (2, S) / (3, S) ... side by side with
    --channel c; containers npy / wav / pt / hdf5 / npz; lengths from 222 to 2400 samples next to one another. "The
    output is independent of --num-workers" and "re-running the same command afterwards leaves a directory whose files
    are identical to those of an uninterrupted run" then also say: what one process computed BEFORE an utterance (which
    is all that --num-workers and a kill point change) has no influence on it - neither on its values nor on whether
    the command gets through. If the uninterrupted --num-workers 0 run of such a map aborts, every case of the fixture
    fails, and the message says whether another worker count / a kill + re-run gets through (C10.workers.identical /
    C10.resume.identical).
The ids, the seed and (for mixed maps) `layouts`, `lengths`, `channel` are part of the case, so `replay` rebuilds the
same map.
"""
import concurrent.futures
import hashlib
import json
import os
import shutil
import subprocess
import sys
import tempfile
import wave

import numpy as np

from rtc import _common

PROPERTY = "C10"

ASSUMPTIONS = [
    "A-IO-TEXT (text file in append mode buffers until flush/close; a killed process loses the buffer; torch.save "
    "may leave a partial file if killed mid-call and is complete on return) -- modelled by the injected kill points",
    "A-TORCH (DataLoader yields items in index order for every num_workers; randn depends only on generator state)",
    "not covered: OS-level durability (fsync), torn manifest lines, concurrent invocations on one directory",
]

_STFT = {
    "name": "stft",
    "bank": {"name": "fbank", "num_filts": 5, "sampling_rate": 8000},
    "frame_length_ms": 25,
    "frame_shift_ms": 10,
}
CONFIGS = {
    # name: (computer config or None, preprocess config, postprocess config)
    "stft_dither_deltas": (
        dict(_STFT),
        ["dither"],
        [{"name": "deltas", "num_deltas": 1}],
    ),
    "raw_preemph_dither": (None, [{"name": "preemph", "coeff": 0.9}, {"name": "dither", "coeff": 2.0}], []),
    # "with a fixed --seed this includes randomised pre-processing (dither)" / "independent of --num-workers" are stated
    # for every --preprocess value, so the random element also stands FIRST (the usual Kaldi chain dither -> preemphasis),
    # in the MIDDLE, at BOTH ENDS of a chain, and alone as a single dict (the option accepts a dict instead of a list)
    "stft_dither_preemph": (_STFT, ["dither", "preemphasize"], []),
    "raw_preemph_dither_preemph": (
        None,
        [{"name": "preemph", "coeff": 0.5}, {"name": "dither", "coeff": 3.0}, {"name": "preemphasis", "coeff": 0.9}],
        [],
    ),
    "stft_dict_dither": (_STFT, {"name": "dithering", "coeff": 1.5}, [{"name": "deltas", "num_deltas": 1}]),
    "raw_dither_preemph_dither": (None, [{"name": "dither", "coeff": 2.0}, "preemph", "dither"], []),
    "stft_dither_dither_preemph": (_STFT, ["dither", {"name": "dither", "coeff": 0.5}, {"name": "preemph", "coeff": 0.97}], []),
    "raw_dict_list_dither_first": (None, [{"name": "dither", "coeff": 4.0}, {"name": "preemph"}, {"name": "preemph", "coeff": 0.5}], []),
}
RANDOM_POSITION = {  # where the random pre-processor stands in the chain (for the notes)
    "stft_dither_deltas": "only",
    "raw_preemph_dither": "last",
    "stft_dither_preemph": "first",
    "raw_preemph_dither_preemph": "middle",
    "stft_dict_dither": "only, as a dict",
    "raw_dither_preemph_dither": "first and last",
    "stft_dither_dither_preemph": "first and second of three",
    "raw_dict_list_dither_first": "first of three",
}

IDS = ["utt_b", "a-1", "zz.9", "M"]  # default of cases recorded before `ids` became part of the case
# id sets (map order). Longer id first, then ids contained in it; plus an id that extends an earlier shorter one.
ID_SETS = {
    "unpadded": ["utt10", "utt1", "utt11", "10"],  # prefix of [0]; extension of [1]; suffix of [0]
    "letters": ["ab", "b", "a", "abc"],  # suffix of [0]; prefix of [0]; extension of [0]
    "speaker": ["spk1_ab", "spk1_a", "k1", "spk1_abc"],  # prefix of [0]; infix of [0]; extension of [0]
}

# LAYOUT NOTE. Maps that mix what the command accepts utterance by utterance: "The output is independent of
# --num-workers" and "re-running the same command afterwards leaves a directory whose files are identical to those of an
# uninterrupted run" are stated for every map, and which process computes which utterance AFTER which other utterance is
# exactly what --num-workers and the kill point change (w = 0: one process sees the whole map in order; w = 2: the
# workers see alternate utterances; a re-run: a fresh process starts in the middle). So the fixtures below put
# neighbours of different storage layout ((S,) / (1, S) mono with --channel left at its default; (1, S) / (2, S) / (3, S)
# with --channel c), different container (npy, wav, pt, hdf5, npz) and very different length next to one another: any
# per-process state that one utterance leaves behind (a remembered channel / layout / file type / buffer size) then
# gives a history-dependent result or a history-dependent abort.  "container:layout" per utterance, map order.
MIXED = {
    # name: (config, layouts, lengths, --channel or None)
    "mono_1xS_S": ("raw_preemph_dither", ["npy:1xS", "wav:S", "pt:1xS", "hdf5:S"], [700, 250, 2400, 330], None),
    "chan0_CxS_1xS": ("stft_dither_deltas", ["npy:2xS", "pt:1xS", "hdf5:3xS", "npz:1xS"], [900, 260, 1500, 420], 0),
    "mono_S_1xS": ("stft_dither_preemph", ["wav:S", "npz:1xS", "npy:S", "hdf5:1xS"], [300, 2000, 410, 777], None),
    "chan1_CxS": ("raw_dither_preemph_dither", ["npy:2xS", "pt:3xS", "hdf5:2xS", "npz:4xS"], [1200, 222, 640, 350], 1),
    "chan2_CxS": ("raw_preemph_dither_preemph", ["hdf5:3xS", "npy:4xS", "pt:3xS", "npy:5xS"], [256, 1024, 255, 513], 2),
}

# ---------------------------------------------------------------------------------------------
# the child process
# ---------------------------------------------------------------------------------------------
CHILD = r"""
import sys, os, json, signal, io, time
spec = json.loads(os.environ["C10_SPEC"])
sys.dont_write_bytecode = True
sys.path.insert(0, spec["repo_src"])
import argparse
import torch

_LOG = os.open(spec["log"], os.O_WRONLY | os.O_APPEND | os.O_CREAT, 0o644)

def log(*a):
    os.write(_LOG, (" ".join(str(x) for x in a) + "\n").encode())

def hit(point, k):
    return spec.get("point") == point and int(spec.get("k", 0)) == k and os.getpid() == _MAIN_PID

_MAIN_PID = os.getpid()

def die(where):
    log("KILL", where)
    if spec.get("kind") == "hard":
        os.kill(os.getpid(), signal.SIGKILL)
        time.sleep(60)
    raise KeyboardInterrupt

_real_save = torch.save
_n_save = [0]

def _save(obj, f, *a, **kw):
    _n_save[0] += 1
    k = _n_save[0]
    log("SAVE_BEGIN", k, f)
    if hit("before_save", k):
        die("before_save")
    if hit("mid_save", k):
        buf = io.BytesIO()
        _real_save(obj, buf, *a, **kw)
        data = buf.getvalue()
        with open(f, "wb") as fh:
            fh.write(data[: len(data) // 2])
        die("mid_save")
    _real_save(obj, f, *a, **kw)
    log("SAVE_END", k, f)
    if hit("after_save", k):
        die("after_save")

torch.save = _save

class _Proxy(object):
    def __init__(self, f):
        self._f = f
        self._line = 0
        self._pending = ""
    def write(self, s):
        r = self._f.write(s)
        self._pending += s
        while "\n" in self._pending:
            self._pending = self._pending.split("\n", 1)[1]
            self._line += 1
            log("MANI_WRITE", self._line)
            if hit("mid_manifest", self._line):
                die("mid_manifest")
        return r
    def flush(self):
        self._f.flush()
        log("MANI_FLUSH", self._line)
    def __iter__(self):
        return iter(self._f)
    def __getattr__(self, name):
        return getattr(self._f, name)

_real_ft_call = argparse.FileType.__call__

def _ft_call(self, string):
    f = _real_ft_call(self, string)
    if "a" in self._mode:
        return _Proxy(f)
    return f

argparse.FileType.__call__ = _ft_call

import pydrobert.speech.command_line as _cl

if hasattr(_cl, "read_signal"):
    _real_read = _cl.read_signal
    def _read(path, *a, **kw):
        log("READ", kw.get("key"), path)
        return _real_read(path, *a, **kw)
    _cl.read_signal = _read
    log("READ_WRAPPED")

rc = _cl.signals_to_torch_feat_dir(sys.argv[1:])
if hit("after_return", 0):
    die("after_return")
log("EXIT", rc)
sys.exit(rc)
"""


# ---------------------------------------------------------------------------------------------
# fixture: inputs shared by all scenarios of one (config, n_utts, data_seed, seed)
# ---------------------------------------------------------------------------------------------
def _case_ids(case):
    ids = case.get("ids")
    return list(ids) if ids else IDS[: case["n_utts"]]


def _case_layouts(case):
    """per-utterance "container:layout" (see LAYOUT NOTE in the module docstring); None = the historical (S,) fixtures"""
    lay = case.get("layouts")
    return tuple(lay) if lay else None


def _fixture_key(case):
    lay, lens, chan = _case_layouts(case), case.get("lengths"), case.get("channel")
    extra = () if (lay is None and lens is None and chan is None) else (lay, tuple(lens) if lens else None, chan)
    return (case["config"], case["n_utts"], case["data_seed"], case["seed"], tuple(_case_ids(case))) + extra


def _write_signal(path_stem, container, layout, utt, sig):
    """Stores `sig` ((S,) or (C, S) int16 values) in `container`; returns the path. read_signal hands the array back with
    the stored shape for npy / pt / hdf5 / npz (hdf5 and npz are indexed by the utterance id, which is what the command
    passes as key); a mono wav comes back as (S,)."""
    import torch

    if container == "wav":
        if sig.ndim != 1:
            raise ValueError("wav fixtures are mono (S,) only")
        path = path_stem + ".wav"
        w = wave.open(path, "wb")
        w.setnchannels(1)
        w.setsampwidth(2)
        w.setframerate(8000)
        w.writeframes(sig.tobytes())
        w.close()
    elif container == "pt":
        path = path_stem + ".pt"
        torch.save(torch.from_numpy(sig.astype(np.float32)), path)
    elif container == "npy":
        path = path_stem + ".npy"
        np.save(path, sig.astype(np.float64) * 0.5)
    elif container == "npz":
        path = path_stem + ".npz"
        np.savez(path, **{utt: sig.astype(np.float32) * 0.25})
    elif container == "hdf5":
        import h5py

        path = path_stem + ".hdf5"
        with h5py.File(path, "w") as f:
            f.create_dataset(utt, data=sig.astype(np.float64) * 2.0)
    else:
        raise ValueError(f"unknown container {container!r}")
    return path


class _Fixture(object):
    def __init__(self, case, root):
        self.config, self.n, self.data_seed, self.seed = _fixture_key(case)[:4]
        self.dir = tempfile.mkdtemp(prefix="fx_", dir=root)
        self.ids = _case_ids(case)
        if len(self.ids) != self.n or len(set(self.ids)) != self.n:
            raise ValueError(f"case needs {self.n} distinct ids, got {self.ids}")
        self.layouts = _case_layouts(case)
        self.lengths = case.get("lengths")
        self.channel = case.get("channel")
        for what in (self.layouts, self.lengths):
            if what is not None and len(what) != self.n:
                raise ValueError(f"case needs {self.n} layouts / lengths, got {what}")
        raw = os.path.join(self.dir, "raw")
        os.makedirs(raw)
        fmts = ["npy", "wav", "pt", "npy"]
        lines = []
        for i, u in enumerate(self.ids):
            rng = _common.make_rng(self.data_seed, f"c10:{u}:{i}")
            n = int(rng.integers(400, 900))
            container, layout = (self.layouts[i].split(":") if self.layouts else (fmts[i % 4], "S"))
            if self.lengths:
                n = int(self.lengths[i])
            if layout == "S":
                sig = rng.integers(-(2**15), 2**15, n).astype(np.int16)
            else:  # "CxS": C channels, every channel its own samples (a wrong channel is a wrong file)
                sig = rng.integers(-(2**15), 2**15, (int(layout[: -len("xS")]), n)).astype(np.int16)
            path = _write_signal(os.path.join(raw, f"s{i}"), container, layout, u, sig)
            lines.append(f"{u} {path}\n")
        self.map = os.path.join(self.dir, "map")
        with open(self.map, "w") as f:
            f.writelines(lines)
        self._counter = 0
        self.reference = None  # {file name: tensor}
        self.reference_error = None

    def describe(self):
        """the part of the input that matters for per-process state, for messages"""
        if self.layouts is None and self.channel is None and self.lengths is None:
            return ""
        txt = "map layouts " + (", ".join(self.layouts) if self.layouts else "all (S,)")
        if self.lengths:
            txt += f", lengths {list(self.lengths)}"
        txt += f", --channel {self.channel}" if self.channel is not None else ", --channel left at its default"
        return txt + ": "

    def new_run_dir(self):
        self._counter += 1
        d = os.path.join(self.dir, f"run{self._counter}")
        os.makedirs(d)
        return d

    def argv(self, rundir, workers):
        comp, pre, post = CONFIGS[self.config]
        args = [self.map]
        if comp is not None:
            args.append(json.dumps(comp))
        args.append(os.path.join(rundir, "feats"))
        args += ["--preprocess", json.dumps(pre), f"--seed={self.seed}", "--manifest", os.path.join(rundir, "manifest.txt")]
        if post:
            args += ["--postprocess", json.dumps(post)]
        if workers:
            args += ["--num-workers", str(workers)]
        if self.channel is not None:
            args.append(f"--channel={self.channel}")
        return args


def _run_child(fx, rundir, workers, stage, tag):
    """One subprocess. Returns (returncode or 'timeout', log lines, stderr tail)."""
    log = os.path.join(rundir, f"log_{tag}.txt")
    err = os.path.join(rundir, f"stderr_{tag}.txt")
    spec = {"repo_src": os.path.join(_common.repo_path(), "src"), "log": log}
    if stage:
        spec.update(stage)
    env = dict(os.environ)
    env.update({"C10_SPEC": json.dumps(spec), "OMP_NUM_THREADS": "1", "MKL_NUM_THREADS": "1", "PYTHONDONTWRITEBYTECODE": "1"})
    env.pop("PYTHONPATH", None)
    with open(err, "w") as ef:
        try:
            p = subprocess.run(
                [sys.executable, "-W", "ignore", "-c", CHILD] + fx.argv(rundir, workers),
                env=env,
                stdin=subprocess.DEVNULL,
                stdout=ef,
                stderr=ef,
                cwd=rundir,
                timeout=180,
            )
            rc = p.returncode
        except subprocess.TimeoutExpired:
            rc = "timeout"
    lines = open(log).read().splitlines() if os.path.exists(log) else []
    tail = open(err).read()[-400:] if os.path.exists(err) else ""
    return rc, lines, tail


def _manifest_lines(rundir):
    p = os.path.join(rundir, "manifest.txt")
    if not os.path.exists(p):
        return []
    with open(p) as f:
        return [ln.rstrip("\n") for ln in f.read().split("\n") if ln != ""]


def _load_dir(rundir):
    """{file name: tensor or Exception}"""
    import torch

    d = os.path.join(rundir, "feats")
    out = {}
    if os.path.isdir(d):
        for name in sorted(os.listdir(d)):
            try:
                out[name] = torch.load(os.path.join(d, name))
            except Exception as e:  # partial file
                out[name] = e
    return out


def _stat(rundir, utt):
    p = os.path.join(rundir, "feats", utt + ".pt")
    st = os.stat(p)
    return (st.st_ino, st.st_mtime_ns, st.st_size, hashlib.sha1(open(p, "rb").read()).hexdigest())


def _tensors_equal(a, b):
    import torch

    return (
        isinstance(a, torch.Tensor)
        and isinstance(b, torch.Tensor)
        and a.dtype == b.dtype
        and a.shape == b.shape
        and torch.equal(a, b)
    )


def _compare_dirs(got, ref):
    if sorted(got) != sorted(ref):
        return f"files {sorted(got)} != uninterrupted run's {sorted(ref)}"
    for name in ref:
        if not _tensors_equal(got[name], ref[name]):
            what = got[name] if isinstance(got[name], Exception) else "tensor differs"
            return f"{name}: {what}"
    return ""


def _log_ids(lines, tag):
    """utterance ids of the log lines `tag` (SAVE_BEGIN / SAVE_END carry the path, READ the key)."""
    out = []
    for ln in lines:
        parts = ln.split(" ")
        if parts[0] != tag:
            continue
        if tag == "READ":
            out.append(parts[1])
        else:
            out.append(os.path.basename(" ".join(parts[2:]))[: -len(".pt")])
    return out


def _ensure_reference(fx):
    if fx.reference is not None or fx.reference_error is not None:
        return
    rundir = fx.new_run_dir()
    rc, lines, tail = _run_child(fx, rundir, 0, None, "ref")
    got = _load_dir(rundir)
    want = sorted(u + ".pt" for u in fx.ids)
    if rc != 0 or sorted(got) != want or any(isinstance(v, Exception) for v in got.values()):
        last = [ln for ln in tail.splitlines() if ln.strip()][-1:]  # the exception line of the traceback
        fx.reference_error = f"uninterrupted run failed: rc={rc}, wrote {sorted(got)}, stderr ends: {last[0].strip() if last else ''}"
        return
    if sorted(_manifest_lines(rundir)) != sorted(fx.ids):
        fx.reference_error = f"uninterrupted run's manifest is {_manifest_lines(rundir)}, expected {fx.ids}"
        return
    fx.reference = got


def _complete(fx, rundir, rc):
    """the run ended with status 0, every utterance has a loadable file and a manifest line"""
    got = _load_dir(rundir)
    return (
        rc == 0
        and sorted(got) == sorted(u + ".pt" for u in fx.ids)
        and not any(isinstance(v, Exception) for v in got.values())
        and sorted(set(_manifest_lines(rundir))) == sorted(fx.ids)
    )


def _scenario_without_reference(fx, case):
    """The uninterrupted --num-workers 0 run of this fixture's command did not complete (every fixture is a map the
    unchanged command processes). The case is a failure whatever happens next; its own run(s) are still made, because
    "independent of --num-workers" / "re-running ... leaves a directory ... identical to those of an uninterrupted run"
    are broken in the sharpest way when the SAME command completes with another worker count / after a kill and a
    re-run: then the worker count or the kill point decides whether the command gets through."""
    rundir = fx.new_run_dir()
    stages = case.get("stages", [])
    if not stages:
        rc, lines, tail = _run_child(fx, rundir, case["workers"], None, "fresh")
        if _complete(fx, rundir, rc):
            return [
                (
                    "C10.workers.identical",
                    f"{fx.describe()}whether the command gets through depends on --num-workers: with {case['workers']} it completes "
                    f"(all {fx.n} files and manifest lines), with 0 the {fx.reference_error}",
                )
            ]
        return [("C10.resume.identical", f"{fx.describe()}{fx.reference_error}; the --num-workers {case['workers']} run does not complete either (rc={rc}; stderr: {tail})")]
    rc, tail = None, ""
    for si, stage in enumerate(list(stages) + [None]):
        workers = case["workers"] if stage is not None else case.get("resume_workers", case["workers"])
        rc, lines, tail = _run_child(fx, rundir, workers, stage, f"s{si}")
    if _complete(fx, rundir, rc):
        rw = case.get("resume_workers", case["workers"])
        return [
            (
                "C10.resume.identical",
                f"{fx.describe()}the kill point / worker count decides how far the command gets: killed at {stages} (--num-workers "
                f"{case['workers']}) and re-run (--num-workers {rw}) it completes (all {fx.n} files and manifest lines), but the {fx.reference_error}",
            )
        ]
    return [("C10.resume.identical", f"{fx.describe()}{fx.reference_error}; after {stages} the re-run does not complete either (rc={rc}; stderr: {tail})")]


def _scenario(fx, case):
    """Runs one case (kill stages + final resume, or a fresh run with workers). Returns (failures, info)."""
    fails = []
    info = {"kills": 0, "listed_at_kill": [], "resaved": None}
    if fx.reference_error:
        return _scenario_without_reference(fx, case), info
    ref = fx.reference
    rundir = fx.new_run_dir()
    stages = case.get("stages", [])
    if not stages:
        rc, lines, tail = _run_child(fx, rundir, case["workers"], None, "fresh")
        msg = _compare_dirs(_load_dir(rundir), ref) if rc == 0 else f"exit status {rc} where the --num-workers 0 run of the same command completes; stderr: {tail}"
        if not msg and sorted(_manifest_lines(rundir)) != sorted(fx.ids):
            msg = f"manifest {_manifest_lines(rundir)}"
        if msg:
            fails.append(("C10.workers.identical", f"{fx.describe()}--preprocess {json.dumps(CONFIGS[fx.config][1])}: --num-workers {case['workers']} vs 0: {msg}"))
        return fails, info
    listed_before = []  # ids listed before the run about to start
    stats_before = {}
    for si, stage in enumerate(list(stages) + [None]):
        workers = case["workers"] if stage is not None else case.get("resume_workers", case["workers"])
        rc, lines, tail = _run_child(fx, rundir, workers, stage, f"s{si}")
        listed = _manifest_lines(rundir)
        on_disk = _load_dir(rundir)
        if si > 0:
            # this run was a resume: nothing listed before may be rewritten or recomputed
            for u in listed_before:
                try:
                    now = _stat(rundir, u)
                except OSError as e:
                    now = str(e)
                if now != stats_before.get(u):
                    fails.append(("C10.resume.not_rewritten", f"run {si}: file of listed utterance {u!r} changed: {stats_before.get(u)} -> {now}"))
            began = _log_ids(lines, "SAVE_BEGIN")
            read = _log_ids(lines, "READ")
            redone = sorted(set(listed_before) & (set(began) | set(read)))
            if redone:
                fails.append(("C10.resume.not_recomputed", f"run {si}: listed utterances {redone} were read/saved again (saves {began}, reads {read})"))
            if stage is None:
                todo = [u for u in fx.ids if u not in set(listed_before)]
                if sorted(began) != sorted(todo):
                    fails.append(("C10.resume.not_recomputed", f"final run saved {began}, the unlisted utterances are {todo}"))
                info["resaved"] = began
        if stage is not None:
            info["kills"] += 1
            if not any(ln.startswith("KILL") for ln in lines):
                fails.append(("C10.kill_unreached", f"{fx.describe()}stage {si} {stage}: kill point never fired (rc={rc}); stderr: {tail}"))
            ended = _log_ids(lines, "SAVE_END")
            began = _log_ids(lines, "SAVE_BEGIN")
            k = int(stage.get("k", 0))
            in_flight = began[k - 1] if 0 < k <= len(began) else None
            if stage["point"] == "mid_manifest" and in_flight is None and 0 < k <= len(ended):
                in_flight = ended[k - 1]
            # I1
            for u in listed:
                name = u + ".pt"
                if u not in fx.ids:
                    fails.append(("C10.I1.listed_complete", f"after {stage}: manifest line {u!r} is not an utterance of the map"))
                elif name not in on_disk:
                    fails.append(("C10.I1.listed_complete", f"after {stage}: {u!r} is listed but has no feature file"))
                elif isinstance(on_disk[name], Exception):
                    fails.append(("C10.I1.listed_complete", f"after {stage}: {u!r} is listed but its file does not load: {on_disk[name]}"))
                elif not _tensors_equal(on_disk[name], ref[name]):
                    fails.append(("C10.I1.listed_complete", f"--preprocess {json.dumps(CONFIGS[fx.config][1])}: after {stage}: {u!r} is listed but its file differs from the uninterrupted run"))
            # I2
            completed = [u for u in listed_before] + ended
            missing = [u for u in completed if u not in listed and u != in_flight]
            if missing:
                fails.append(
                    ("C10.I2.completed_listed", f"after {stage}: saves completed for {completed}, in flight {in_flight!r}, manifest on disk {listed}: {missing} missing")
                )
            info["listed_at_kill"].append(list(listed))
        else:
            if rc != 0:
                fails.append(("C10.resume.exit", f"{fx.describe()}after {stages}: final run exit status {rc} (the uninterrupted run of the same command completes); stderr: {tail}"))
            msg = _compare_dirs(on_disk, ref)
            if not msg and sorted(set(listed)) != sorted(fx.ids):
                msg = f"manifest after the final run lists {listed}, expected every utterance of {fx.ids}"
            if msg:
                wtxt = "" if workers == case["workers"] == 0 else f" (killed run(s) --num-workers {case['workers']}, re-run --num-workers {workers})"
                fails.append(("C10.resume.identical", f"{fx.describe()}--preprocess {json.dumps(CONFIGS[fx.config][1])}: after {stages} and a re-run{wtxt}: {msg}"))
        listed_before = [u for u in listed if u in fx.ids]
        stats_before = {}
        for u in listed_before:
            try:
                stats_before[u] = _stat(rundir, u)
            except OSError as e:
                stats_before[u] = str(e)
    return fails, info


# ---------------------------------------------------------------------------------------------
# enumeration
# ---------------------------------------------------------------------------------------------
def _points(n):
    pts = []
    for k in range(1, n + 1):
        for p in ("before_save", "mid_save", "after_save", "mid_manifest"):
            pts.append({"point": p, "k": k})
    pts.append({"point": "after_return", "k": 0})
    return pts


def _plan(tier, seed):
    rng = _common.make_rng(seed, "c10:plan:" + tier)
    cases = []

    def base(config, n, idset):
        return {"config": config, "n_utts": n, "ids": ID_SETS[idset][:n]}

    def mixed(name, idset, mrng):
        config, layouts, lengths, channel = MIXED[name]
        b = dict(base(config, len(layouts), idset), data_seed=int(mrng.integers(0, 2**31)), seed=int(mrng.integers(0, 2**20)))
        b.update(layouts=list(layouts), lengths=list(lengths))
        if channel is not None:
            b["channel"] = channel
        return b

    def mk(b, stages, workers=0, resume_workers=None):
        c = dict(b)
        c["stages"] = stages
        c["workers"] = workers
        if resume_workers is not None:
            c["resume_workers"] = resume_workers
        return c

    if tier == "quick":
        n = 3
        A = dict(base("stft_dither_deltas", n, "unpadded"), data_seed=int(rng.integers(0, 2**31)), seed=int(rng.integers(0, 2**20)))
        B = dict(base("raw_preemph_dither", n, "letters"), data_seed=int(rng.integers(0, 2**31)), seed=int(rng.integers(0, 2**20)))
        Z = dict(base("stft_dither_deltas", n, "speaker"), data_seed=int(rng.integers(0, 2**31)), seed=0)  # boundary --seed=0
        H, S = "hard", "soft"
        picks = [
            (A, "before_save", 2, H),  # = after manifest line 1: flush (I2) and seed index (resume) in one
            (A, "mid_save", 2, H),
            (A, "after_save", 1, H),
            (A, "mid_manifest", 2, H),
            (A, "before_save", 3, H),
            (A, "after_return", 0, H),
            (B, "after_save", 3, H),
            (B, "mid_save", 1, H),
            (A, "mid_save", 3, S),
            (A, "after_save", 2, S),
            (B, "before_save", 2, S),
            (B, "mid_manifest", 1, S),
            (A, "before_save", 1, H),
        ]
        for b, p, k, kind in picks:
            cases.append(mk(b, [{"point": p, "k": k, "kind": kind}]))
        # two successive kills, then the re-run (k of the second stage counts the saves of that run)
        cases.append(mk(A, [{"point": "before_save", "k": 2, "kind": "hard"}, {"point": "mid_save", "k": 1, "kind": "soft"}]))
        for w in (1, 2):
            cases.append(mk(A, [], workers=w))
        cases.append(mk(B, [], workers=2))
        # order: first kill cases, worker runs early enough to be inside the first wave
        cases = cases[:5] + cases[-4:] + cases[5:-4]
        # --seed=0: resume after an interruption, the same command twice (kill before anything is saved, then the
        # re-run), independence of --num-workers; inside the first wave as well
        cases[3:3] = [
            mk(Z, [{"point": "before_save", "k": 2, "kind": H}]),
            mk(Z, [], workers=2),
            mk(Z, [{"point": "before_save", "k": 1, "kind": S}]),
        ]
        # pre-processor chains with the random element first / in the middle / at both ends / alone as a dict: resume
        # identity and worker-count independence for each, first in the plan
        crng = _common.make_rng(seed, "c10:chains:" + tier)
        fx = lambda config, idset: dict(base(config, n, idset), data_seed=int(crng.integers(0, 2**31)), seed=int(crng.integers(0, 2**20)))  # noqa: E731
        X1, X2 = fx("stft_dither_preemph", "letters"), fx("raw_preemph_dither_preemph", "speaker")
        X3, X4 = fx("stft_dict_dither", "unpadded"), fx("raw_dither_preemph_dither", "letters")
        cases[0:0] = [
            mk(X1, [{"point": "before_save", "k": 2, "kind": H}]),
            mk(X1, [], workers=2),
            mk(X3, [{"point": "mid_save", "k": 2, "kind": H}], workers=0, resume_workers=2),
            mk(X4, [{"point": "before_save", "k": 3, "kind": H}], workers=2, resume_workers=0),
            mk(X2, [{"point": "after_save", "k": 1, "kind": S}]),
            mk(X2, [], workers=1),
        ]
        # maps mixing layouts / containers / lengths (LAYOUT NOTE): worker-count independence and resume identity, first
        mrng = _common.make_rng(seed, "c10:mixed:" + tier)
        M1, M2 = mixed("mono_1xS_S", "speaker", mrng), mixed("chan0_CxS_1xS", "unpadded", mrng)
        cases[0:0] = [
            mk(M1, [], workers=2),
            mk(M1, [{"point": "after_save", "k": 1, "kind": H}], workers=0, resume_workers=2),
            mk(M2, [{"point": "before_save", "k": 2, "kind": S}], workers=2, resume_workers=0),
            mk(M2, [], workers=2),
        ]
    else:
        n = 4
        A = dict(base("stft_dither_deltas", n, "unpadded"), data_seed=int(rng.integers(0, 2**31)), seed=int(rng.integers(0, 2**20)))
        B = dict(base("raw_preemph_dither", n, "letters"), data_seed=int(rng.integers(0, 2**31)), seed=int(rng.integers(0, 2**20)))
        A3 = dict(base("stft_dither_deltas", 3, "speaker"), data_seed=int(rng.integers(0, 2**31)), seed=int(rng.integers(0, 2**20)))
        Z = dict(base("raw_preemph_dither", n, "speaker"), data_seed=int(rng.integers(0, 2**31)), seed=0)  # boundary --seed=0
        for pt, w, rw in (
            ({"point": "before_save", "k": 2, "kind": "hard"}, 0, 0),
            ({"point": "before_save", "k": 1, "kind": "soft"}, 0, 0),
            ({"point": "after_save", "k": 3, "kind": "hard"}, 0, 2),
            ({"point": "mid_manifest", "k": 2, "kind": "soft"}, 1, 0),
        ):
            cases.append(mk(Z, [pt], workers=w, resume_workers=rw))
        for w in (1, 2):
            cases.append(mk(Z, [], workers=w))
        for kind in ("hard", "soft"):
            for pt in _points(n):
                cases.append(mk(A, [dict(pt, kind=kind)]))
        for b in (A, B, A3):
            for w in (1, 2):
                cases.append(mk(b, [], workers=w))
        for kind in ("hard", "soft"):
            for pt in _points(n):
                cases.append(mk(B, [dict(pt, kind=kind)]))
        # kills with worker processes, resume with another worker count
        for pt, w, rw in (
            ({"point": "before_save", "k": 3, "kind": "hard"}, 2, 0),
            ({"point": "mid_save", "k": 2, "kind": "hard"}, 1, 2),
            ({"point": "after_save", "k": 2, "kind": "soft"}, 2, 1),
            ({"point": "before_save", "k": 2, "kind": "hard"}, 0, 2),
        ):
            cases.append(mk(A, [pt], workers=w, resume_workers=rw))
        # pre-processor chains with the random element in every position (and as a dict): every kind of kill point once,
        # hard and soft, worker counts {1, 2}, and a resume with another worker count
        chain_cases = []
        rng_all, rng = rng, _common.make_rng(seed, "c10:chains:" + tier)  # own stream: the other picks stay what they were
        for j, config in enumerate(c for c in CONFIGS if c not in ("stft_dither_deltas", "raw_preemph_dither")):
            X = dict(base(config, n, list(ID_SETS)[j % 3]), data_seed=int(rng.integers(0, 2**31)), seed=(0 if j == 4 else int(rng.integers(0, 2**20))))
            pts = _points(n)
            for i, kind in ((4 + j % 4, "hard"), (9 + (j + 1) % 4, "soft"), (1 + (j + 2) % 4, "hard"), (12 + (j + 3) % 4, "soft")):
                chain_cases.append(mk(X, [dict(pts[i], kind=kind)]))
            chain_cases.append(mk(X, [dict(pts[5 + j % 3], kind="hard")], workers=(j % 3), resume_workers=((j + 2) % 3)))
            for w in (1, 2):
                chain_cases.append(mk(X, [], workers=w))
        cases[6:6] = chain_cases
        rng = rng_all
        # two successive kills before the final re-run (k of the second stage counts the saves of that run)
        for _ in range(8):
            p1 = dict(_points(n)[int(rng.integers(0, 4 * n))], kind=str(rng.choice(["hard", "soft"])))
            remaining = n - (p1["k"] - 1)
            if p1["point"] == "mid_manifest" and p1["kind"] == "soft":
                # harness: line k reaches the disk when the interrupted process closes the manifest, so the next run may
                # have only n - k utterances left; the second kill must be reachable in either outcome
                remaining -= 1
            if remaining < 1:
                cases.append(mk(A if rng.integers(0, 2) else B, [p1]))
                continue
            p2 = dict(_points(remaining)[int(rng.integers(0, 4 * remaining))], kind=str(rng.choice(["hard", "soft"])))
            cases.append(mk(A if rng.integers(0, 2) else B, [p1, p2]))
        for kind in ("hard", "soft"):
            for pt in _points(3):
                cases.append(mk(A3, [dict(pt, kind=kind)]))
        # maps mixing layouts / containers / lengths (LAYOUT NOTE): every fixture with workers {1, 2}, a kill after each
        # utterance re-run in one process, and kills with worker processes / another worker count on the re-run; first
        mrng = _common.make_rng(seed, "c10:mixed:" + tier)
        mixed_cases = []
        for j, name in enumerate(MIXED):
            Mx = mixed(name, list(ID_SETS)[j % 3], mrng)
            for w in (2, 1):
                mixed_cases.append(mk(Mx, [], workers=w))
            for k in (1, 2, 3):
                mixed_cases.append(mk(Mx, [{"point": ("after_save", "before_save", "mid_save")[(j + k) % 3], "k": k, "kind": ("hard", "soft")[(j + k) % 2]}]))
            mixed_cases.append(mk(Mx, [{"point": "after_save", "k": 1 + j % 3, "kind": "hard"}], workers=0, resume_workers=2))
            mixed_cases.append(mk(Mx, [{"point": "mid_manifest", "k": 1 + (j + 1) % 3, "kind": "soft"}], workers=2, resume_workers=0))
        cases[0:0] = mixed_cases
    return cases


def _nontrivial(case, info):
    if not case.get("stages"):
        return True
    return info["kills"] == len(case["stages"])


def run(tier: str, seed: int) -> dict:
    _common.use_repo()
    col = _common.Collector(PROPERTY, tier, seed, budget_s=(50 if tier == "quick" else 520))
    cases = _plan(tier, seed)
    root = tempfile.mkdtemp(prefix="c10_")
    n_nonempty_prefix = 0
    try:
        fixtures = {}
        for c in cases:
            k = _fixture_key(c)
            if k not in fixtures:
                fixtures[k] = _Fixture(c, root)
        with concurrent.futures.ThreadPoolExecutor(max_workers=8) as pool:
            list(pool.map(_ensure_reference, fixtures.values()))

            def work(c):
                if col.out_of_time():
                    return c, None, None
                try:
                    return (c,) + _scenario(fixtures[_fixture_key(c)], c)
                except Exception as e:  # harness error
                    return c, [("C10.kill_unreached", f"harness error: {type(e).__name__}: {e}")], {"kills": 0, "listed_at_kill": [], "resaved": None}

            skipped = 0
            for c, fails, info in pool.map(work, cases):
                if fails is None:
                    skipped += 1
                    continue
                col.case(c, nontrivial=_nontrivial(c, info), sample=c)
                if any(len(x) for x in info["listed_at_kill"]):
                    n_nonempty_prefix += 1
                for clause, msg in fails:
                    col.fail(clause, c, msg)
            if skipped:
                col.note(f"{skipped} planned cases not run (time budget)")
    finally:
        shutil.rmtree(root, ignore_errors=True)
    col.note(f"kill cases whose manifest was non-empty at a kill (resume skips a non-empty prefix): {n_nonempty_prefix}")
    done = sorted({c["config"] for c in cases})
    mixed_done = sorted({(tuple(c["layouts"]), c.get("channel")) for c in cases if c.get("layouts")}, key=str)
    col.note("mixed maps (layouts in map order, --channel): " + "; ".join(f"{list(l)} channel={ch}" for l, ch in mixed_done))
    col.note("position of the random pre-processor in the planned --preprocess chains: " + "; ".join(f"{c}: {RANDOM_POSITION.get(c, '?')}" for c in done))
    return col.result(
        rule="one case = one scenario in subprocesses: either kill stage(s) (point, k, hard|soft) followed by a re-run of "
        "the same command to completion, or one fresh run with --num-workers w; non-trivial iff every requested kill "
        "fired (worker cases: always); each scenario is compared with an uninterrupted --num-workers 0 run",
        bound=(
            "configs {STFT fbank + [dither] + deltas, raw samples + [preemph, dither]} for the kill-point enumeration, plus "
            "--preprocess chains with the random element first / middle / both ends / twice then preemph / alone as a dict "
            + (
                "(4 chains: [dither, preemph], [preemph, dither, preemph], {dither} as a dict, [dither, preemph, dither]; each: "
                "one kill + re-run and one worker-count comparison, two of them combined as kill with w workers / re-run with w')"
                if tier == "quick"
                else "(6 chains; each: 4 kill points hard/soft + re-run, one kill with changed worker count on the re-run, workers {1,2})"
            )
            + ", fixed --seed (random per fixture, "
            "and one fixture with --seed=0), ids containing one another with the longer id first in the map "
            f"({ID_SETS}), "
            + (
                "3 utterances; 13 kill points covering every kind (before/mid/after save, mid manifest line, after return; "
                "9 hard, 4 soft); one double-kill scenario; workers {1,2}; --seed=0: 2 kill points + workers 2"
                if tier == "quick"
                else "4 (and 3) utterances; ALL kill points (4 per utterance + after return) x {hard, soft} for both "
                "configs; 4 kill cases with worker processes / changed worker count on resume; 8 double-kill "
                "scenarios; workers {1,2} for every fixture"
            )
            + "; maps mixing storage layouts / containers / lengths ("
            + (
                "2 fixtures of 4 utterances: [npy (1,S), wav (S,), pt (1,S), hdf5 (S,)] with the default --channel and [npy (2,S), pt (1,S), "
                "hdf5 (3,S), npz (1,S)] with --channel 0, lengths 250..2400; each: workers 2 vs 0, and one kill + re-run with another worker count"
                if tier == "quick"
                else f"{len(MIXED)} fixtures of 4 utterances {json.dumps({k: [v[1], v[3]] for k, v in MIXED.items()})}; each: workers {{1,2}} vs 0, a kill after "
                "utterance 1, 2, 3 + re-run, and two kills with worker processes / another worker count on the re-run"
            )
            + "); <= 4 utterances, <= 2 successive kills, single invocation at a time"
        ),
        assumptions=ASSUMPTIONS,
    )


def replay(case: dict):
    _common.use_repo()
    root = tempfile.mkdtemp(prefix="c10_")
    try:
        fx = _Fixture(case, root)
        _ensure_reference(fx)
        fails, info = _scenario(fx, case)
    finally:
        shutil.rmtree(root, ignore_errors=True)
    if fails:
        return False, "; ".join(f"{c}: {m}" for c, m in fails)[:1200]
    return True, f"held (kills fired: {info['kills']}, manifest at kill(s): {info['listed_at_kill']}, re-run saved: {info['resaved']})"


if __name__ == "__main__":
    from rtc import _common
    import sys

    _common.main(sys.modules[__name__])

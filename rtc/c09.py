"""Bounded stand-in for C09: the command-line tools store exactly what the library pipeline computes.

Runs the REAL entry points `command_line.compute_feats_from_kaldi_tables(args)` and
`command_line.signals_to_torch_feat_dir(args)` in-process on small synthetic inputs in a temp
directory and compares what they stored with the library pipeline written out here:

    raw samples (known to the harness, float64)
      -> pre-processors in order   (library `Preemphasize(c).apply`; dither written out:
                                    Kaldi tool  x + RandomState(seed).normal(0, c, n), one stream over the
                                                non-skipped utterances in table order
                                    torch tool  x + c * randn(n, float64) from a generator seeded with
                                                seed + position of the utterance in the FULL map)
      -> `computer.compute_full`   (NumPy computer built directly from the classes, no alias factory;
                                    torch tool without a computer: the samples as a column)
      -> post-processors in order  (library `Deltas/Stack/Standardize(...).apply`)
      -> float32

Clauses (ids):
  C09.<tool>.exit        entry point returns 0 and raises nothing (also with skipped utterances)
  C09.<tool>.ids         the stored ids are exactly the non-excluded utterances, each once, no others
  C09.<tool>.value       stored matrix has the oracle's shape and |stored - pipeline| <= 1e-6 + 1e-5 * m, where
                         m = |pipeline entry| for the Kaldi tool (entry-wise allclose) and, for the torch tool,
                         m = max(|pipeline entry|, largest |pipeline| in the same feature column of the utterance):
                         the tool's torch STFT holds its filters and window in float32 (defaults of
                         from_stft_frame_computer), so "to float32 precision" can only hold relative to the
                         column scale once Deltas/Standardize cancel (measured entry-wise slack is in the notes)
  C09.<tool>.zero_frame  an utterance too short for a frame is present under its id with zero rows
  C09.torch.dtype        stored tensor is float32
  C09.<tool>.syntax      inline JSON / JSON file / YAML file give bit-identical output
  C09.<tool>.seed        two runs with the same --seed give bit-identical output (incl. the boundary value --seed=0
                         with dither; the global generators are set differently before each run)

Sessions ("kind": "session" cases, first in the plan): the statement's clauses hold for EVERY call, so they are also
checked on sequences of 11 (thorough: 19) calls of both entry points inside one process and one directory, in which the
configuration files (comp/pre/post .json and .yaml), the wav scp / map, the signal files and the output table / feature
directory keep their paths and are rewritten with different content before each call; options present in one call are
absent in the next (no --preprocess / --postprocess, no computer argument), the identical inline text is passed twice,
and a path gets back a configuration it held earlier. Every call is checked with all clauses above ("the configured"
computer / processors = what the arguments denote when the call is made).

Input classes added for the statement's "for all configurations / sets of utterances": STFT frame lengths and shifts
that are odd in samples, in causal / centred / Kaldi-shift framing; --seed=0; manifest cases whose ids contain one
another (prefix, suffix, extension of the listed id) and manifest lines that merely contain a map id.

Frame-count boundaries ("variant": "edge" cases, first among the single cases): "for EVERY utterance ... the stored feature
matrix equals ... compute_full of the configured computer ..., then the configured post-processors in order" includes
utterances that yield exactly one or two frames. For eight computers the utterance set holds the longest signal without a
frame, the shortest and the longest with exactly one frame, the shortest and the longest with exactly two frames and an
ordinary one (lengths found by bisection on the oracle's computer), with post-processor lists that are defined on a single
frame: Deltas, Stack (discarding and padding), Standardize with a statistics file written by the harness, Standardize with
norm_var false. A Kaldi matrix without rows has no width, so when the post-processors leave no row (discarding Stack on one
frame) the Kaldi tool is required to store zero rows.

Causal framing with a frame longer than its shift is in the edge sets of BOTH tools: there the right padding of a short
utterance is longer than the utterance itself (found with these sets: the tool's torch STFT used to raise on such utterances,
e.g. 25 ms / 10 ms at 8 kHz and 120..139 samples; repaired in /repo 3fbc320).

Not enumerated (outside the property): torch tool x Standardize x zero-frame utterance -- pipeline
undefined: Standardize.apply rejects empty input.  For the Kaldi tool a zero-frame utterance is only
required to be present with zero rows (the tool deliberately skips post-processing there).
"""
import contextlib
import io
import json
import logging
import os
import shutil
import sys
import tempfile
import warnings
import wave

import numpy as np

from rtc import _common

PROPERTY = "C09"
RATE = 8000
RTOL, ATOL = 1e-5, 1e-6

ASSUMPTIONS = [
    "A-IO-CONTAINER (wave / np.save / torch.save / Kaldi table writer-reader pairs are lossless)",
    "A-TORCH (randn depends only on generator state, shape, dtype; manual_seed)",
    "A-JSON (ruamel safe-load of a JSON text equals json.loads of it)",
    "A-DET (constructors and NumPy kernels are deterministic)",
    "C14/C18 (torch STFT / wrappers agree with the NumPy originals) are exercised, not assumed",
]

# ---------------------------------------------------------------------------------------------
# configuration descriptors (json-able; stored in the case)
# ---------------------------------------------------------------------------------------------
COMPUTERS = {
    "stft_fbank": {
        "kind": "stft",
        "bank": {"kind": "fbank", "num_filts": 6, "sampling_rate": RATE},
        "kw": {"frame_length_ms": 25, "frame_shift_ms": 10, "use_power": True},
    },
    "stft_kaldi": {
        "kind": "stft",
        "bank": {"kind": "fbank", "num_filts": 5, "low_hz": 100.0, "high_hz": 3800.0, "sampling_rate": RATE},
        "kw": {
            "frame_length_ms": 20,
            "frame_shift_ms": 8,
            "frame_style": "centered",
            "include_energy": True,
            "kaldi_shift": True,
            "window_function": "hamming",
            "pad_to_nearest_power_of_two": False,
        },
    },
    "stft_causal_gabor": {
        "kind": "stft",
        "bank": {"kind": "gabor", "scale": "mel", "num_filts": 4, "sampling_rate": RATE},
        "kw": {"frame_shift_ms": 10, "frame_style": "causal", "use_log": False},
    },
    # odd frame lengths / odd frame shifts at 8 kHz (25.125 ms = 201, 34.375 ms = 275, 20.125 ms = 161 samples;
    # 9.625 ms = 77, 10.125 ms = 81 samples; all exact in binary floating point), in each of the three framing
    # modes: every // 2 and (. + 1) // 2 of the frame arithmetic takes its other branch here
    "stft_odd_centered": {
        "kind": "stft",
        "bank": {"kind": "fbank", "num_filts": 5, "sampling_rate": RATE},
        "kw": {"frame_length_ms": 25.125, "frame_shift_ms": 10, "frame_style": "centered", "kaldi_shift": False},
    },
    "stft_odd_centered_oddshift": {
        "kind": "stft",
        "bank": {"kind": "fbank", "num_filts": 4, "low_hz": 60.0, "sampling_rate": RATE},
        "kw": {
            "frame_length_ms": 34.375,
            "frame_shift_ms": 9.625,
            "frame_style": "centered",
            "kaldi_shift": False,
            "include_energy": True,
            "window_function": "hanning",
            "pad_to_nearest_power_of_two": False,
        },
    },
    "stft_odd_causal": {
        "kind": "stft",
        "bank": {"kind": "fbank", "num_filts": 5, "sampling_rate": RATE},
        "kw": {"frame_length_ms": 34.375, "frame_shift_ms": 9.625, "frame_style": "causal", "use_power": True},
    },
    "stft_odd_kaldi": {
        "kind": "stft",
        "bank": {"kind": "fbank", "num_filts": 5, "high_hz": 3900.0, "sampling_rate": RATE},
        "kw": {
            "frame_length_ms": 25.125,
            "frame_shift_ms": 10.125,
            "frame_style": "centered",
            "kaldi_shift": True,
            "include_energy": True,
        },
    },
    "stft_odd_kaldi_evenshift": {
        "kind": "stft",
        "bank": {"kind": "fbank", "num_filts": 4, "sampling_rate": RATE},
        "kw": {
            "frame_length_ms": 20.125,
            "frame_shift_ms": 10,
            "frame_style": "centered",
            "kaldi_shift": True,
            "window_function": "hamming",
            "pad_to_nearest_power_of_two": False,
        },
    },
    "stft_even_oddshift": {
        "kind": "stft",
        "bank": {"kind": "fbank", "num_filts": 5, "sampling_rate": RATE},
        "kw": {"frame_length_ms": 25, "frame_shift_ms": 9.625, "frame_style": "centered", "kaldi_shift": False},
    },
    "si_gabor": {
        "kind": "si",
        "bank": {"kind": "gabor", "scale": "mel", "num_filts": 4, "sampling_rate": RATE},
        "kw": {"frame_shift_ms": 10},
    },
    "si_tone": {
        "kind": "si",
        "bank": {"kind": "gammatone", "scale": "bark", "num_filts": 3, "sampling_rate": RATE},
        "kw": {"frame_shift_ms": 5, "use_power": True, "include_energy": True},
    },
}

PRES = {
    "none": [],
    "preemph": [{"kind": "preemph", "kw": {}}],
    "dither": [{"kind": "dither", "kw": {}}],
    "preemph_dither": [{"kind": "preemph", "kw": {"coeff": 0.9}}, {"kind": "dither", "kw": {"coeff": 2.0}}],
    "dither_preemph": [{"kind": "dither", "kw": {"coeff": 3.0}}, {"kind": "preemph", "kw": {"coeff": 0.97}}],
    "dither_dither": [{"kind": "dither", "kw": {"coeff": 0.5}}, {"kind": "dither", "kw": {"coeff": 1.5}}],
}

POSTS = {
    "none": [],
    "deltas": [{"kind": "deltas", "kw": {"num_deltas": 2}}],
    "stack": [{"kind": "stack", "kw": {"num_vectors": 2}}],
    "standardize": [{"kind": "standardize", "kw": {}}],
    "deltas_stack_standardize": [
        {"kind": "deltas", "kw": {"num_deltas": 1}},
        {"kind": "stack", "kw": {"num_vectors": 3}},
        {"kind": "standardize", "kw": {}},
    ],
    "stack_deltas": [
        {"kind": "stack", "kw": {"num_vectors": 2}},
        {"kind": "deltas", "kw": {"num_deltas": 1, "context_window": 1}},
    ],
    "standardize_deltas": [
        {"kind": "standardize", "kw": {"norm_var": False}},
        {"kind": "deltas", "kw": {"num_deltas": 2}},
    ],
    # post-processors that are DEFINED on a single frame (used by the "edge" utterance sets below): Stack that pads the
    # time axis instead of discarding, Standardize with global statistics from a file ("@STATS" is replaced by the path
    # of a statistics file the harness writes next to the signals), Standardize with norm_var false
    "stack_pad": [{"kind": "stack", "kw": {"num_vectors": 2, "pad_mode": "edge"}}],
    "stats_standardize": [{"kind": "standardize", "kw": {"rfilename": "@STATS"}}],
    "deltas_stats_stackpad": [
        {"kind": "deltas", "kw": {"num_deltas": 1}},
        {"kind": "standardize", "kw": {"rfilename": "@STATS"}},
        {"kind": "stack", "kw": {"num_vectors": 3, "pad_mode": "constant"}},
    ],
    "novar_stackpad": [
        {"kind": "standardize", "kw": {"norm_var": False}},
        {"kind": "stack", "kw": {"num_vectors": 2, "pad_mode": "edge"}},
    ],
}
STATS_COUNT = 37

ID_POOL = ["zed", "alpha-2", "utt_10", "A.b", "utt_9", "m", "Q7", "x-ray", "b2b", "utt_100"]

_CLI_NAME = {
    "preemph": "preemph",
    "dither": "dither",
    "deltas": "deltas",
    "stack": "stack",
    "standardize": "standardize",
}


def _has(items, kind):
    return any(p["kind"] == kind for p in items)


# ---------------------------------------------------------------------------------------------
# configuration texts handed to the tools
# ---------------------------------------------------------------------------------------------
def _computer_cfg(comp):
    bank = dict(comp["bank"])
    b = {"name": bank.pop("kind")}
    scale = bank.pop("scale", None)
    if scale is not None:
        b["scaling_function"] = scale
    b.update(bank)
    cfg = {"name": comp["kind"], "bank": b}
    cfg.update(comp["kw"])
    return cfg


def _proc_cfg(items, style):
    """style 'dicts': list of dicts; 'compact': bare alias when no parameters, a lone dict when the
    list has one element with parameters (both spellings are accepted by the tools)."""
    out = []
    for p in items:
        d = {"name": _CLI_NAME[p["kind"]]}
        d.update(p["kw"])
        if style == "compact" and not p["kw"]:
            out.append(d["name"])
        else:
            out.append(d)
    if style == "compact" and len(out) == 1 and isinstance(out[0], dict):
        return out[0]
    return out


def _yscalar(v):
    if v is True:
        return "true"
    if v is False:
        return "false"
    if v is None:
        return "null"
    if isinstance(v, str):
        return v if v.replace("_", "").isalnum() and not v[0].isdigit() else json.dumps(v)
    if isinstance(v, (list, dict)):  # only empty ones get here
        return "[]" if isinstance(v, list) else "{}"
    return repr(v)


def _yaml(obj, ind=0):
    """Block-style YAML emitter for trees of dict / list / scalar (own code, not ruamel)."""
    sp = "  " * ind
    if isinstance(obj, dict) and obj:
        out = ""
        for k, v in obj.items():
            if isinstance(v, (dict, list)) and v:
                out += f"{sp}{k}:\n" + _yaml(v, ind + 1)
            else:
                out += f"{sp}{k}: {_yscalar(v)}\n"
        return out
    if isinstance(obj, list) and obj:
        out = ""
        for v in obj:
            if isinstance(v, (dict, list)) and v:
                body = _yaml(v, ind + 1)
                out += sp + "- " + body[len(sp) + 2 :]
            else:
                out += f"{sp}- {_yscalar(v)}\n"
        return out
    return sp + _yscalar(obj) + "\n"


def _cfg_arg(obj, syntax, d, stem):
    if syntax == "inline":
        return json.dumps(obj)
    if syntax == "json":
        path = os.path.join(d, stem + ".json")
        with open(path, "w") as f:
            json.dump(obj, f, indent=2)
            f.write("\n")
        return path
    if syntax == "yaml":
        path = os.path.join(d, stem + ".yaml")
        with open(path, "w") as f:
            f.write(_yaml(obj))
        return path
    raise ValueError(syntax)


# ---------------------------------------------------------------------------------------------
# oracle objects: built directly from the classes
# ---------------------------------------------------------------------------------------------
def _mk_computer(comp):
    from pydrobert.speech import compute, filters, scales

    banks = {
        "fbank": filters.Fbank,
        "gabor": filters.GaborFilterBank,
        "gammatone": filters.ComplexGammatoneFilterBank,
        "tri": filters.TriangularOverlappingFilterBank,
    }
    scalings = {"mel": scales.MelScaling, "bark": scales.BarkScaling}
    windows = {"hamming": filters.HammingWindow, "hanning": filters.HannWindow, "blackman": filters.BlackmanWindow}
    b = dict(comp["bank"])
    cls = banks[b.pop("kind")]
    scale = b.pop("scale", None)
    bank = cls(scalings[scale](), **b) if scale is not None else cls(**b)
    kw = dict(comp["kw"])
    if "window_function" in kw:
        kw["window_function"] = windows[kw["window_function"]]()
    ccls = {"stft": compute.ShortTimeFourierTransformFrameComputer, "si": compute.ShortIntegrationFrameComputer}[
        comp["kind"]
    ]
    return ccls(bank, **kw)


def _mk_post(p):
    from pydrobert.speech import post

    return {"deltas": post.Deltas, "stack": post.Stack, "standardize": post.Standardize}[p["kind"]](**p["kw"])


def _posts_of(case, d):
    """The post-processor descriptors of the case with "@STATS" replaced by the statistics file inside directory d."""
    out = []
    for p in POSTS[case["post"]]:
        kw = {k: (os.path.join(d, "stats.npy") if v == "@STATS" else v) for k, v in p["kw"].items()}
        out.append({"kind": p["kind"], "kw": kw})
    return out


def _write_stats(case, d):
    """Writes the global statistics file of a Standardize(rfilename=...) of the case, if it has one: a (2, F + 1) float64
    array [[sums..., count], [sums of squares..., 0]] (the layout of Standardize / Kaldi CMVN statistics) for F = the
    width of the features at that position of the post-processor list; |mean| <= 1 and 0.5 <= std <= 2, so that the
    standardized values keep the scale of the features (no cancellation; the comparison stays well conditioned)."""
    items = _posts_of(case, d)
    for j, p in enumerate(items):
        if p["kind"] == "standardize" and "rfilename" in p["kw"]:
            # (no computer: the torch tool stores the raw samples as ONE column)
            ncoef = 1 if case["computer"] is None else int(_mk_computer(COMPUTERS[case["computer"]]).num_coeffs)
            probe = _common.make_rng(case["data_seed"], "c09:statsprobe").standard_normal((12, ncoef))
            with warnings.catch_warnings():
                warnings.simplefilter("ignore")
                for q in items[:j]:
                    probe = _mk_post(q).apply(probe)
            width = probe.shape[1]
            rng = _common.make_rng(case["data_seed"], "c09:stats")
            mean, std = rng.uniform(-1.0, 1.0, width), rng.uniform(0.5, 2.0, width)
            stats = np.zeros((2, width + 1))
            stats[0, :-1], stats[0, -1] = STATS_COUNT * mean, STATS_COUNT
            stats[1, :-1] = STATS_COUNT * (std**2 + mean**2)
            np.save(p["kw"]["rfilename"], stats)
            return


def _pipeline(x, pre, computer, posts, noise, apply_post_on_empty):
    """The library pipeline of the property statement for ONE utterance. `noise(n)` returns n
    standard-normal float64 draws from the utterance's dither stream."""
    from pydrobert.speech.pre import Preemphasize

    y = np.array(x, dtype=np.float64)
    for p in pre:
        if p["kind"] == "preemph":
            y = Preemphasize(**p["kw"]).apply(y)
        else:
            y = y + float(p["kw"].get("coeff", 1.0)) * noise(len(y))
    feats = y[:, None] if computer is None else computer.compute_full(y)
    frames = len(feats)
    if frames or apply_post_on_empty:
        for q in posts:
            feats = q.apply(feats)
    return np.asarray(feats).astype(np.float32), frames


# ---------------------------------------------------------------------------------------------
# inputs
# ---------------------------------------------------------------------------------------------
def _samples(case, i):
    """Raw samples of utterance i: (ch or 1, n) array in the stored dtype (deterministic)."""
    u = case["utts"][i]
    rng = _common.make_rng(case["data_seed"], f"c09:{u['id']}:{i}")
    ch = max(1, u["ch"])
    if u["fmt"] in ("wav", "npy16"):
        return rng.integers(-(2**15), 2**15, (ch, u["n"])).astype(np.int16)
    x = rng.standard_normal((ch, u["n"])) * 3000.0
    return x.astype(np.float32) if u["fmt"] in ("npy32", "pt") else x


def _write_wav(path, sig, rate):
    w = wave.open(path, "wb")
    try:
        w.setnchannels(sig.shape[0])
        w.setsampwidth(2)
        w.setframerate(rate)
        w.writeframes(np.ascontiguousarray(sig.T).tobytes())
    finally:
        w.close()


def _write_inputs(case, d):
    """Writes the signal files and the table (wav scp / map). Returns its path."""
    import torch

    raw = os.path.join(d, "raw")
    os.makedirs(raw, exist_ok=True)  # a session (see _check_session) rewrites the same paths call after call
    lines = []
    npz_entries, h5_entries = {}, {}
    for i, u in enumerate(case["utts"]):
        sig = _samples(case, i)
        stem = os.path.join(raw, f"s{i}")
        if u["fmt"] in ("npz", "h5"):
            # keyed archives: ONE file holds several utterances, each under its own id (the tool passes key=<utterance id>),
            # so consecutive map entries name the same path and differ only in the key
            arr = sig if u["ch"] >= 1 else sig[0]
            (npz_entries if u["fmt"] == "npz" else h5_entries)[u["id"]] = arr
            lines.append(f"{u['id']} {os.path.join(raw, 'archive.npz' if u['fmt'] == 'npz' else 'archive.hdf5')}\n")
            continue
        if u["fmt"] == "wav":
            path = stem + ".wav"
            _write_wav(path, sig, u["rate"])
        else:
            arr = sig if u["ch"] >= 1 else sig[0]  # ch == 0: one-dimensional mono
            if u["fmt"] == "pt":
                path = stem + ".pt"
                torch.save(torch.from_numpy(np.ascontiguousarray(arr)), path)
            else:
                path = stem + ".npy"
                np.save(path, arr)
        lines.append(f"{u['id']} {path}\n")
    if npz_entries:
        np.savez(os.path.join(raw, "archive.npz"), **npz_entries)
    if h5_entries:
        import h5py
        with h5py.File(os.path.join(raw, "archive.hdf5"), "w") as h5:
            for k_, v_ in h5_entries.items():
                h5.create_dataset(k_, data=v_)
    table = os.path.join(d, "wav.scp" if case["tool"] == "kaldi" else "map")
    with open(table, "w") as f:
        f.writelines(lines)
    _write_stats(case, d)
    return table


def _excluded(case, i):
    u = case["utts"][i]
    if case["tool"] == "kaldi":
        if u["n"] / float(u["rate"]) < case.get("min_duration", 0.0):
            return "min_duration"
        if u["rate"] != RATE:
            return "rate"
        if case["channel"] >= u["ch"]:
            return "channel"
        return None
    if case.get("manifest_skip") is not None and i in case["manifest_skip"]:
        return "manifest"
    return None


def _expected(case, d):
    """[(id, float32 matrix, frames given by compute_full)] for the non-excluded utterances, in table order."""
    import torch

    comp = None if case["computer"] is None else _mk_computer(COMPUTERS[case["computer"]])
    pre, posts = PRES[case["pre"]], [_mk_post(p) for p in _posts_of(case, d)]
    seed = case["seed"]
    rs = np.random.RandomState(seed) if (case["tool"] == "kaldi" and seed is not None) else None
    out = []
    for i, u in enumerate(case["utts"]):
        if _excluded(case, i):
            continue
        sig = _samples(case, i)
        chan = case["channel"] if case["channel"] >= 0 else 0
        x = sig[chan].astype(np.float64)
        if case["tool"] == "kaldi":
            noise = lambda n: rs.normal(0.0, 1.0, n)  # noqa: E731
        else:
            gen = torch.Generator()
            gen.manual_seed((seed or 0) + i)
            noise = lambda n, gen=gen: torch.randn(n, generator=gen, dtype=torch.float64).numpy()  # noqa: E731
        with warnings.catch_warnings():
            warnings.simplefilter("ignore")
            y, frames = _pipeline(x, pre, comp, posts, noise, apply_post_on_empty=(case["tool"] == "torch"))
        out.append((u["id"], y, frames))
    return out


# ---------------------------------------------------------------------------------------------
# running the real tools
# ---------------------------------------------------------------------------------------------
@contextlib.contextmanager
def _quiet():
    """Silences the tools locally: Python-level stderr/stdout, fd 2 (Kaldi's C++ logger), warnings,
    and removes the StreamHandler that every call of the Kaldi tool adds to its logger."""
    logger = logging.getLogger(sys.argv[0])
    before = list(logger.handlers)
    old_err, old_out = sys.stderr, sys.stdout
    sys.stderr, sys.stdout = io.StringIO(), io.StringIO()
    saved_fd = os.dup(2)
    devnull = os.open(os.devnull, os.O_WRONLY)
    os.dup2(devnull, 2)
    try:
        with warnings.catch_warnings():
            warnings.simplefilter("ignore")
            yield
    finally:
        os.dup2(saved_fd, 2)
        os.close(saved_fd)
        os.close(devnull)
        sys.stderr, sys.stdout = old_err, old_out
        for h in list(logger.handlers):
            if h not in before:
                logger.removeHandler(h)


def _run_tool(case, d, table, syntax, tag, perturb, fixed_paths=False):
    """One run of the real entry point. Returns (rc_or_exception_text, [(id, ndarray, dtype_str)]).
    fixed_paths (sessions): the configuration files, the output table / directory and the manifest keep ONE path
    for all runs made in `d`, i.e. every run rewrites the files of the run before it."""
    import torch
    from pydrobert.speech import command_line

    style = case.get("style", "dicts")
    ctag = "" if fixed_paths else "_" + tag
    tag = "s" if fixed_paths else tag
    opts = []
    if PRES[case["pre"]]:
        opts.append("--preprocess=" + _cfg_arg(_proc_cfg(PRES[case["pre"]], style), syntax, d, "pre" + ctag))
    if POSTS[case["post"]]:
        opts += ["--postprocess", _cfg_arg(_proc_cfg(_posts_of(case, d), style), syntax, d, "post" + ctag)]
    if case["seed"] is not None:
        opts.append(f"--seed={case['seed']}")
    if case["channel"] != -1:
        opts += ["--channel", str(case["channel"])]
    # the global generators must not matter when --seed is given
    np.random.seed(perturb)
    torch.manual_seed(perturb)
    stored = []
    if case["tool"] == "kaldi":
        import pydrobert.kaldi.io as kio

        ark = os.path.join(d, f"feats_{tag}.ark")
        if case.get("min_duration"):
            opts.append(f"--min-duration={case['min_duration']}")
        args = ["scp:" + table, "ark:" + ark, _cfg_arg(_computer_cfg(COMPUTERS[case["computer"]]), syntax, d, "comp" + ctag)]
        try:
            with _quiet():
                rc = command_line.compute_feats_from_kaldi_tables(args + opts)
        except BaseException as e:  # noqa: B902 - the clause is "no exception"
            if isinstance(e, KeyboardInterrupt):
                raise
            return f"{type(e).__name__}: {e}", stored
        try:
            with _quiet():
                with kio.open("ark:" + ark, "bm") as reader:
                    for k, v in reader.items():
                        stored.append((k, np.array(v), str(v.dtype)))
        except Exception as e:
            return f"reading the written table failed: {type(e).__name__}: {e}", stored
        return rc, stored
    out = os.path.join(d, f"out_{tag}")
    args = [table]
    if case["computer"] is not None:
        args.append(_cfg_arg(_computer_cfg(COMPUTERS[case["computer"]]), syntax, d, "comp" + ctag))
    args.append(out)
    prefix, suffix = case.get("prefix", ""), case.get("suffix", ".pt")
    if prefix:
        opts += ["--file-prefix", prefix]
    if suffix != ".pt":
        opts += ["--file-suffix", suffix]
    if case.get("manifest_skip") is not None:
        man = os.path.join(d, f"manifest_{tag}.txt")
        with open(man, "w") as f:
            for i in case["manifest_skip"]:
                f.write(case["utts"][i]["id"] + "\n")
            # lines that are no utterance of the map exclude nothing (also when a map id is a substring of one)
            for line in case.get("manifest_extra", ["not-in-the-map"]):
                f.write(line + "\n")
        opts.append("--manifest=" + man)
    try:
        with _quiet():
            rc = command_line.signals_to_torch_feat_dir(args + opts)
    except BaseException as e:  # noqa: B902
        if isinstance(e, KeyboardInterrupt):
            raise
        return f"{type(e).__name__}: {e}", stored
    for name in sorted(os.listdir(out)) if os.path.isdir(out) else []:
        key = name
        if name.startswith(prefix) and name.endswith(suffix) and len(name) >= len(prefix) + len(suffix):
            key = name[len(prefix) : len(name) - len(suffix)]
        else:
            key = "<file " + name + ">"
        try:
            t = torch.load(os.path.join(out, name))
            stored.append((key, t.numpy(), str(t.dtype).replace("torch.", "")))
        except Exception as e:
            stored.append((key, None, f"unloadable: {e}"))
    return rc, stored


def _same(a, b):
    """Bit-identical stored outputs (ids, order-insensitive; shapes; values)."""
    da, db = {k: v for k, v, _ in a}, {k: v for k, v, _ in b}
    if sorted(k for k, _, _ in a) != sorted(k for k, _, _ in b):
        return False, f"ids differ: {sorted(da)} vs {sorted(db)}"
    for k in da:
        if da[k] is None or db[k] is None or da[k].shape != db[k].shape or not np.array_equal(da[k], db[k]):
            return False, f"utterance {k!r} differs"
    return True, ""


def _new_info():
    return {"compared": 0, "zero": 0, "slack": 0.0, "slack_entry": 0.0, "skipped": 0, "one": 0, "two": 0}


def _check(case):
    """Runs the case (1-3 runs of the real tool, or a session of such cases). Returns (failures, info)."""
    if case.get("kind") == "session":
        fails, infos = _check_session(case)
        info = _new_info()
        for i in infos:
            for k in ("compared", "zero", "skipped", "one", "two"):
                info[k] += i[k]
            for k in ("slack", "slack_entry"):
                info[k] = max(info[k], i[k])
        return [(c, m) for c, m, _ in fails], info
    d = tempfile.mkdtemp(prefix="c09_")
    try:
        return _check_in(case, d, fixed_paths=False)
    finally:
        shutil.rmtree(d, ignore_errors=True)


def _check_in(case, d, fixed_paths):
    """One case in directory d. Returns (failures, info)."""
    tool = case["tool"]
    fails, info = [], _new_info()
    if True:
        table = _write_inputs(case, d)
        exp = _expected(case, d)
        info["skipped"] = len(case["utts"]) - len(exp)
        rc, got = _run_tool(case, d, table, case["syntax"], "a", perturb=11, fixed_paths=fixed_paths)
        if rc != 0:
            fails.append((f"C09.{tool}.exit", f"entry point gave {rc!r} with {len(exp)} utterance(s) to store"))
        want_ids = sorted(k for k, _, _ in exp)
        got_ids = sorted(k for k, _, _ in got)
        if want_ids != got_ids:
            fails.append((f"C09.{tool}.ids", f"stored ids {got_ids} != non-excluded ids {want_ids}"))
        gd = {k: (v, dt) for k, v, dt in got}
        n_of = {u["id"]: u["n"] for u in case["utts"]}
        for k, y, frames in exp:
            zero = frames == 0
            if k not in gd:
                continue
            v, dt = gd[k]
            if v is None:
                fails.append((f"C09.{tool}.value", f"{k!r}: stored file {dt}"))
                continue
            if tool == "torch" and dt != "float32":
                fails.append(("C09.torch.dtype", f"{k!r}: stored dtype {dt}, expected float32"))
            if zero:
                info["zero"] += 1
                if v.ndim != 2 or v.shape[0] != 0:
                    fails.append((f"C09.{tool}.zero_frame", f"{k!r}: stored shape {v.shape}, expected zero rows"))
                elif tool == "torch" and v.shape != y.shape:
                    fails.append((f"C09.{tool}.value", f"{k!r}: stored shape {v.shape}, pipeline gives {y.shape}"))
                continue
            if tool == "kaldi" and y.shape[0] == 0:
                # frames, but the configured post-processors leave no row (Stack without padding on fewer frames than
                # num_vectors): a Kaldi matrix without rows has no width either, so "equals" is "no rows" (A-IO-CONTAINER)
                info["one"] += frames == 1
                info["two"] += frames == 2
                if v.ndim != 2 or v.shape[0] != 0:
                    fails.append(
                        (
                            f"C09.{tool}.value",
                            f"{k!r} ({n_of[k]} samples, compute_full gives {frames} frame(s)): stored shape {v.shape}, but "
                            f"compute_full followed by the configured post-processors {case['post']!r} leaves no row {y.shape}",
                        )
                    )
                continue
            if v.shape != y.shape:
                fails.append(
                    (
                        f"C09.{tool}.value",
                        f"{k!r} ({n_of[k]} samples, compute_full gives {frames} frame(s)): stored shape {v.shape}, but "
                        f"compute_full followed by the configured post-processors {case['post']!r} gives {y.shape}",
                    )
                )
                continue
            if y.shape[0]:
                info["compared"] += 1
            # utterances at the frame-count boundary that were compared with the pipeline (also when the post-processors
            # leave no row of the one frame, e.g. Stack without padding: the stored matrix must then have no row either)
            info["one"] += frames == 1
            info["two"] += frames == 2
            v64, y64 = v.astype(np.float64), y.astype(np.float64)
            err = np.where(np.isfinite(v64 - y64), np.abs(v64 - y64), np.inf)  # NaN/inf count as off
            err = np.where((v64 == y64), 0.0, err)  # equal infinities are equal
            tol_entry = ATOL + RTOL * np.abs(y64)
            if tool == "kaldi" or not y.size:
                tol = tol_entry
            else:
                # torch tool: relative to the largest magnitude in the same feature column (see module doc)
                tol = ATOL + RTOL * np.maximum(np.abs(y64), np.max(np.abs(y64), axis=0, keepdims=True))
            bad = ~(err <= tol)
            if y.size:
                info["slack"] = max(info["slack"], float(np.max(err / tol)))
                info["slack_entry"] = max(info["slack_entry"], float(np.max(err / tol_entry)))
            if bad.any():
                j = np.unravel_index(int(np.argmax(np.where(bad, err, -1.0))), y.shape)
                fails.append(
                    (
                        f"C09.{tool}.value",
                        f"{k!r} ({n_of[k]} samples, {frames} frame(s)): {int(bad.sum())}/{y.size} entries off; at "
                        f"{tuple(int(t) for t in j)} stored {v[j]!r} pipeline {y[j]!r}",
                    )
                )
        if case["syntax"] != "inline" and (case["seed"] is not None or not _has(PRES[case["pre"]], "dither")):
            rc2, got2 = _run_tool(case, d, table, "inline", "b", perturb=12, fixed_paths=fixed_paths)
            ok, msg = _same(got, got2)
            if not ok or rc2 != rc:
                fails.append((f"C09.{tool}.syntax", f"{case['syntax']} vs inline JSON: {msg or (rc, rc2)}"))
        if case.get("repeat") and case["seed"] is not None:
            rc3, got3 = _run_tool(case, d, table, case["syntax"], "c", perturb=13, fixed_paths=fixed_paths)
            ok, msg = _same(got, got3)
            if not ok or rc3 != rc:
                fails.append((f"C09.{tool}.seed", f"second run with --seed={case['seed']}: {msg or (rc, rc3)}"))
    return fails, info


# ---------------------------------------------------------------------------------------------
# sessions: several calls of the entry points in ONE process, on the SAME paths
# ---------------------------------------------------------------------------------------------
# Statement: "For EVERY utterance given to compute-feats-from-kaldi-tables or signals-to-torch-feat-dir ... the stored
# feature matrix equals ... the configured pre-processors in order, compute_full of the configured computer ..., then the
# configured post-processors" and "The same configuration passed as inline JSON, as a JSON file or as a YAML file yields
# the same features"; quantifier "for all ... configurations, config syntaxes ...". "The configured" computer / processors
# of a call are what its arguments denote WHEN THE CALL IS MADE: a file argument denotes the file's content at that
# moment, an absent option denotes "none" -- whatever this process was asked to do earlier. A session therefore makes a
# sequence of calls (both tools, all three syntaxes) inside one process and one directory in which every path (the
# configuration files comp/pre/post.json|yaml, the wav scp / map, the signal files, the output table / feature directory)
# is REWRITTEN between the calls with different content, and checks every call with the same clauses as a single case
# (value against the written-out pipeline, ids, syntax == inline, same seed twice).
SESSION_POOL = [
    ("stft_fbank", "preemph_dither", "deltas"),
    ("stft_kaldi", "dither_preemph", "stack_deltas"),
    ("si_gabor", "dither", "stack"),
    ("stft_causal_gabor", "preemph", "deltas_stack_standardize"),
    ("si_tone", "dither_dither", "standardize_deltas"),
    ("stft_odd_kaldi", "preemph_dither", "standardize"),
]
SESSION_BARE = [("stft_odd_centered", "none", "none"), ("stft_even_oddshift", "none", "none")]
_STEP_KEYS = ("tool", "computer", "pre", "post", "syntax", "style", "seed", "data_seed", "repeat")


def _expand_step(session, step):
    """The full single case of one call of a session (all calls of a tool use the same utterance ids, so that the files
    of the feature directory / the keys of the table are the same ones call after call)."""
    tool = step["tool"]
    case = {k: step[k] for k in _STEP_KEYS}
    case.update({"variant": "plain", "channel": -1})
    case["utts"] = [
        {"id": session["ids"][tool][j], "n": int(n), "fmt": fmt, "ch": 1 if tool == "kaldi" else 0, "rate": RATE}
        for j, (n, fmt) in enumerate(zip(step["n"], step["fmt"]))
    ]
    return case


def _step_text(session, k):
    st = session["steps"][k]
    txt = (
        f"call {k + 1} of a sequence of calls in one process that rewrites the same paths (configuration files, map / scp, "
        f"signal files, output) before each call: {st['tool']} tool, configuration as {st['syntax']}"
    )
    if st["syntax"] != "inline":
        prev = [j for j in range(k) if session["steps"][j]["syntax"] == st["syntax"]]
        if prev:
            txt += f" (these files held another configuration for call {prev[-1] + 1})"
    return txt


def _check_session(session):
    """Returns ([(clause, message, step index)], [info per executed step])."""
    fails, infos = [], []
    d = tempfile.mkdtemp(prefix="c09s_")
    try:
        for k, step in enumerate(session["steps"]):
            sc = _expand_step(session, step)
            try:
                f, info = _check_in(sc, d, fixed_paths=True)
            except KeyboardInterrupt:
                raise
            except Exception as e:  # harness or library error outside the entry point
                f, info = [(f"C09.{sc['tool']}.exit", f"harness could not finish the call: {type(e).__name__}: {e}")], _new_info()
            infos.append(info)
            for clause, msg in f:
                fails.append((clause, f"{_step_text(session, k)}: {msg}", k))
    finally:
        shutil.rmtree(d, ignore_errors=True)
    return fails, infos


def _make_session(rng, first_tool, n_random=0):
    """Template of calls (t0/t1 = the two tools, A-E = five different configurations, N = one without pre- and
    post-processors), then n_random random calls."""
    t0, t1 = (first_tool, "kaldi" if first_tool == "torch" else "torch")
    pool = [SESSION_POOL[i] for i in rng.permutation(len(SESSION_POOL))]
    A, B, C, D, E = pool[:5]
    N = SESSION_BARE[int(rng.integers(0, len(SESSION_BARE)))]
    template = [
        (t0, A, "json", False),
        (t0, B, "json", False),  # same three paths, new content
        (t1, C, "json", False),  # the other tool, same paths again
        (t1, A, "yaml", False),
        (t0, D, "yaml", False),  # same yaml paths, new content, other tool
        (t0, N, "json", False),  # no --preprocess / --postprocess after calls that had them
        (t1, B, "inline", True),  # inline after files; the identical inline text twice (repeat)
        (t1, E, "json", False),
        (t0, A, "json", False),  # a configuration the path has held before (A ... A)
        ("torch", (None, "dither", "none"), "json", False),  # no computer argument after calls that had one
        ("torch", D, "yaml", False),
    ]
    for _ in range(n_random):
        cfg = (SESSION_POOL + SESSION_BARE)[int(rng.integers(0, len(SESSION_POOL) + 2))]
        template.append((str(rng.choice(["kaldi", "torch"])), cfg, str(rng.choice(["json", "yaml", "inline"])), bool(rng.integers(0, 2))))
    ids = [ID_POOL[i] for i in rng.permutation(len(ID_POOL))]
    session = {"kind": "session", "ids": {"kaldi": ids[:3], "torch": ids[3:7]}, "steps": []}
    for j, (tool, (comp, pre, post), syntax, repeat) in enumerate(template):
        c = _make_case(rng, tool, comp, pre, post, syntax, "plain", repeat=repeat, style=("compact" if j % 2 else "dicts"))
        step = {k: c[k] for k in _STEP_KEYS}
        step["n"] = [u["n"] for u in c["utts"]]
        step["fmt"] = [u["fmt"] for u in c["utts"]]
        session["steps"].append(step)
    return session


# ---------------------------------------------------------------------------------------------
# enumeration
# ---------------------------------------------------------------------------------------------
def _utt_set(rng, tool, variant):
    """Utterance specs for one case. <= 0.3 s at 8 kHz."""
    ids = [ID_POOL[i] for i in rng.permutation(len(ID_POOL))]
    n_long = lambda: int(rng.integers(700, 2401))  # noqa: E731
    utts = []
    if tool == "kaldi":
        base = [
            {"n": n_long(), "ch": 1, "rate": RATE},
            {"n": int(rng.integers(1, 40)), "ch": 1, "rate": RATE},  # too short for a frame
            {"n": n_long(), "ch": 1, "rate": RATE},
        ]
        if variant == "channel":
            base = [
                {"n": n_long(), "ch": 2, "rate": RATE},
                {"n": n_long(), "ch": 1, "rate": RATE},  # channel >= channels: skipped
                {"n": n_long(), "ch": 3, "rate": RATE},
                {"n": int(rng.integers(1, 40)), "ch": 2, "rate": RATE},
            ]
        elif variant == "rate":
            base.insert(1, {"n": n_long(), "ch": 1, "rate": int(rng.choice([16000, 4000, 8001]))})
        elif variant == "mindur":
            base.insert(0, {"n": int(rng.integers(330, 390)), "ch": 1, "rate": RATE})  # 41-49 ms < 50 ms
            base.append({"n": int(rng.integers(410, 500)), "ch": 1, "rate": RATE})  # just above
        elif variant == "mixed":
            base = [
                {"n": n_long(), "ch": 1, "rate": 16000},
                {"n": n_long(), "ch": 2, "rate": RATE},
                {"n": int(rng.integers(330, 390)), "ch": 2, "rate": RATE},
                {"n": n_long(), "ch": 1, "rate": RATE},
                {"n": n_long(), "ch": 3, "rate": RATE},
            ]
        for u in base:
            u["fmt"] = "wav"
            utts.append(u)
    else:
        if variant == "channel":
            fmts = ["npy64", "npy32", "pt", "npy16"]
            base = [
                {"n": n_long(), "ch": 2},
                {"n": n_long(), "ch": 3},
                {"n": int(rng.integers(1, 40)), "ch": 2},
                {"n": n_long(), "ch": 2},
            ]
        else:
            fmts = ["wav", "npy64", "pt", "npy32", "npy16"]
            base = [
                {"n": n_long(), "ch": 0},
                {"n": int(rng.integers(1, 40)), "ch": 0},
                {"n": n_long(), "ch": 0},
                {"n": n_long(), "ch": 0},
            ]
        order = rng.permutation(len(fmts))
        if variant == "archive":
            # several utterances per keyed archive, listed one after the other, plus a plain file in between
            base = [{"n": n_long(), "ch": 0}, {"n": n_long(), "ch": 0}, {"n": n_long(), "ch": 0}, {"n": n_long(), "ch": 0},
                    {"n": n_long(), "ch": 0}, {"n": int(rng.integers(1, 40)), "ch": 0}, {"n": n_long(), "ch": 0}]
            fmts = ["npz", "npz", "npz", "npy64", "h5", "h5", "h5"]
            order = list(range(len(fmts)))
        for j, u in enumerate(base):
            u["fmt"] = fmts[order[j % len(fmts)]]
            u["rate"] = RATE
            utts.append(u)
    for j, u in enumerate(utts):
        u["id"] = ids[j]
    return utts


_EDGE = {}


def _edge_lengths(computer):
    """[n1, n2, n3]: the smallest signal lengths for which compute_full of the configured computer gives >= 1, >= 2,
    >= 3 frames (bisection on the oracle's computer; the frame count is non-decreasing in the length). Used only to
    PLACE utterances at the frame-count boundaries; what is compared is measured (see the notes of run)."""
    if computer not in _EDGE:
        comp = _mk_computer(COMPUTERS[computer])

        def frames(n):
            with warnings.catch_warnings():
                warnings.simplefilter("ignore")
                return len(comp.compute_full(np.ones(n)))

        out = []
        for want in (1, 2, 3):
            lo, hi = 0, 4096  # frames(lo) < want <= frames(hi)
            while hi - lo > 1:
                mid = (lo + hi) // 2
                lo, hi = (lo, mid) if frames(mid) >= want else (mid, hi)
            out.append(hi)
        _EDGE[computer] = out
    return list(_EDGE[computer])


def _edge_utts(rng, tool, computer, post):
    """Statement: "For EVERY utterance given to [either tool] ... the stored feature matrix equals ... compute_full of the
    configured computer ..., then the configured post-processors in order"; quantifier: "sets of utterances (including
    ones too short to yield a frame)". The utterances here sit on the frame-count boundaries of the configured frame
    length / shift / style: the longest signal without a frame, the shortest and the longest with exactly ONE frame, the
    shortest and the longest with exactly TWO frames, and one ordinary one, in random table order. The post-processor
    lists used with them are defined on one frame (Deltas, Stack with and without padding, Standardize with a statistics
    file or with norm_var false)."""
    n1, n2, n3 = _edge_lengths(computer)
    ns = [n1 - 1, n1, n2 - 1, n2, n3 - 1, int(rng.integers(700, 2401))]
    ns = [n for j, n in enumerate(ns) if n >= 1 and n not in ns[:j]]
    if tool == "torch" and _has(POSTS[post], "standardize"):
        # torch tool x Standardize x zero-frame utterance: pipeline undefined (Standardize.apply rejects empty input)
        ns = [n for n in ns if n >= n1]
    ns = [ns[i] for i in rng.permutation(len(ns))]
    ids = [ID_POOL[i] for i in rng.permutation(len(ID_POOL))]
    fmts = ["wav", "npy64", "pt", "npy32", "npy16"]
    order = rng.permutation(len(fmts))
    return [
        {
            "n": int(n),
            "ch": 1 if tool == "kaldi" else 0,
            "rate": RATE,
            "fmt": "wav" if tool == "kaldi" else fmts[order[j % len(fmts)]],
            "id": ids[j],
        }
        for j, n in enumerate(ns)
    ]


def _make_case(rng, tool, computer, pre, post, syntax, variant, repeat=False, style="dicts", seed=None):
    utts = _edge_utts(rng, tool, computer, post) if variant == "edge" else _utt_set(rng, tool, variant)
    case = {
        "tool": tool,
        "computer": computer,
        "pre": pre,
        "post": post,
        "syntax": syntax,
        "style": style,
        "variant": variant,
        "utts": utts,
        "channel": -1,
        "seed": int(rng.integers(0, 2**20)),
        "data_seed": int(rng.integers(0, 2**31)),
        "repeat": bool(repeat),
    }
    if seed is not None:
        case["seed"] = int(seed)  # boundary value handed in by the plan (--seed=0 is a fixed seed like any other)
    if tool == "kaldi":
        if variant == "channel":
            case["channel"] = 1
        elif variant == "mixed":
            case["channel"] = 1
            case["min_duration"] = 0.05
        elif variant == "mindur":
            case["min_duration"] = 0.05
    else:
        if variant == "channel":
            case["channel"] = int(rng.integers(0, 2))
        elif variant == "manifest":
            # "excluded by the manifest" = the id is a LINE of the manifest. The ids are made to contain one another
            # (not fixed-width): the listed id has a proper prefix, a proper suffix and an extension of itself among
            # the not-listed ids, and the manifest also has lines that are no utterance of the map but contain one
            k = int(rng.integers(0, len(utts) - 1))
            case["manifest_skip"] = [k]
            stem = utts[k]["id"]
            listed = stem + "0"
            others = [stem, listed + "0", listed[1:]] + [f"{listed}-{j}" for j in range(len(utts))]
            order = [int(j) for j in rng.permutation(3)]
            others = [others[j] for j in order] + others[3:]
            for j, u in enumerate(x for x in utts if x is not utts[k]):
                u["id"] = others[j]
            utts[k]["id"] = listed
            case["manifest_extra"] = ["not-in-the-map", "x" + stem + "y", listed + listed]
        elif variant == "affix":
            case["prefix"], case["suffix"] = "f_", ".feat.pt"
        if variant != "edge" and (computer is None or _has(POSTS[post], "standardize")):
            # no computer: nothing is "too short for a frame" (S samples -> S rows, and Standardize needs >= 1
            # row); with Standardize a zero-frame utterance leaves the pipeline undefined -> not enumerated
            for u in utts:
                if u["n"] < 700:
                    # (no computer + Stack(3) + Standardize on a 2-sample signal is a zero-row Standardize as well)
                    long = computer is not None or _has(POSTS[post], "standardize")
                    u["n"] = int(rng.integers(700, 2401)) if long else max(u["n"], 2)
    if variant == "gap" and computer is not None and not (tool == "torch" and _has(POSTS[post], "standardize")):
        # frame shift larger than the frame: L//2+1 <= n < shift - shift//2 samples are enough for the "too
        # short" test of the computers to pass and still give (n + shift//2)//shift = 0 frames
        comp = _mk_computer(COMPUTERS[computer])
        lo, hi = comp.frame_length // 2 + 1, comp.frame_shift - comp.frame_shift // 2 - 1
        if lo <= hi:
            utts[1]["n"] = int(rng.integers(lo, hi + 1))
            case["gap_n"] = utts[1]["n"]
    if variant != "edge" and computer is not None and _has(POSTS[post], "standardize"):
        # >= 18 frames, i.e. >= 6 rows after Stack(3): Standardize.apply raises on a single row (pipeline
        # undefined), and a 2-3 row Standardize can have a column whose standard deviation is tiny by chance,
        # which makes the comparison ill-conditioned (not a property of the tool). Utterances meant to be too
        # short for a frame (< 40 samples) or below --min-duration (< 400 samples) keep their length.
        for u in utts:
            if u["n"] >= 400:
                u["n"] = int(rng.integers(1500, 2401))
    return case


def _plan(tier, seed):
    """List of cases, most discriminating first."""
    rng = _common.make_rng(seed, "c09:plan:" + tier)
    cases = []
    syntaxes = ["inline", "json", "yaml"]
    # (computer, pre, post, variant) -- post-processors, order sensitivity, skip branches first
    kaldi_core = [
        ("stft_fbank", "preemph_dither", "deltas_stack_standardize", "rate"),
        ("stft_fbank", "none", "deltas", "plain"),
        ("stft_kaldi", "dither_preemph", "stack_deltas", "channel"),
        ("si_gabor", "dither", "standardize_deltas", "mindur"),
        ("si_tone", "preemph", "stack", "mixed"),
        ("stft_causal_gabor", "dither_dither", "standardize", "plain"),
        ("stft_fbank", "none", "none", "channel"),
        ("si_gabor", "preemph_dither", "none", "rate"),
        ("stft_kaldi", "preemph", "deltas", "mixed"),
        ("stft_causal_gabor", "preemph", "deltas", "gap"),
    ]
    torch_core = [
        ("stft_fbank", "preemph_dither", "deltas_stack_standardize", "plain"),
        (None, "dither", "none", "plain"),
        ("stft_kaldi", "dither_preemph", "stack_deltas", "channel"),
        ("si_gabor", "dither", "standardize_deltas", "manifest"),
        (None, "none", "none", "channel"),
        ("si_tone", "preemph", "stack", "affix"),
        ("stft_causal_gabor", "dither_dither", "deltas", "manifest"),
        (None, "preemph_dither", "deltas", "affix"),
        ("stft_fbank", "none", "none", "channel"),
        ("stft_fbank", "none", "standardize", "plain"),
    ]
    # keyed archives (.npz / .hdf5 holding several utterances, file type inferred from the suffix): early, for every seed
    torch_core[1:1] = [("stft_fbank", "none", "none", "archive"), (None, "preemph", "deltas", "archive")]
    # shift > frame length, utterance with enough samples for half a frame but no frame: early, for every seed
    torch_core.insert(2, ("stft_causal_gabor", "none", "stack", "gap"))
    # odd frame lengths / odd shifts in the three framing modes (the torch tool runs its own port of the STFT
    # framing, so this is where parity slips of the padding arithmetic show), early, for every seed
    torch_core[1:1] = [
        ("stft_odd_centered", "none", "none", "plain"),
        ("stft_odd_kaldi", "preemph", "deltas", "plain"),
        ("stft_odd_causal", "dither", "stack", "plain"),
    ]
    torch_core += [
        ("stft_odd_centered_oddshift", "preemph_dither", "none", "channel"),
        ("stft_odd_kaldi_evenshift", "none", "stack_deltas", "manifest"),
        ("stft_even_oddshift", "dither", "deltas", "plain"),
    ]
    kaldi_core += [
        ("stft_odd_centered", "preemph", "none", "plain"),
        ("stft_odd_kaldi", "dither", "deltas", "channel"),
        ("stft_odd_causal", "none", "stack", "mindur"),
        ("stft_odd_centered_oddshift", "dither_preemph", "none", "plain"),
    ]
    # boundary value --seed=0 (a fixed seed like any other) with a random pre-processor: value (the oracle's
    # dither stream is seeded with 0), same-seed-twice and syntax clauses, both tools, early, for every seed
    SEED0 = {"seed": 0, "repeat": True}
    kaldi_core[1:1] = [("stft_fbank", "dither", "none", "plain", SEED0)]
    torch_core[1:1] = [("stft_fbank", "dither", "none", "plain", SEED0)]
    # utterances with exactly 0 / 1 / 2 frames (see _edge_utts) x post-processors that are defined on one frame, both
    # tools, the three framing styles, even and odd frame lengths, STFT and short-integration computers: first
    edge = [
        ("stft_fbank", "none", "deltas", "edge"),
        ("stft_kaldi", "preemph", "stats_standardize", "edge"),
        ("stft_odd_causal", "dither", "stack_pad", "edge"),
        ("si_gabor", "none", "stack", "edge"),
        ("stft_odd_kaldi", "preemph_dither", "deltas_stats_stackpad", "edge"),
        ("stft_odd_centered", "none", "novar_stackpad", "edge"),
        ("si_tone", "dither", "standardize_deltas", "edge"),
        ("stft_causal_gabor", "preemph", "deltas", "edge"),
    ]
    kaldi_core[0:0] = edge
    torch_core[0:0] = edge
    kaldi_core += [("si_gabor", "preemph_dither", "deltas", "mixed", SEED0)]
    torch_core += [(None, "dither_dither", "none", "manifest", SEED0)]
    for tool, core in (("kaldi", kaldi_core), ("torch", torch_core)):
        for j, entry in enumerate(core):
            comp, pre, post, variant = entry[:4]
            opts = entry[4] if len(entry) > 4 else {}
            for s in syntaxes:
                cases.append(
                    _make_case(
                        rng,
                        tool,
                        comp,
                        pre,
                        post,
                        s,
                        variant,
                        repeat=(s == "inline" or bool(opts.get("repeat"))),
                        style=("compact" if j % 2 else "dicts"),
                        seed=opts.get("seed"),
                    )
                )
    # interleave the two tools so that a time-out never starves one of them
    k = [c for c in cases if c["tool"] == "kaldi"]
    t = [c for c in cases if c["tool"] == "torch"]
    cases = [c for pair in zip(k, t) for c in pair] + k[len(t) :] + t[len(k) :]
    # sessions (sequences of calls in one process on the same, rewritten paths) first: one starting with each tool
    srng = _common.make_rng(seed, "c09:sessions:" + tier)
    cases = [_make_session(srng, "torch"), _make_session(srng, "kaldi")] + cases
    if tier == "thorough":
        cases += [_make_session(srng, ("torch", "kaldi")[i % 2], n_random=8) for i in range(8)]
        kv = ["plain", "rate", "channel", "mindur", "mixed", "gap"]
        tv = ["plain", "channel", "manifest", "affix", "gap", "archive"]
        extra = []
        for comp in list(COMPUTERS) + [None]:
            for pre in PRES:
                for post in POSTS:
                    for tool in ("kaldi", "torch"):
                        if tool == "kaldi" and comp is None:
                            continue
                        variant = str(rng.choice(kv if tool == "kaldi" else tv))
                        extra.append(
                            _make_case(
                                rng,
                                tool,
                                comp,
                                pre,
                                post,
                                str(rng.choice(syntaxes)),
                                variant,
                                repeat=bool(rng.integers(0, 2)),
                                style=str(rng.choice(["dicts", "compact"])),
                                seed=(0 if int(rng.integers(0, 8)) == 0 else None),
                            )
                        )
        order = rng.permutation(len(extra))
        cases += [extra[i] for i in order]
    return cases


def run(tier: str, seed: int) -> dict:
    _common.use_repo()
    col = _common.Collector(PROPERTY, tier, seed, budget_s=(45 if tier == "quick" else 480))
    cases = _plan(tier, seed)
    slack = {"kaldi": 0.0, "torch": 0.0, "torch_entry": 0.0}
    n_zero = n_skip = n_done = 0
    geometry = {}  # computer name -> (frame length, frame shift) in samples, measured on the oracle's computer
    for name, comp in COMPUTERS.items():
        if comp["kind"] == "stft":
            c = _mk_computer(comp)
            geometry[name] = (int(c.frame_length), int(c.frame_shift))
    n_odd = {"kaldi": 0, "torch": 0}
    n_seed0 = {"kaldi": 0, "torch": 0}
    n_session_calls = n_rewritten = 0
    n_edge = {"kaldi": [0, 0], "torch": [0, 0]}  # utterances with exactly one / exactly two frames compared, per tool
    for case in cases:
        if col.out_of_time() or col.too_many_failures():
            col.note(f"stopped after {n_done}/{len(cases)} planned cases (time or failure limit)")
            break
        if case.get("kind") == "session":
            n_done += 1
            sfails, infos = _check_session(case)
            for k, info in enumerate(infos):
                st = case["steps"][k]
                key = {"session": [case["steps"][j]["data_seed"] for j in range(k)], "step": {q: st[q] for q in _STEP_KEYS}}
                col.case(key, nontrivial=info["compared"] >= 1, sample=(case if k == 0 else None))
                slack[st["tool"]] = max(slack[st["tool"]], info["slack"])
                if st["tool"] == "torch":
                    slack["torch_entry"] = max(slack["torch_entry"], info["slack_entry"])
                n_zero += info["zero"]
                n_skip += info["skipped"]
                n_edge[st["tool"]][0] += info["one"]
                n_edge[st["tool"]][1] += info["two"]
                n_session_calls += 1
                prev = [j for j in range(k) if case["steps"][j]["syntax"] == st["syntax"] != "inline"]
                n_rewritten += bool(prev) and info["compared"] >= 1
            for clause, msg, k in sfails:
                # the calls up to the failing one reproduce it
                col.fail(clause, dict(case, steps=case["steps"][: k + 1]), msg)
            continue
        try:
            fails, info = _check(case)
        except KeyboardInterrupt:
            raise
        except Exception as e:  # harness or library error outside the entry point
            fails, info = [(f"C09.{case['tool']}.exit", f"harness could not finish the case: {type(e).__name__}: {e}")], _new_info()
        n_done += 1
        key = {k: case[k] for k in ("tool", "computer", "pre", "post", "syntax", "variant", "style", "seed", "data_seed")}
        col.case(key, nontrivial=info["compared"] >= 1, sample=case)
        slack[case["tool"]] = max(slack[case["tool"]], info["slack"])
        if case["tool"] == "torch":
            slack["torch_entry"] = max(slack["torch_entry"], info["slack_entry"])
        n_zero += info["zero"]
        n_skip += info["skipped"]
        n_edge[case["tool"]][0] += info["one"]
        n_edge[case["tool"]][1] += info["two"]
        if info["compared"] and geometry.get(case["computer"], (0, 0))[0] % 2:
            n_odd[case["tool"]] += 1
        if info["compared"] and case["seed"] == 0 and _has(PRES[case["pre"]], "dither"):
            n_seed0[case["tool"]] += 1
        for clause, msg in fails:
            col.fail(clause, case, msg)
    col.note(
        f"worst |stored - pipeline| / tolerance (<= 1 passes): kaldi (entry-wise) {slack['kaldi']:.3g}, torch "
        f"(column-scale) {slack['torch']:.3g}; for information, torch measured entry-wise: {slack['torch_entry']:.3g} "
        f"(the tool's torch STFT keeps float32 filters/window, so cancelling post-processors lose entry-wise accuracy); "
        f"zero-frame utterances checked: {n_zero}; excluded utterances checked absent: {n_skip}"
    )
    col.note(
        f"STFT geometries (frame length, shift in samples): {geometry}; compared cases with an odd frame length: "
        f"{n_odd}; compared cases with --seed=0 and dither: {n_seed0}"
    )
    col.note(
        f"sessions (calls in one process on the same, rewritten paths): {n_session_calls} calls checked, {n_rewritten} of "
        f"them with configuration files whose paths held another configuration in an earlier call of the session"
    )
    col.note(
        f"frame-count boundaries: stored utterances for which compute_full gives exactly ONE frame compared with the "
        f"pipeline (post-processors applied to the one frame): kaldi {n_edge['kaldi'][0]}, torch {n_edge['torch'][0]}; exactly "
        f"TWO frames: kaldi {n_edge['kaldi'][1]}, torch {n_edge['torch'][1]}; boundary lengths [first n with 1, 2, 3 frames] "
        f"per computer: {dict(_EDGE)}"
    )
    col.note(
        "not enumerated: torch tool x Standardize x zero-frame utterance (pipeline undefined: Standardize.apply "
        "rejects empty input); Kaldi tool zero-frame utterances are required only to be present with zero rows"
    )
    return col.result(
        rule="one case = one (tool, computer, pre list, post list, config syntax+spelling, utterance set, options, seed), "
        "either on its own in a fresh directory or as one call of a session (sequence of calls in one process on the same, "
        "rewritten paths; each call counts as one case, keyed by the calls before it); "
        "the real entry point is run in-process 1-3 times (the syntax run, an inline-JSON run to compare with, a "
        "repeat with the same --seed); non-trivial iff >= 1 stored utterance with >= 1 frame was compared with the "
        "written-out pipeline",
        bound=(
            "computers {STFT fbank, STFT Kaldi-style with energy, STFT causal Gabor, STFT with odd frame length (201, 275, "
            "161 samples) and/or odd shift (77, 81 samples) in causal / centred / Kaldi-shift framing (6), SI Gabor, SI "
            "gammatone, none (torch)} x "
            "pre lists {none, preemph, dither, preemph+dither, dither+preemph, dither+dither} x post lists {none, deltas, "
            "stack, standardize, deltas+stack+standardize, stack+deltas, standardize+deltas} x {inline JSON, JSON file, "
            "YAML file} x utterance sets of 3-6 utterances <= 0.3 s at 8 kHz (incl. too short for a frame, rate "
            "mismatch, channel >= channels, below --min-duration, frame shift > frame length with an utterance in the gap, 2-3 channel signals with --channel, manifest-listed "
            "with ids that are prefixes / suffixes / extensions of the listed id and manifest lines that contain a map id, "
            "file prefix/suffix); containers wav/npy(f64,f32,i16)/pt"
            + "; frame-count boundaries ('edge' sets, first in the plan): for 8 computers (STFT centred / Kaldi-shift / causal, "
            "even and odd frame lengths, SI Gabor / gammatone) the longest utterance without a frame, the shortest and longest "
            "with exactly one frame, the shortest and longest with exactly two frames and an ordinary one, in random table order, "
            "x post lists that are defined on one frame {deltas, stack (discarding), stack with edge / constant padding, "
            "Standardize with a statistics file, deltas + Standardize(statistics file) + padded stack, Standardize(norm_var "
            "false) + padded stack, Standardize(norm_var false) + deltas} x both tools x 3 syntaxes"
            + "; call sequences in one process: 2 sessions of 11 calls (one starting with each tool; both tools, 3 syntaxes, 6-7 "
            "configurations out of 9, every file path rewritten between calls, options dropped between calls, same inline text "
            "twice)"
            + ("; quick: 51 hand-picked combinations (16 of them edge sets, 4 with --seed=0 and dither) x 3 syntaxes" if tier == "quick" else "; thorough: quick plan + full cross product once with random syntax/options + 8 sessions of 19 calls (8 of them random)")
            + "; excluded: torch tool x Standardize x zero-frame utterance (pipeline undefined: Standardize.apply rejects empty input)"
        ),
        assumptions=ASSUMPTIONS,
    )


def replay(case: dict):
    _common.use_repo()
    fails, info = _check(case)
    if fails:
        return False, "; ".join(f"{c}: {m}" for c, m in fails)[:1000]
    return True, f"stored == pipeline on {info['compared']} utterance(s) (+{info['zero']} zero-frame, {info['skipped']} excluded)"


if __name__ == "__main__":
    from rtc import _common
    import sys

    _common.main(sys.modules[__name__])

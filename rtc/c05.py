"""Bounded stand-in for C05: filter banks are laid out on the scale as documented, with unit gain.

BOUNDED runtime-contract check (never counted as proof).  The real constructors and response
functions of the four banks in ``pydrobert.speech.filters`` are executed on a grid plus seeded
random configurations and compared with an oracle written from the property statement:

* the four scales are re-implemented here from their documented formulas (forward and inverse),
  so the expected vertices / edges never come from ``pydrobert.speech.scales``;
* triangles are evaluated from the closed piecewise-linear form at every DFT bin;
* gain / 3 dB crossing / ERB are read off ``get_frequency_response`` at a DFT width chosen so that
  a bin falls (to first order exactly) on the frequency of interest, ERB by the Riemann sum
  ``sum |H|^2 * rate / W / max |H|^2``; the L2 norm is the plain sum over ``get_impulse_response``.

Clause ids
    C05.edge_spacing       vertices (tri/Fbank) resp. centres built from half-step edges (Gabor /
                           gammatone) equal the uniformly spaced points of the scale, rel 1e-9
    C05.centres_increasing centres strictly increasing in Hz
    C05.centre_in_support  supports_hz[k][0] < centre_k < supports_hz[k][1]
    C05.peak_gain          narrow filters (supports_hz spans < rate/2): |H| peaks at the centre, value 1
                           within 2*THRESHOLD (peak position only when scale_l2_norm)
    C05.l2_norm            scale_l2_norm: impulse response (buffer 4 x support) has L2 norm 1, rel 1e-3;
                           checked when the filter's own supports_hz or that of its unit-gain twin (same bank
                           without scale_l2_norm) spans < rate/2 -- a wrong constant inflates the advertised
                           support of exactly the filters the clause is about
    C05.triangle_values    tri / Fbank response == documented triangle at every bin, 1e-9
    C05.crossing_3db       erb=False Gabor/gammatone: gain at both own edges 3 dB under the peak
                           (amplitude within 2*THRESHOLD of [2**-0.5, 10**(-3/20)])
    C05.erb                erb=True: numerical ERB == edge spacing, rel 1e-3
    C05.rejection          low_hz < 0, or high_hz > 0 with high_hz <= low_hz or high_hz > rate/2 + 1: the constructor
                           raises ValueError (run under np.errstate(raise) so that an arithmetic accident such as
                           int(nan) after 0/0 does not pass for a rejection)
    C05.request_independence
                           the statement quantifies over all filter indices and DFT widths of one bank, so what a bank
                           returns for (filter, width, half) may not depend on what the same OBJECT was asked before.
                           Case kind "session": a list of requests [op, width, half] (op = freq / trunc / imp) is made in
                           order on one bank object -- pairs of requests whose outputs have the same length ((2m, half)
                           vs (m+1, full), (2m-1, half) vs (m, full)) in both orders, the same width with both `half`
                           flags, repeats, truncated and impulse responses in between, earlier requests again at the end
                           in a seeded order.  Every answer is checked against the oracle of the clauses above where one
                           applies at that width (triangle at every bin, also for the spectrum rebuilt from the truncated
                           response by the documented recipe; for Gabor / gammatone filters whose support spans < rate/2:
                           no bin exceeds the gain at the bin next to the centre by more than 2*THRESHOLD and, without
                           scale_l2_norm, no bin exceeds 1 + 2*THRESHOLD; L2 norm of an impulse response in a buffer of
                           >= 4 x support) -- failures there carry the ordinary clause id -- and is compared with the answer
                           of a bank built freshly for that single request (bit-identical, A-DET).  Arrays handed out
                           earlier must not be changed by, nor share memory with, later answers, and overwriting a
                           returned array must not change later answers.
"""
import math
import time
import warnings
from fractions import Fraction

import numpy as np

from rtc import _common

PROPERTY = "C05"
ASSUMPTIONS = [
    "A-REAL",
    "A-MATH (documented scale formulas re-implemented with math.log/exp)",
    "A-FOURIER (Riemann sum over one period of the DFT grid stands for the ERB integral; discrete sum for the L2 norm)",
    "A-DET",
]

TOL_LAYOUT = 1e-9
TOL_TRI = 1e-9
TOL_REL = 1e-3
GAIN_3DB_LO = 2.0 ** -0.5  # half power ("3 dB" = 3.0103 dB)
GAIN_3DB_HI = 10.0 ** (-3.0 / 20.0)  # exactly 3 dB


# ----------------------------------------------------------------------------------------------
# oracle: the documented scales
# ----------------------------------------------------------------------------------------------


class _OracleError(Exception):
    """The oracle's own self-check failed (a fault of this stand-in, not of the library)."""


def _scale_fns(sc):
    """(forward, inverse) of the documented scale `sc` = {"name": ..., params}."""
    name = sc["name"]
    if name == "mel":
        return (lambda f: 1127.0 * math.log(1.0 + f / 700.0), lambda s: 700.0 * (math.exp(s / 1127.0) - 1.0))
    if name == "linear":
        lo, sl = float(sc["low_hz"]), float(sc.get("slope_hz", 1.0))
        return (lambda f: (f - lo) * sl, lambda s: s / sl + lo)
    if name == "octave":
        lo = float(sc["low_hz"])
        return (lambda f: math.log2(f / lo), lambda s: lo * 2.0 ** s)
    if name == "bark":

        def fwd(f):
            z = 26.81 * f / (1960.0 + f) - 0.53
            if z < 2.0:
                return z + 0.15 * (2.0 - z)
            if z > 20.1:
                return z + 0.22 * (z - 20.1)
            return z

        def inv(s):
            # invert the two linear corrections, then z = 26.81 f / (1960 + f) - 0.53
            if s < 2.0:
                z = (s - 0.3) / 0.85
            elif s > 20.1:
                z = (s + 0.22 * 20.1) / 1.22
            else:
                z = s
            return 1960.0 * (z + 0.53) / (26.81 - 0.53 - z)

        return fwd, inv
    raise ValueError(name)


def _expected_layout(spec):
    """Points of the documented layout: (vertices or None, edges or None, centres)."""
    fwd, inv = _scale_fns(spec["scale"])
    n = spec["num_filts"]
    low = float(spec["low_hz"])
    high = spec["high_hz"]
    high = spec["rate"] / 2.0 if high is None else float(high)
    s_lo, s_hi = fwd(low), fwd(high)
    # self-check of the oracle's inverse
    for s in (s_lo, s_hi, 0.5 * (s_lo + s_hi)):
        if not abs(fwd(inv(s)) - s) <= 1e-9 * max(1.0, abs(s)):
            raise _OracleError(f"oracle scale inverse broken for {spec['scale']} at {s}")
    d = (s_hi - s_lo) / (n + 1)
    if spec["bank"] in ("tri", "fbank"):
        v = [inv(s_lo + k * d) for k in range(n + 2)]
        return v, None, v[1:-1]
    e = [inv(s_lo + (k + 0.5) * d) for k in range(n + 1)]
    return None, e, [(a + b) / 2.0 for a, b in zip(e[:-1], e[1:])]


# ----------------------------------------------------------------------------------------------
# the real code
# ----------------------------------------------------------------------------------------------


def _mods():
    _common.use_repo()
    import pydrobert.speech.config as config
    import pydrobert.speech.filters as F
    import pydrobert.speech.scales as S

    return F, S, config


def _scale_obj(S, sc):
    name = sc["name"]
    if name == "mel":
        return S.MelScaling()
    if name == "bark":
        return S.BarkScaling()
    if name == "linear":
        return S.LinearScaling(sc["low_hz"], sc.get("slope_hz", 1.0))
    if name == "octave":
        return S.OctaveScaling(sc["low_hz"])
    raise ValueError(name)


def _build(F, S, spec):
    kw = dict(num_filts=spec["num_filts"], low_hz=spec["low_hz"], high_hz=spec["high_hz"], sampling_rate=spec["rate"])
    b = spec["bank"]
    with warnings.catch_warnings():
        warnings.simplefilter("ignore")
        if b == "tri":
            return F.TriangularOverlappingFilterBank(_scale_obj(S, spec["scale"]), analytic=spec.get("analytic", False), **kw)
        if b == "fbank":
            return F.Fbank(analytic=spec.get("analytic", False), **kw)
        if b == "gabor":
            return F.GaborFilterBank(
                _scale_obj(S, spec["scale"]), scale_l2_norm=spec.get("l2", False), erb=spec.get("erb", False), **kw
            )
        if b == "gamma":
            return F.ComplexGammatoneFilterBank(
                _scale_obj(S, spec["scale"]),
                order=spec.get("order", 4),
                max_centered=spec.get("max_centered", False),
                scale_l2_norm=spec.get("l2", False),
                erb=spec.get("erb", False),
                **kw,
            )
    raise ValueError(b)


def _close(a, b, tol=TOL_LAYOUT):
    return abs(a - b) <= tol * max(1.0, abs(b))


# ----------------------------------------------------------------------------------------------
# clause checks; each returns (failures [(clause, message)], nontrivial, info)
# ----------------------------------------------------------------------------------------------


def _check_layout(case):
    F, S, config = _mods()
    spec = case["bank"]
    fails = []
    try:
        bank = _build(F, S, spec)
    except Exception as e:
        return [("C05.edge_spacing", f"constructor raised {type(e).__name__}: {e} for a valid configuration")], True, {}
    n = spec["num_filts"]
    verts, edges, centres = _expected_layout(spec)
    got_c = [float(c) for c in bank.centers_hz]
    got_s = [(float(a), float(b)) for a, b in bank.supports_hz]
    if bank.num_filts != n or len(got_c) != n or len(got_s) != n:
        return [("C05.edge_spacing", f"num_filts {bank.num_filts}, {len(got_c)} centres, {len(got_s)} supports, wanted {n}")], True, {}
    worst = 0.0
    if verts is not None:
        # vertices v_0..v_{n+1}: supports_hz[k] = (v_k, v_{k+2}), centres = v_{k+1}
        for k in range(n):
            for what, got, exp in (("left", got_s[k][0], verts[k]), ("centre", got_c[k], verts[k + 1]), ("right", got_s[k][1], verts[k + 2])):
                worst = max(worst, abs(got - exp) / max(1.0, abs(exp)))
                if not _close(got, exp):
                    fails.append(("C05.edge_spacing", f"filter {k} {what} vertex {got!r} != S^-1(S(low)+k*delta) = {exp!r}"))
                    break
    else:
        for k in range(n):
            worst = max(worst, abs(got_c[k] - centres[k]) / max(1.0, abs(centres[k])))
            if not _close(got_c[k], centres[k]):
                fails.append(
                    ("C05.edge_spacing", f"filter {k} centre {got_c[k]!r} != midpoint of half-step edges ({edges[k]!r}, {edges[k+1]!r}) = {centres[k]!r}")
                )
    for k in range(n - 1):
        if not (got_c[k] < got_c[k + 1]):
            fails.append(("C05.centres_increasing", f"centres {k},{k+1}: {got_c[k]!r} !< {got_c[k+1]!r}"))
    for k in range(n):
        lo, hi = got_s[k]
        if not (lo < got_c[k] < hi) or not (math.isfinite(lo) and math.isfinite(hi)):
            fails.append(("C05.centre_in_support", f"filter {k}: centre {got_c[k]!r} not inside supports_hz {got_s[k]!r}"))
    # de-duplicate per clause (keep first message)
    seen, out = set(), []
    for c, m in fails:
        if c not in seen:
            seen.add(c)
            out.append((c, m))
    return out, True, {"worst_rel": worst}


def _tri_value(f, l, m, r):
    if f <= l or f >= r:
        return 0.0
    if f <= m:
        return (f - l) / (m - l)
    return (r - f) / (r - m)


def _triangle_mismatch(got, bank, spec, k, W, nbins):
    """Compare the first `nbins` bins of a width-W response of filter k with the documented triangle.
    Returns (message or None, saw a positive expected value, worst abs error)."""
    rate = spec["rate"]
    is_fbank = spec["bank"] == "fbank"
    mel = _scale_fns({"name": "mel"})[0]
    real = not spec.get("analytic", False)
    l, r = (float(x) for x in bank.supports_hz[k])
    m = float(bank.centers_hz[k])
    positive, worst = False, 0.0
    for b in range(nbins):
        bb = b
        if real and 2 * b > W:
            bb = W - b  # mirrored negative frequency of a real filter
        f = rate * bb / W
        if is_fbank:
            exp2 = _tri_value(mel(f), mel(l), mel(m), mel(r)) if l < f < r else 0.0
            exp = math.sqrt(exp2)
        else:
            exp2 = None
            exp = _tri_value(f, l, m, r)
        g = float(got[b])
        if exp > 0:
            positive = True
        err = abs(g - exp)
        ok = err <= TOL_TRI
        if not ok and is_fbank and math.isfinite(g) and g >= 0:
            # sqrt is ill-conditioned at a vertex: compare the squares there
            ok = abs(g * g - exp2) <= 1e-12
            err = 0.0 if ok else err
        if math.isfinite(err):
            worst = max(worst, err)
        if not ok:
            return f"filter {k} width {W} bin {b} ({f:.6f} Hz): response {g!r}, documented triangle ({l:.6f},{m:.6f},{r:.6f}) gives {exp!r}", True, worst
    return None, positive, worst


def _check_triangle(case):
    """tri / Fbank: full response at `width` equals the documented triangle at every bin."""
    F, S, config = _mods()
    spec, W = case["bank"], int(case["width"])
    try:
        bank = _build(F, S, spec)
    except Exception as e:
        return [("C05.edge_spacing", f"constructor raised {type(e).__name__}: {e}")], True, {}
    nontrivial = False
    worst = 0.0
    for k in range(bank.num_filts):
        with warnings.catch_warnings():
            warnings.simplefilter("ignore")
            try:
                got = np.asarray(bank.get_frequency_response(k, W))
            except Exception as e:  # AssertionError in the index bracket, ...
                return [("C05.triangle_values", f"filter {k} width {W}: get_frequency_response raised {type(e).__name__}: {e}")], True, {}
        if got.shape != (W,):
            return [("C05.triangle_values", f"filter {k} width {W}: shape {got.shape}")], True, {}
        if np.iscomplexobj(got):
            if np.abs(got.imag).max() > 0:
                return [("C05.triangle_values", f"filter {k} width {W}: zero-phase triangle has an imaginary part")], True, {}
            got = got.real
        msg, positive, w = _triangle_mismatch(got, bank, spec, k, W, W)
        nontrivial = nontrivial or positive
        worst = max(worst, w)
        if msg is not None:
            return [("C05.triangle_values", msg)], True, {}
    return [], nontrivial, {"worst_abs": worst}


def _aligned(f, rate, wmin, wmax):
    """(W, b): DFT width in [wmin, ~wmax] and bin with rate*b/W as close to f as a denominator <= wmax allows."""
    fr = Fraction(f / rate).limit_denominator(int(wmax))
    p, q = fr.numerator, fr.denominator
    m = max(1, -(-int(wmin) // q))
    return q * m, p * m


def _mag_at(H, W, b, f, rate, smooth=True):
    """|H| at frequency f from bin b (rate*b/W ~ f).  For the smooth banks the residual offset
    f - rate*b/W is removed with a three-point (quadratic) Taylor step of log|H|."""
    g = float(H[b])
    if not smooth:
        return g
    h = rate / W
    lo, hi = float(H[(b - 1) % W]), float(H[(b + 1) % W])
    if g > 0 and lo > 0 and hi > 0:
        l0, lm, lp = math.log(g), math.log(lo), math.log(hi)
        d = f - rate * b / W
        g *= math.exp((lp - lm) / (2 * h) * d + 0.5 * (lp - 2 * l0 + lm) / (h * h) * d * d)
    return g


def _check_response(case, wcap=None):
    """Per-filter gain / crossing / ERB / L2 clauses (only filters whose support spans < rate/2)."""
    F, S, config = _mods()
    thr = float(config.EFFECTIVE_SUPPORT_THRESHOLD)
    spec, k = case["bank"], int(case["filt"])
    wcap = int(case.get("wcap", wcap or 65536))
    rate = spec["rate"]
    try:
        bank = _build(F, S, spec)
    except Exception as e:
        return [("C05.edge_spacing", f"constructor raised {type(e).__name__}: {e}")], True, {}
    verts, edges, centres = _expected_layout(spec)
    s_lo, s_hi = (float(x) for x in bank.supports_hz[k])
    info = {"span_over_rate": (s_hi - s_lo) / rate}
    kind = spec["bank"]
    l2 = bool(spec.get("l2", False)) and kind in ("gabor", "gamma")
    own = s_hi - s_lo < rate / 2.0
    # An L2-scaled filter is the unit-gain filter times a constant; its images overlap exactly when those of
    # the unit-gain filter do.  So for the L2 clause the restriction is also evaluated on the unit-gain twin
    # (a wrong normalisation constant inflates the advertised support and would otherwise make the clause
    # vacuous on precisely the banks it is about).
    twin = False
    if l2 and not own:
        try:
            t_lo_hz, t_hi_hz = (float(x) for x in _build(F, S, dict(spec, l2=False)).supports_hz[k])
            twin = t_hi_hz - t_lo_hz < rate / 2.0
        except Exception:
            twin = False
    if not own and not twin:
        return [], False, dict(info, skipped="support spans >= rate/2")
    centre = centres[k]
    if verts is not None:
        left, right = verts[k], verts[k + 2]
        bw = min(centre - left, right - centre)
    else:
        left, right = edges[k], edges[k + 1]
        bw = right - left
    fails = []
    if own:
        stop = _frequency_clauses(bank, spec, k, kind, l2, thr, rate, centre, left, right, bw, wcap, fails, info)
        if stop is not None:
            return stop
    # --- L2 norm ----------------------------------------------------------------------------
    if l2:
        t_lo, t_hi = bank.supports[k]
        Wt = 4 * (int(t_hi) - int(t_lo) + 1)
        if Wt > 4 * wcap:
            info["l2_skipped"] = f"buffer {Wt} > cap"
            if not own:
                return fails, False, info
        else:
            with warnings.catch_warnings():
                warnings.simplefilter("ignore")
                imp = np.asarray(bank.get_impulse_response(k, Wt))
            norm = float(np.sqrt(np.sum(np.abs(imp) ** 2)))
            info["l2_norm"] = norm
            if not (abs(norm - 1.0) <= TOL_REL):
                fails.append(("C05.l2_norm", f"filter {k}: impulse response (buffer {Wt}) has L2 norm {norm!r}, not 1 within {TOL_REL}"))
    return fails, True, info


def _frequency_clauses(bank, spec, k, kind, l2, thr, rate, centre, left, right, bw, wcap, fails, info):
    """Peak / gain, ERB or 3 dB crossing of one filter; appends to `fails`; returns an early result or None."""

    def resp(W):
        with warnings.catch_warnings():
            warnings.simplefilter("ignore")
            return np.abs(np.asarray(bank.get_frequency_response(k, W)))

    # DFT width: fine enough for the Riemann sum / local slope; gammatone is vectorised, so finer
    # (Gabor evaluates bin by bin in Python, hence the coarser grid; its log-response is quadratic, so the
    # three-point step is exact up to aliasing).  Triangles have a kink at the centre: no Taylor step, the bin
    # has to sit on the centre, so a large denominator is allowed (their cost grows only with the support).
    smooth = kind in ("gabor", "gamma")
    mult = {"tri": 16, "fbank": 16, "gabor": 6, "gamma": 64}[kind]
    wmin = max(64, int(math.ceil(mult * rate / bw)))
    if wmin > wcap:
        return [], False, dict(info, skipped=f"needs DFT width {wmin} > cap {wcap}")
    wmax = max(2 * wmin, {"tri": 16384, "fbank": 16384, "gabor": 1024, "gamma": 32768}[kind])
    # --- peak -----------------------------------------------------------------------------
    W, b = _aligned(centre, rate, wmin, wmax)
    H = resp(W)
    if not np.all(np.isfinite(H)):
        return [("C05.peak_gain", f"filter {k}: non-finite frequency response at width {W}")], True, info
    peak = _mag_at(H, W, b, centre, rate, smooth)
    top = float(H.max())
    jmax = int(np.argmax(H))
    fmax = rate * jmax / W if 2 * jmax <= W else rate * (jmax - W) / W
    info.update(W=W, peak=peak)
    scale = top if l2 else 1.0
    if top - peak > 2 * thr * scale or not (left < abs(fmax) < right or jmax == b) or not peak > 0:
        fails.append(("C05.peak_gain", f"filter {k}: |H| is largest ({top!r}) at {fmax:.3f} Hz, not at the centre {centre:.3f} Hz where it is {peak!r} (width {W})"))
    elif not l2 and abs(peak - 1.0) > 2 * thr:
        fails.append(("C05.peak_gain", f"filter {k}: gain at the centre {centre:.3f} Hz is {peak!r}, not 1 within {2*thr} (width {W})"))
    info["gain_dev_over_thr"] = abs(peak - 1.0) / thr if not l2 else 0.0
    # --- ERB / 3 dB crossing (Gabor, gammatone) ---------------------------------------------
    if kind in ("gabor", "gamma") and peak > 0:
        if spec.get("erb", False):
            erb_hz = float(np.sum(H ** 2)) * rate / W / (peak ** 2)
            info["erb_ratio"] = erb_hz / (right - left)
            if abs(erb_hz - (right - left)) > TOL_REL * (right - left):
                fails.append(("C05.erb", f"filter {k}: numerical ERB {erb_hz!r} Hz vs edge spacing {right-left!r} Hz (ratio {erb_hz/(right-left):.6f}, width {W})"))
        else:
            gains = []
            for e in (left, right):
                if not (0 < e < rate / 2.0):
                    gains.append(None)
                    continue
                We, be = _aligned(e, rate, wmin, wmax)
                He = H if We == W else resp(We)
                gains.append(_mag_at(He, We, be, e, rate) / peak)
            info["edge_gains"] = gains
            for e, g in zip((left, right), gains):
                if g is None:
                    continue
                dist = max(GAIN_3DB_LO - g, g - GAIN_3DB_HI, 0.0)
                info["cross_dev_over_thr"] = max(info.get("cross_dev_over_thr", 0.0), dist / thr)
                if not (dist <= 2 * thr):
                    fails.append(
                        ("C05.crossing_3db", f"filter {k}: gain at its band edge {e:.4f} Hz is {g!r} of the peak ({20*math.log10(max(g,1e-300)):.4f} dB), not 3 dB down")
                    )
                    break
    return None


_BANK_CLASS = {"tri": "TriangularOverlappingFilterBank", "fbank": "Fbank", "gabor": "GaborFilterBank", "gamma": "ComplexGammatoneFilterBank"}


def _stated_bad(low, high, rate):
    """The statement's rejection predicate."""
    return low < 0 or (high is not None and high > 0 and (not (high > low) or high > rate / 2.0 + 1.0))


def _check_reject(case):
    F, S, config = _mods()
    spec = case["bank"]
    low, high, rate = spec["low_hz"], spec["high_hz"], spec["rate"]
    if isinstance(high, str):
        high = float(high)
        spec = dict(spec, high_hz=high)
    bad = _stated_bad(low, high, rate)
    try:
        # "rejected": by the argument check, not by an arithmetic accident further down (a 0/0 that ends in
        # int(nan) also raises ValueError) -- floating-point exceptions are made to surface as FloatingPointError
        with np.errstate(divide="raise", invalid="raise", over="raise"):
            _build(F, S, spec)
    except ValueError:
        return [], bad, {"raised": "ValueError"}
    except Exception as e:
        if bad:
            return [("C05.rejection", f"{_BANK_CLASS[spec['bank']]}(low_hz={low}, high_hz={high}, rate={rate}) raised {type(e).__name__} ({e}) instead of ValueError")], True, {}
        return [], False, {"raised": type(e).__name__}
    if bad:
        return [("C05.rejection", f"{_BANK_CLASS[spec['bank']]}(low_hz={low}, high_hz={high}, rate={rate}) was accepted; the range must be rejected with ValueError")], True, {}
    return [], False, {"raised": None}


def _half_len(W):
    """Documented length of the half=True response."""
    return W // 2 + 1 if W % 2 == 0 else (W + 1) // 2


def _same(a, b):
    a, b = np.asarray(a), np.asarray(b)
    return a.dtype == b.dtype and a.shape == b.shape and bool(np.array_equal(a, b))


def _request(bank, k, op, W, half):
    """One request of a session -> tuple of arrays as returned by the library."""
    with warnings.catch_warnings():
        warnings.simplefilter("ignore")
        if op == "freq":
            return (np.asarray(bank.get_frequency_response(k, W, half=bool(half))),)
        if op == "imp":
            return (np.asarray(bank.get_impulse_response(k, W)),)
        if op == "trunc":
            st, tr = bank.get_truncated_response(k, W)
            return (np.asarray(int(st)), np.asarray(tr))
    raise ValueError(op)


def _check_session(case):
    """Many requests on ONE bank object, each checked against the oracle and against a fresh bank (see module doc).
    A request is [op, width, half] or [op, width, half, filter]; the filter defaults to case["filt"]."""
    F, S, config = _mods()
    thr = float(config.EFFECTIVE_SUPPORT_THRESHOLD)
    spec, k0 = case["bank"], int(case["filt"])
    ops = [(str(o[0]), int(o[1]), bool(o[2]) if len(o) > 2 else False, int(o[3]) if len(o) > 3 else k0) for o in case["ops"]]
    rate = spec["rate"]
    kind = spec["bank"]
    compact = kind in ("tri", "fbank")
    real = compact and not spec.get("analytic", False)
    l2 = bool(spec.get("l2", False)) and not compact
    try:
        bank = _build(F, S, spec)
    except Exception as e:
        return [("C05.edge_spacing", f"constructor raised {type(e).__name__}: {e}")], True, {}
    verts, edges, centres = _expected_layout(spec)
    twin_spans = {}
    ctxs = {}

    def ctx(k):
        if k not in ctxs:
            s_lo, s_hi = (float(x) for x in bank.supports_hz[k])
            own = s_hi - s_lo < rate / 2.0
            t_lo, t_hi = (int(x) for x in bank.supports[k])
            l2_ok = own
            if l2 and not own:  # as in the response clause: the restriction is also evaluated on the unit-gain twin
                try:
                    if not twin_spans:
                        twin_spans["s"] = [(float(x), float(y)) for x, y in _build(F, S, dict(spec, l2=False)).supports_hz]
                    x, y = twin_spans["s"][k]
                    l2_ok = y - x < rate / 2.0
                except Exception:
                    l2_ok = False
            ctxs[k] = {"centre": centres[k], "own": own, "l2_ok": l2_ok, "tlen": t_hi - t_lo + 1}
        return ctxs[k]

    fails, info = [], {"requests": len(ops), "oracle_checked": 0}
    history, held = [], []

    def show(o, w, h, k):
        return f"{o}({k},{w}{',half' if h else ''})"

    def hist():
        return ", ".join(show(*x) for x in history[-6:]) or "nothing"

    def label(op, W, half, k):
        return f"request #{len(history)} {op}(filter {k}, width {W}{', half=True' if half else ''}) on a bank that already answered [{hist()}]"

    def smooth_peak(mags, W, k, what):
        """Gabor / gammatone filter whose support spans < rate/2: the bin next to the centre carries the maximum."""
        c = ctx(k)
        centre = c["centre"]
        b0 = int(round(centre * W / rate))
        if not c["own"] or b0 >= len(mags) or not len(mags):
            return
        info["oracle_checked"] += 1
        top = float(mags.max())
        j = int(np.argmax(mags))
        scale = top if l2 else 1.0
        if not np.all(np.isfinite(mags)):
            fails.append(("C05.peak_gain", f"{what}: non-finite values"))
        elif top - float(mags[b0]) > 2 * thr * scale:
            fails.append(("C05.peak_gain", f"{what}: |H| is largest ({top!r}) at bin {j} = {rate * j / W:.3f} Hz, not next to the centre {centre:.3f} Hz (bin {b0}, |H| = {float(mags[b0])!r})"))
        elif not l2 and top > 1.0 + 2 * thr:
            fails.append(("C05.peak_gain", f"{what}: gain {top!r} at bin {j} exceeds the documented peak gain 1 by more than {2 * thr}"))

    def oracle(op, W, half, k, got):
        what = label(op, W, half, k)
        hl = _half_len(W)
        if op == "freq":
            a = got[0]
            want = hl if half else W
            if a.shape != (want,):
                fails.append(("C05.triangle_values" if compact else "C05.peak_gain", f"{what}: shape {a.shape}, documented length {want}"))
                return
            if compact:
                if np.iscomplexobj(a):
                    if np.abs(a.imag).max() > 0:
                        fails.append(("C05.triangle_values", f"{what}: zero-phase triangle has an imaginary part"))
                        return
                    a = a.real
                msg, positive, w = _triangle_mismatch(a, bank, spec, k, W, want)
                info["oracle_checked"] += 1
                info["worst_abs"] = max(info.get("worst_abs", 0.0), w)
                if msg is not None:
                    fails.append(("C05.triangle_values", f"{what}: {msg}"))
            else:
                smooth_peak(np.abs(a), W, k, what)
        elif op == "trunc":
            st, tr = int(got[0]), got[1]
            if tr.ndim != 1 or not (0 <= st < W):
                fails.append(("C05.triangle_values" if compact else "C05.peak_gain", f"{what}: start bin {st}, truncated response of shape {tr.shape}"))
                return
            # the documented recipes of get_truncated_response
            try:
                if real:
                    rebuilt = np.zeros(hl, dtype=tr.dtype)
                    rebuilt[st : st + len(tr)] = tr
                    n = hl
                else:
                    rebuilt = np.zeros(W, dtype=tr.dtype)
                    wrap = min(st + len(tr), W) - st
                    rebuilt[st : st + wrap] = tr[:wrap]
                    rebuilt[: len(tr) - wrap] = tr[wrap:]
                    n = W
            except Exception as e:
                fails.append(("C05.triangle_values" if compact else "C05.peak_gain", f"{what}: the documented recipe cannot be applied (start {st}, length {len(tr)}): {type(e).__name__}: {e}"))
                return
            if compact:
                msg, positive, w = _triangle_mismatch(np.real(rebuilt), bank, spec, k, W, n)
                info["oracle_checked"] += 1
                if msg is not None:
                    fails.append(("C05.triangle_values", f"{what}: spectrum rebuilt from the truncated response: {msg}"))
            else:
                smooth_peak(np.abs(rebuilt), W, k, what + " (spectrum rebuilt from the truncated response)")
        elif op == "imp":
            a = got[0]
            c = ctx(k)
            if a.shape != (W,):
                fails.append(("C05.l2_norm", f"{what}: shape {a.shape}"))
            elif not np.all(np.isfinite(a)):
                fails.append(("C05.l2_norm", f"{what}: non-finite values"))
            elif l2 and c["l2_ok"] and W >= 4 * c["tlen"]:
                norm = float(np.sqrt(np.sum(np.abs(a) ** 2)))
                info["oracle_checked"] += 1
                info["l2_norm"] = norm if abs(norm - 1) > abs(info.get("l2_norm", 1.0) - 1) else info.get("l2_norm", norm)
                if not (abs(norm - 1.0) <= TOL_REL):
                    fails.append(("C05.l2_norm", f"{what}: impulse response has L2 norm {norm!r}, not 1 within {TOL_REL}"))

    def one(op, W, half, k):
        try:
            got = _request(bank, k, op, W, half)
        except Exception as e:
            fails.append(("C05.request_independence", f"{label(op, W, half, k)} raised {type(e).__name__}: {e}"))
            history.append((op, W, half, k))
            return
        oracle(op, W, half, k, got)
        try:
            fresh = _request(_build(F, S, spec), k, op, W, half)
        except Exception as e:
            fresh = None
            fails.append(("C05.request_independence", f"a fresh bank raised {type(e).__name__} on {show(op, W, half, k)}: {e}"))
        if fresh is not None:
            for a, b in zip(got, fresh):
                if not _same(a, b):
                    if a.shape == b.shape and a.ndim == 1 and a.size:
                        j = int(np.argmax(np.abs(a - b)))
                        where = f"index {j}: {a[j]!r} vs {b[j]!r}"
                    else:
                        where = f"shape/dtype {a.shape}/{a.dtype} vs {b.shape}/{b.dtype}, values {a!r:.50} vs {b!r:.50}"
                    fails.append(("C05.request_independence", f"{label(op, W, half, k)} differs from the answer of a freshly built bank ({where})"))
                    break
        for a in got:
            if a.ndim == 1:
                held.append((f"{show(op, W, half, k)} #{len(history)}", a, a.copy()))
        history.append((op, W, half, k))

    for o in ops:
        one(*o)
        if len(fails) > 8:
            break
    for d, a, c in held:
        if not _same(a, c):
            fails.append(("C05.request_independence", f"the array returned by {d} was changed by a later call"))
            break
    clash = None
    for i in range(len(held)):
        for j in range(i + 1, len(held)):
            if np.may_share_memory(held[i][1], held[j][1]) and np.shares_memory(held[i][1], held[j][1]):
                clash = (held[i][0], held[j][0])
                break
        if clash:
            fails.append(("C05.request_independence", f"the arrays returned by {clash[0]} and {clash[1]} share memory"))
            break
    if len(fails) <= 8:
        # overwrite everything that was handed out and ask the distinct requests once more
        for d, a, c in held:
            if a.flags.writeable:
                a[...] = np.nan if a.dtype.kind in "fc" else 0
        seen = []
        for o in ops:
            if o not in seen:
                seen.append(o)
        history.append(("<all returned arrays overwritten>", 0, False, -1))
        for o in seen[:12]:
            one(*o)
    seen, out = set(), []
    for c, m in fails:
        if c not in seen:
            seen.add(c)
            out.append((c, m))
    return out, info["oracle_checked"] > 0, info


def _session_ops(rng, ms, k, k2=None, extra_imp=None, tail=12):
    """The request list of a session (see module doc): for every m the equal-length pairs in both orders with
    repeats, both `half` flags of the same widths, truncated / impulse responses in between, the same requests
    for a second filter k2 interleaved; then a seeded selection of the earlier requests again."""
    ops = []
    for i, m in enumerate(ms):
        m = int(m)
        ops += [["freq", 2 * m, True, k], ["freq", m + 1, False, k], ["freq", 2 * m, True, k], ["freq", m + 1, False, k]]
        if m >= 2:
            ops += [["freq", m, False, k], ["freq", 2 * m - 1, True, k], ["freq", m, False, k]]
        ops += [["freq", 2 * m, False, k], ["freq", m + 1, True, k]]
        ops += [["trunc", 2 * m, False, k], ["trunc", m + 1, False, k], ["trunc", 2 * m, False, k], ["imp", m + 1, False, k], ["imp", 2 * m, False, k], ["imp", m + 1, False, k]]
        if k2 is not None and k2 != k and i == 0:
            ops += [["freq", 2 * m, True, k2], ["freq", m + 1, False, k2], ["freq", 2 * m, True, k], ["trunc", 2 * m, False, k2], ["imp", m + 1, False, k2], ["imp", m + 1, False, k], ["trunc", 2 * m, False, k]]
    if extra_imp:
        ops += [["imp", int(extra_imp), False, k], ["imp", int(extra_imp) + 1, False, k], ["imp", int(extra_imp), False, k]]
    distinct = []
    for o in ops:
        if o not in distinct:
            distinct.append(o)
    ops += [distinct[i] for i in rng.permutation(len(distinct))[:tail]]
    return ops


def _shrink_session(case, clause, run_case, budget_s=3.0):
    """Smallest request list (shortest failing prefix, then greedy removal of single requests) on which `clause`
    still fails; run_case(case) -> {clause: message}.  Returns (case, message) or (case, None) if not reproducible."""
    t0 = time.time()
    ops = list(case["ops"])

    def bad(o):
        return clause in run_case(dict(case, ops=o))

    lo, hi = 1, len(ops)
    while lo < hi and time.time() - t0 < budget_s:
        mid = (lo + hi) // 2
        if bad(ops[:mid]):
            hi = mid
        else:
            lo = mid + 1
    ops = ops[:hi]
    j = len(ops) - 2
    while j >= 0 and time.time() - t0 < budget_s:
        cand = ops[:j] + ops[j + 1 :]
        if bad(cand):
            ops = cand
        j -= 1
    small = dict(case, ops=ops)
    msg = run_case(small).get(clause)
    return (small, msg) if msg is not None else (case, None)


_KINDS = {"layout": _check_layout, "triangle": _check_triangle, "response": _check_response, "reject": _check_reject, "session": _check_session}


def _evaluate(case):
    try:
        return _KINDS[case["kind"]](case)
    except _OracleError:
        raise
    except Exception as e:  # an unexpected exception from the library is a failure of the clause family
        clause = {"layout": "C05.edge_spacing", "triangle": "C05.triangle_values", "response": "C05.peak_gain", "reject": "C05.rejection", "session": "C05.request_independence"}[case["kind"]]
        return [(clause, f"unexpected {type(e).__name__}: {e}")], True, {}


def replay(case):
    fails, nontrivial, info = _evaluate(case)
    if fails:
        return False, "; ".join(f"{c}: {m}" for c, m in fails)
    return True, f"holds ({'non-trivial' if nontrivial else 'trivial / outside the clause'}; {info})"


# ----------------------------------------------------------------------------------------------
# enumeration
# ----------------------------------------------------------------------------------------------

SCALES_QUICK = [{"name": "mel"}, {"name": "bark"}, {"name": "linear", "low_hz": 0.0, "slope_hz": 1.0}, {"name": "octave", "low_hz": 20.0}]
SCALES_MORE = [{"name": "linear", "low_hz": 50.0, "slope_hz": 0.01}, {"name": "linear", "low_hz": -100.0, "slope_hz": 3.0}, {"name": "octave", "low_hz": 1.0}]
RATES = [8000, 16000, 44100]
NUM_FILTS = [1, 2, 11, 40]


def _ranges(rate, scale):
    floor = scale["low_hz"] if scale["name"] == "octave" else 0.0
    return [(max(20.0, floor), None), (floor, rate / 2.0), (max(300.0, floor), 3400.0)]


def _flag_sets(bank, tier):
    if bank in ("tri", "fbank"):
        return [{"analytic": False}, {"analytic": True}]
    if bank == "gabor":
        return [{"erb": e, "l2": l} for e in (False, True) for l in (False, True)]
    orders = (4, 2, 6) if tier == "quick" else (4, 2, 6, 1, 3)
    return [{"order": o, "max_centered": mc, "erb": e, "l2": l} for o in orders for e in (False, True) for l in (False, True) for mc in (False, True)]


def _grid(tier):
    scales = SCALES_QUICK + (SCALES_MORE if tier != "quick" else [])
    for bank in ("gamma", "gabor", "tri", "fbank"):
        for scale in scales if bank != "fbank" else [{"name": "mel"}]:
            for rate in RATES:
                for n in NUM_FILTS:
                    for low, high in _ranges(rate, scale):
                        for flags in _flag_sets(bank, tier):
                            spec = {"bank": bank, "scale": scale, "num_filts": n, "rate": rate, "low_hz": low, "high_hz": high}
                            spec.update(flags)
                            yield spec


def _random_spec(rng):
    bank = ["tri", "fbank", "gabor", "gamma"][int(rng.integers(4))]
    rate = [8000, 11025, 16000, 22050, 44100, 48000][int(rng.integers(6))]
    if bank == "fbank":
        scale = {"name": "mel"}
    else:
        c = int(rng.integers(4))
        scale = [
            {"name": "mel"},
            {"name": "bark"},
            {"name": "linear", "low_hz": float(np.round(rng.uniform(-200, 200), 3)), "slope_hz": float(np.round(10 ** rng.uniform(-2, 1), 4))},
            {"name": "octave", "low_hz": float(np.round(10 ** rng.uniform(0, 2), 3))},
        ][c]
    floor = scale["low_hz"] if scale["name"] == "octave" else 0.0
    top = float(rate // 2)
    low = float(np.round(rng.uniform(floor, 0.4 * top), 3))
    high = float(np.round(rng.uniform(low + 0.2 * top, top), 3))
    spec = {"bank": bank, "scale": scale, "num_filts": int(rng.integers(1, 48)), "rate": rate, "low_hz": low, "high_hz": high}
    if bank in ("tri", "fbank"):
        spec["analytic"] = bool(rng.integers(2))
    else:
        spec.update(erb=bool(rng.integers(2)), l2=bool(rng.integers(2)))
        if bank == "gamma":
            spec.update(order=int(rng.integers(1, 8)), max_centered=bool(rng.integers(2)))
    return spec


def _reject_cases(rng):
    out = []
    for bank in ("tri", "fbank", "gabor", "gamma"):
        for rate in (8000, 16000, 11025, 44100, 22050.5):
            nyq = rate / 2.0
            combos = [
                (-1e-9, None), (-1.0, None), (-100.0, nyq / 2), (-0.5, nyq),  # low < 0
                (100.0, 100.0), (100.0, 50.0), (3000.0, 1.0), (nyq / 2, nyq / 2), (20.0, 1e-3), (nyq, nyq),  # positive high not above low
                (20.0, nyq + 1.0 + 1e-6), (20.0, nyq + 2.0), (0.0, 10.0 * rate), (20.0, float(rate)), (20.0, 1e300),  # more than 1 Hz above Nyquist
                (-5.0, nyq + 7.0), (nyq + 5.0, nyq + 3.0),
                # boundary, not bad by the statement (observed only)
                (20.0, nyq), (20.0, nyq + 1.0), (20.0, nyq + 0.5), (0.0, nyq - 1.0),
            ]
            for _ in range(3):
                lo = float(np.round(rng.uniform(-50, nyq), 3))
                hi = float(np.round(rng.uniform(1e-3, nyq + 3), 3))
                combos.append((lo, hi))
            for low, high in combos:
                for scale in ([{"name": "mel"}] if bank == "fbank" else [{"name": "mel"}, {"name": "linear", "low_hz": 0.0, "slope_hz": 1.0}]):
                    out.append({"kind": "reject", "bank": {"bank": bank, "scale": scale, "num_filts": 5, "rate": rate, "low_hz": low, "high_hz": high}})
    return out


TRI_WIDTHS_QUICK = [2, 3, 4, 5, 7, 8, 16, 31, 32, 64, 127, 128, 257, 512, 1000]
TRI_WIDTHS_THOROUGH = list(range(2, 66)) + [127, 128, 129, 255, 256, 257, 511, 512, 1000, 1024, 4096]


def _interleave(grid, perm):
    """Seeded order in which the four bank classes take turns (the gammatone flags dominate the grid)."""
    by = {}
    for i in perm:
        by.setdefault(grid[i]["bank"], []).append(int(i))
    out, lists = [], list(by.values())
    j = 0
    while any(lists):
        for l in lists:
            if j < len(l):
                out.append(l[j])
        j += 1
        lists = [l for l in lists if j < len(l)] or []
        if not lists:
            break
    return out


def _pick_filters(n, rng, tier):
    if tier != "quick" or n <= 6:
        return list(range(n))
    base = {0, 1, n // 2, n - 2, n - 1}
    base.update(int(x) for x in rng.integers(0, n, size=2))
    return sorted(base)


def run(tier, seed):
    _mods()
    quick = tier == "quick"
    col = _common.Collector(PROPERTY, tier, seed, budget_s=52 if quick else 560)
    rng = _common.make_rng(seed, "c05")
    worst = {}
    dup = {}
    kinds = {}

    def do(case):
        fails, nontrivial, info = _evaluate(case)
        kc = kinds.setdefault(case["kind"], [0, 0])
        kc[0] += 1
        kc[1] += bool(nontrivial)
        col.case(case, nontrivial=nontrivial, sample=case if (nontrivial and col.evaluations % 97 == 0) else None)
        for clause, msg in fails:
            key = (clause, case["bank"]["bank"])
            dup[key] = dup.get(key, 0) + 1
            if dup[key] <= 2:  # keep the report readable: two witnesses per (clause, bank class)
                if case["kind"] == "session" and len(case["ops"]) > 2:
                    small, m = _shrink_session(case, clause, lambda c: dict(_evaluate(c)[0]))
                    col.fail(clause, small, m if m is not None else msg)
                else:
                    col.fail(clause, case, msg)
        for key in ("worst_rel", "worst_abs", "gain_dev_over_thr", "cross_dev_over_thr"):
            if key in info:
                worst[key] = max(worst.get(key, 0.0), info[key])
        if "erb_ratio" in info:
            worst["erb_rel"] = max(worst.get("erb_rel", 0.0), abs(info["erb_ratio"] - 1))
        if "l2_norm" in info:
            worst["l2_rel"] = max(worst.get("l2_rel", 0.0), abs(info["l2_norm"] - 1))
        return fails, nontrivial, info

    # 1. rejection (cheap, exact)
    accepted_boundary = {}
    for case in _reject_cases(rng):
        fails, nontrivial, info = do(case)
        sp = case["bank"]
        if not nontrivial and sp["high_hz"] is not None and sp["high_hz"] > sp["rate"] / 2.0:
            accepted_boundary.setdefault(sp["bank"], set()).add(info.get("raised") or "accepted")
    col.note(
        "ranges with Nyquist < high_hz <= Nyquist + 1 (not rejected by the statement): "
        + ", ".join(f"{_BANK_CLASS[b]} -> {sorted(v)}" for b, v in sorted(accepted_boundary.items()))
    )

    # 2. response clauses on the most discriminating banks first (a fixed core, then seeded picks)
    grid = list(_grid(tier))
    core = []
    for bank, flags in (
        ("gamma", {"order": 4, "max_centered": False, "erb": False, "l2": True}),
        ("gamma", {"order": 4, "max_centered": False, "erb": True, "l2": False}),
        ("gabor", {"erb": False, "l2": False}),
        ("gabor", {"erb": True, "l2": True}),
        ("gamma", {"order": 2, "max_centered": True, "erb": True, "l2": True}),
        ("gamma", {"order": 6, "max_centered": True, "erb": False, "l2": False}),
        ("tri", {"analytic": False}),
        ("fbank", {"analytic": True}),
    ):
        spec = {"bank": bank, "scale": {"name": "mel"}, "num_filts": 11, "rate": 16000, "low_hz": 20.0, "high_hz": None}
        spec.update(flags)
        core.append(spec)
    resp_budget = 30 if quick else 330
    order = _interleave(grid, rng.permutation(len(grid)))
    picks = core + [grid[i] for i in order]
    # 2a. sessions: many requests on one bank object (cheap; every bank class and flag set comes by within seconds)
    t_sess = time.time()
    sess_budget = 7 if quick else 60
    n_sess = n_sess_req = 0
    for i_spec, spec in enumerate(picks):
        if time.time() - t_sess > sess_budget or col.too_many_failures():
            break
        try:
            b = _build(*_mods()[:2], spec)
            spans = [float(hi) - float(lo) for lo, hi in b.supports_hz]
            sup = [int(hi) - int(lo) + 1 for lo, hi in b.supports]
        except Exception:
            continue  # reported by the layout / response kinds
        n = spec["num_filts"]
        narrow = [k for k in range(n) if spans[k] < spec["rate"] / 2.0]
        pool = narrow or list(range(n))
        k = pool[int(rng.integers(len(pool)))]
        ms = [(256, 64, 128, 32)[i_spec % 4], int(rng.integers(3, 200)), int(rng.integers(2, 24))]
        extra = 4 * sup[k] if (spec.get("l2") and 4 * sup[k] <= 4096) else None
        k2 = pool[int(rng.integers(len(pool)))] if len(pool) > 1 else None
        case = {"kind": "session", "bank": spec, "filt": k, "ops": _session_ops(rng, ms, k, k2=k2, extra_imp=extra)}
        do(case)
        n_sess += 1
        n_sess_req += len(case["ops"])

    t_start = time.time()
    n_resp_banks = 0
    wcap = 16384 if quick else 65536
    for spec in picks:
        if time.time() - t_start > resp_budget or col.too_many_failures():
            break
        n_resp_banks += 1
        for k in _pick_filters(spec["num_filts"], rng, tier):
            do({"kind": "response", "bank": spec, "filt": k, "wcap": wcap})
            if time.time() - t_start > resp_budget:
                break

    # 3. layout over the whole grid + seeded random configurations
    n_layout = 0
    t_lay = time.time()
    lay_budget = 8 if quick else 60
    for i in order:
        if time.time() - t_lay > lay_budget or col.too_many_failures():
            break
        do({"kind": "layout", "bank": grid[i]})
        n_layout += 1
    n_rand = 0
    for _ in range(150 if quick else 1500):
        if col.out_of_time() or col.too_many_failures():
            break
        do({"kind": "layout", "bank": _random_spec(rng)})
        n_rand += 1

    # 4. triangles at every bin
    widths = TRI_WIDTHS_QUICK if quick else TRI_WIDTHS_THOROUGH
    tri_specs = [g for g in grid if g["bank"] in ("tri", "fbank")]
    # aligned corner: vertices / band limits falling exactly on bins
    tri_specs = [
        {"bank": "tri", "scale": {"name": "linear", "low_hz": 0.0, "slope_hz": 1.0}, "num_filts": 3, "rate": 8000, "low_hz": 0.0, "high_hz": 4000.0, "analytic": a}
        for a in (False, True)
    ] + [{"bank": "fbank", "scale": {"name": "mel"}, "num_filts": 3, "rate": 8000, "low_hz": 1000.0, "high_hz": 4000.0, "analytic": a} for a in (False, True)] + [
        tri_specs[i] for i in rng.permutation(len(tri_specs))
    ]
    n_tri = 0
    for spec in tri_specs:
        if col.out_of_time() or col.too_many_failures():
            break
        n_tri += 1
        for W in widths:
            if W > 600 and spec["num_filts"] > 11 and quick:
                continue
            do({"kind": "triangle", "bank": spec, "width": W})
        if quick and n_tri % 8 == 0:
            sp = _random_spec(rng)
            if sp["bank"] in ("tri", "fbank"):
                do({"kind": "triangle", "bank": sp, "width": int(rng.integers(2, 700))})

    extra = {k: v - 2 for k, v in dup.items() if v > 2}
    if extra:
        col.note("further failing cases not listed (same clause and bank class): " + ", ".join(f"{c}/{b}: {v}" for (c, b), v in sorted(extra.items())))
    col.note("measured worst slack: " + ", ".join(f"{k}={v:.3g}" for k, v in sorted(worst.items())))
    col.note("cases per kind (executed / non-trivial): " + ", ".join(f"{k} {a}/{b}" for k, (a, b) in sorted(kinds.items())))
    col.note(f"sessions (one bank object, many requests, each also answered by a fresh bank): {n_sess} with {n_sess_req} requests in {sess_budget} s")
    col.note(f"banks visited: response {n_resp_banks}, layout grid {n_layout}/{len(grid)} + {n_rand} random, triangle {n_tri}/{len(tri_specs)}")
    return col.result(
        rule=(
            "one case per (kind, bank configuration[, filter | DFT width]); kinds: layout (constructor vs documented scale layout), "
            "triangle (all filters, all bins of one width), response (one filter: peak/gain, 3 dB crossing or ERB, L2 norm), reject "
            "(constructor call), session (one filter of one bank OBJECT, a list of requests; non-trivial if at least one answer met an oracle of the clauses).  Non-trivial: layout always; triangle if some bin has a positive expected value; response only if the "
            "filter's supports_hz (for the L2 clause: or its unit-gain twin's) spans < rate/2 and the needed DFT width is under the cap; reject only if the statement calls the range bad"
        ),
        bound=(
            f"BOUNDED ({tier}): grid 4 banks x {len(SCALES_QUICK) + (0 if quick else len(SCALES_MORE))} scale instances x num_filts {NUM_FILTS} x rates {RATES} x 3 ranges x flags "
            f"({len(grid)} configurations, visited in seeded order within the time budget) + seeded random configurations; triangle widths {widths}; "
            f"sessions of ~50 requests (DFT widths 2m, 2m-1, m+1, m for m in {{32, 64, 128, 256}} and two seeded m < 200; two filters) on the banks reached in {sess_budget} s; "
            f"response clauses on {'a subset of filters (ends, middle, 2 random) of' if quick else 'all filters of'} the banks reached in the budget, DFT width <= {wcap}"
        ),
        assumptions=ASSUMPTIONS,
    )


if __name__ == "__main__":
    import sys

    from rtc import _common

    _common.main(sys.modules[__name__])

"""Bounded stand-in for C06: the frequency-domain representations of a filter agree.

BOUNDED runtime-contract check (never counted as proof).  For every (bank, filter, DFT width) case
the three real functions ``get_truncated_response(k, W)``, ``get_frequency_response(k, W)`` and
``get_frequency_response(k, W, half=True)`` are executed and compared by the recipe written in the
docstring of ``LinearFilterBank.get_truncated_response`` (re-typed here, no library helper is used):

    C06.start_bin      the start bin is an integer in [0, W)
    C06.real_half      real bank: start + len(truncated) <= documented half length; values real
    C06.rebuild        rebuilt full response vs get_frequency_response: identical for triangular / Fbank,
                       (no approximation error: <= 4 ulp per bin and the same zero pattern; the number of
                       cases that are not bit-identical is reported in a note),
                       max abs difference <= 2 * EFFECTIVE_SUPPORT_THRESHOLD for Gabor / gammatone
    C06.half_prefix    half=True has the documented length (W//2+1 even, (W+1)//2 odd) and equals the
                       leading bins of the full response (round-off: rtol 1e-9, atol 1e-12)
    C06.hermitian      real bank: full[(W-b) % W] == conj(full[b]) (1e-12)
    C06.analytic_zero  analytic triangular / Fbank: full[b] == 0 for W/2 < b < W
    C06.finite         every value of the three arrays is finite
    C06.same_object    (sessions) the statement ranges over every filter index and DFT width of a bank: a bank OBJECT
                       that has already answered other requests (other widths, in particular pairs whose outputs have
                       the same length -- (2m, half) vs (m+1, full), (2m-1, half) vs (m, full) -- the other filter,
                       the same request before) returns exactly what a freshly built bank returns (A-DET); arrays
                       handed out earlier are neither changed by nor shared with later answers; overwriting a returned
                       array does not change later answers.  All clauses above are evaluated on the reused object's
                       answers.  Case kind {"bank", "filt", "ops": [[width, order(, filter)], ...]}: the widths are
                       visited in that order on one bank object, `order` (a permutation of "tfh") is the order in
                       which truncated / full / half are requested at that width.

Boundary block (first in the enumeration).  The statement is "for every bank, filter index and DFT width of at least 2"
and its quantifier "all constructible banks (types x scales x rates x ranges x flags) ... DFT widths from 2 up to several
thousand, odd and even": banks are also built with EXPLICIT boundary-valued ranges -- low_hz = 0 (or the scale's lowest
admissible value), high_hz exactly at the Nyquist, just below it, and (triangular banks, whose constructor documents a
"1 Hz leeway" above the Nyquist) at Nyquist + {1, 0.5, 0.3, 1e-3} Hz; Fbank / Gabor / gammatone at their documented
maximum sampling_rate // 2 -- on sampling rates 100, 64, 31 (odd: Nyquist 15.5), 8000, 11025, 16000 Hz, with widths
chosen so that a DFT bin falls on / next to the top edge: around rate/(2d) and rate/d for an offset of d Hz (the first odd
/ even widths with a bin inside (Nyquist, Nyquist + d]), rate, rate+1, 2 rate, 2 rate+1 (bins at whole and half Hz), and
2, 3.  Every clause above ("stays within the half spectrum", "equals the leading bins of the full one", "identical for
the compactly supported ...", "vanish on negative frequencies", Hermitian, finite) is evaluated on every filter.
"""
import time
import warnings

import numpy as np

from rtc import _common

PROPERTY = "C06"
ASSUMPTIONS = ["A-REAL", "A-NP-SLICE (the docstring recipe is executed with NumPy slicing)", "A-DET"]


def _mods():
    _common.use_repo()
    import pydrobert.speech.config as config
    import pydrobert.speech.filters as F
    import pydrobert.speech.scales as S

    return F, S, config


def _scale_obj(S, sc):
    name = sc["name"]
    if name == "mel":
        return S.MelScaling()
    if name == "bark":
        return S.BarkScaling()
    if name == "linear":
        return S.LinearScaling(sc["low_hz"], sc.get("slope_hz", 1.0))
    if name == "octave":
        return S.OctaveScaling(sc["low_hz"])
    raise ValueError(name)


def _build(F, S, spec):
    kw = dict(num_filts=spec["num_filts"], low_hz=spec["low_hz"], high_hz=spec["high_hz"], sampling_rate=spec["rate"])
    b = spec["bank"]
    with warnings.catch_warnings():
        warnings.simplefilter("ignore")
        if b == "tri":
            return F.TriangularOverlappingFilterBank(_scale_obj(S, spec["scale"]), analytic=spec.get("analytic", False), **kw)
        if b == "fbank":
            return F.Fbank(analytic=spec.get("analytic", False), **kw)
        if b == "gabor":
            return F.GaborFilterBank(_scale_obj(S, spec["scale"]), scale_l2_norm=spec.get("l2", False), erb=spec.get("erb", False), **kw)
        if b == "gamma":
            return F.ComplexGammatoneFilterBank(
                _scale_obj(S, spec["scale"]),
                order=spec.get("order", 4),
                max_centered=spec.get("max_centered", False),
                scale_l2_norm=spec.get("l2", False),
                erb=spec.get("erb", False),
                **kw,
            )
    raise ValueError(b)


def _half_len(W):
    """Documented length of the half=True response."""
    return W // 2 + 1 if W % 2 == 0 else (W + 1) // 2


def _check(bank, spec, k, W, thr, order="tfh", keep=None):
    """All clauses on one (filter, width).  Returns (failures, nontrivial, info).  `order`: the order in which the
    truncated / full / half responses are requested; `keep` (dict) receives what the library returned."""
    kind = spec["bank"]
    compact = kind in ("tri", "fbank")
    real = compact and not spec.get("analytic", False)
    fails = []
    info = {}
    with warnings.catch_warnings():
        warnings.simplefilter("ignore")
        try:
            got = {}
            for o in order:
                if o == "t":
                    got["t"] = bank.get_truncated_response(k, W)
                elif o == "f":
                    got["f"] = bank.get_frequency_response(k, W)
                else:
                    got["h"] = bank.get_frequency_response(k, W, half=True)
            (st, tr), full, half = got["t"], got["f"], got["h"]
            if keep is not None:
                keep.update(start=st, trunc=tr, full=full, half=half)
        except Exception as e:
            return [("C06.rebuild", f"{type(e).__name__} raised while computing the responses: {e}")], True, info
    tr, full, half = np.asarray(tr), np.asarray(full), np.asarray(half)
    if bool(bank.is_real) != real:
        fails.append(("C06.hermitian", f"is_real is {bank.is_real} for a {'real' if real else 'complex'} bank"))
    if tr.ndim != 1 or full.shape != (W,) or half.ndim != 1:
        return [("C06.rebuild", f"shapes: truncated {tr.shape}, full {full.shape}, half {half.shape} for width {W}")], True, info
    nontrivial = bool(tr.size) and bool(np.any(tr != 0))
    # --- finite ------------------------------------------------------------------------------
    for name, a in (("truncated", tr), ("full", full), ("half", half)):
        if not np.all(np.isfinite(a)):
            fails.append(("C06.finite", f"{name} response has non-finite values (first at index {int(np.flatnonzero(~np.isfinite(a))[0])})"))
            break
    # --- start bin ---------------------------------------------------------------------------
    start_ok = isinstance(st, (int, np.integer)) and not isinstance(st, bool) and 0 <= st < W
    if not start_ok:
        fails.append(("C06.start_bin", f"start bin {st!r} not an integer in [0, {W})"))
    hl = _half_len(W)
    # --- half prefix -------------------------------------------------------------------------
    if len(half) != hl:
        fails.append(("C06.half_prefix", f"half=True response has length {len(half)}, documented {hl} for width {W}"))
    else:
        ref = full[:hl]
        diff = np.abs(half - ref)
        bad = ~(diff <= 1e-12 + 1e-9 * np.abs(ref))
        info["half_exact"] = bool(np.array_equal(half, ref))
        if bad.any():
            j = int(np.flatnonzero(bad)[0])
            fails.append(("C06.half_prefix", f"half=True bin {j} is {half[j]!r}, full response has {full[j]!r}"))
    # --- real banks --------------------------------------------------------------------------
    if real:
        if np.iscomplexobj(full) and np.abs(full.imag).max() > 0 or np.iscomplexobj(tr) and tr.size and np.abs(tr.imag).max() > 0:
            fails.append(("C06.real_half", "a real zero-phase bank returned values with an imaginary part"))
        if start_ok and st + len(tr) > hl:
            fails.append(("C06.real_half", f"truncated response covers bins [{st}, {st + len(tr)}) beyond the half spectrum of length {hl}"))
        mirror = np.conj(full[(-np.arange(W)) % W])
        d = np.abs(full - mirror)
        if not np.all(d <= 1e-12):
            j = int(np.flatnonzero(~(d <= 1e-12))[0])
            fails.append(("C06.hermitian", f"full[{j}] = {full[j]!r} but full[{(-j) % W}] = {full[(-j) % W]!r}"))
    # --- analytic triangular / Fbank ---------------------------------------------------------
    if compact and not real:
        neg = np.arange(W)[2 * np.arange(W) > W]
        if neg.size and np.any(full[neg] != 0):
            j = int(neg[np.flatnonzero(full[neg] != 0)[0]])
            fails.append(("C06.analytic_zero", f"analytic filter has full[{j}] = {full[j]!r} on a negative frequency (width {W})"))
    # --- rebuild by the documented recipe ----------------------------------------------------
    if start_ok:
        bin_idx, trnc, width = int(st), tr, W
        try:
            rebuilt = np.zeros(width, dtype=trnc.dtype)
            if real:
                # >>> full[bin_idx:bin_idx + len(trnc)] = trnc
                # >>> full[width - bin_idx - len(trnc) + 1:width - bin_idx + 1] = trnc[:None if bin_idx else 0:-1].conj()
                rebuilt[bin_idx : bin_idx + len(trnc)] = trnc
                rebuilt[width - bin_idx - len(trnc) + 1 : width - bin_idx + 1] = trnc[: None if bin_idx else 0 : -1].conj()
                # and the half spectrum
                half_width = (width + width % 2) // 2 + 1 - width % 2
                rb_half = np.zeros(half_width, dtype=trnc.dtype)
                rb_half[bin_idx : bin_idx + len(trnc)] = trnc
            else:
                # >>> wrap = min(bin_idx + len(trnc), width) - bin_idx
                # >>> full[bin_idx:bin_idx + wrap] = trnc[:wrap]
                # >>> full[:len(trnc) - wrap] = trnc[wrap:]
                wrap = min(bin_idx + len(trnc), width) - bin_idx
                rebuilt[bin_idx : bin_idx + wrap] = trnc[:wrap]
                rebuilt[: len(trnc) - wrap] = trnc[wrap:]
                rb_half = None
        except Exception as e:
            fails.append(("C06.rebuild", f"the documented recipe cannot be applied (start {st}, len {len(tr)}, width {W}): {type(e).__name__}: {e}"))
        else:
            if compact:
                # "identical": no approximation error -- equal up to round-off (<= 4 ulp) with the same zero pattern
                pairs = [("full", rebuilt, full)]
                if rb_half is not None and len(half) == len(rb_half):
                    pairs.append(("half", rb_half, half))
                for what, a, b in pairs:
                    a, b = np.real(a), np.real(b)
                    info["compact_exact"] = info.get("compact_exact", True) and bool(np.array_equal(a, b))
                    zero_mismatch = (a == 0) != (b == 0)
                    far = ~(np.abs(a - b) <= 4 * np.spacing(np.maximum(np.abs(a), np.abs(b))))
                    if zero_mismatch.any() or far.any():
                        j = int(np.flatnonzero(zero_mismatch | far)[0])
                        fails.append(("C06.rebuild", f"rebuilt {what} spectrum bin {j} = {a[j]!r} differs from get_frequency_response = {b[j]!r} (must be identical: <= 4 ulp, same zeros)"))
                        break
            else:
                err = float(np.abs(rebuilt - full).max())
                info["rebuild_over_thr"] = err / thr
                if not (err <= 2 * thr):
                    j = int(np.argmax(np.abs(rebuilt - full)))
                    fails.append(("C06.rebuild", f"rebuilt response differs from get_frequency_response by {err!r} = {err/thr:.3f} x threshold at bin {j} (allowed 2 x)"))
    seen, out = set(), []
    for c, m in fails:
        if c not in seen:
            seen.add(c)
            out.append((c, m))
    return out, nontrivial, info


def _same(a, b):
    a, b = np.asarray(a), np.asarray(b)
    return a.dtype == b.dtype and a.shape == b.shape and bool(np.array_equal(a, b))


def _check_session(F, S, spec, k0, ops, thr):
    """`ops` = [[width, order(, filter)], ...] visited in this order on ONE bank object; see C06.same_object."""
    bank = _build(F, S, spec)
    ops = [(int(o[0]), str(o[1]) if len(o) > 1 else "tfh", int(o[2]) if len(o) > 2 else int(k0)) for o in ops]
    fails, info = [], {"requests": 3 * len(ops)}
    nontrivial = False
    history, held = [], []

    def hist():
        return ", ".join(f"{o}({k},{W})" for W, o, k in history[-5:]) or "nothing"

    def one(W, order, k, tag=""):
        nonlocal nontrivial
        keep = {}
        f, nt, inf = _check(bank, spec, k, W, thr, order=order, keep=keep)
        nontrivial = nontrivial or nt
        where = f"[visit #{len(history)}{tag}: filter {k}, width {W}, order {order}, after {hist()}]"
        for c, m in f:
            fails.append((c, f"{where} {m}"))
        if "rebuild_over_thr" in inf:
            info["rebuild_over_thr"] = max(info.get("rebuild_over_thr", 0.0), inf["rebuild_over_thr"])
        if keep:
            fresh = {}
            try:
                with warnings.catch_warnings():
                    warnings.simplefilter("ignore")
                    fresh["start"], fresh["trunc"] = _build(F, S, spec).get_truncated_response(k, W)
                    fresh["full"] = _build(F, S, spec).get_frequency_response(k, W)
                    fresh["half"] = _build(F, S, spec).get_frequency_response(k, W, half=True)
            except Exception as e:
                fails.append(("C06.same_object", f"{where} a fresh bank raised {type(e).__name__}: {e}"))
                fresh = {}
            for name in ("start", "trunc", "full", "half"):
                if name in fresh:
                    a, b = np.asarray(keep[name]), np.asarray(fresh[name])
                    if name == "start":
                        ok = int(a) == int(b)
                    else:
                        ok = _same(a, b)
                    if not ok:
                        if a.shape == b.shape and a.ndim == 1 and a.size:
                            j = int(np.argmax(np.abs(a - b)))
                            diff = f"index {j}: {a[j]!r} vs {b[j]!r}"
                        else:
                            diff = f"shape/dtype {a.shape}/{a.dtype} vs {b.shape}/{b.dtype}, values {a!r:.50} vs {b!r:.50}"
                        fails.append(("C06.same_object", f"{where} the {name} response differs from that of a freshly built bank ({diff})"))
                        break
            for name in ("trunc", "full", "half"):
                a = keep[name]
                if isinstance(a, np.ndarray) and a.ndim == 1:
                    held.append((f"{name}({k},{W}) #{len(history)}", a, a.copy()))
        history.append((W, order, k))

    for W, order, k in ops:
        one(W, order, k)
        if len(fails) > 8:
            break
    for d, a, c in held:
        if not _same(a, c):
            fails.append(("C06.same_object", f"the array returned by {d} was changed by a later call"))
            break
    clash = None
    for i in range(len(held)):
        for j in range(i + 1, len(held)):
            if np.may_share_memory(held[i][1], held[j][1]) and np.shares_memory(held[i][1], held[j][1]):
                clash = (held[i][0], held[j][0])
                break
        if clash:
            fails.append(("C06.same_object", f"the arrays returned by {clash[0]} and {clash[1]} share memory"))
            break
    if len(fails) <= 8:
        for d, a, c in held:
            if a.flags.writeable:
                a[...] = np.nan if a.dtype.kind in "fc" else 0
        seen = []
        for o in ops:
            if (o[0], o[2]) not in [(x[0], x[2]) for x in seen]:
                seen.append(o)
        for W, order, k in seen[:8]:
            one(W, order, k, tag=" (after the returned arrays were overwritten)")
    seen, out = set(), []
    for c, m in fails:
        if c not in seen:
            seen.add(c)
            out.append((c, m))
    return out, nontrivial, info


def _shrink_session(case, clause, run_case, budget_s=3.0):
    """Smallest request list (shortest failing prefix, then greedy removal of single requests) on which `clause`
    still fails; run_case(case) -> {clause: message}.  Returns (case, message) or (case, None) if not reproducible."""
    t0 = time.time()
    ops = list(case["ops"])

    def bad(o):
        return clause in run_case(dict(case, ops=o))

    lo, hi = 1, len(ops)
    while lo < hi and time.time() - t0 < budget_s:
        mid = (lo + hi) // 2
        if bad(ops[:mid]):
            hi = mid
        else:
            lo = mid + 1
    ops = ops[:hi]
    j = len(ops) - 2
    while j >= 0 and time.time() - t0 < budget_s:
        cand = ops[:j] + ops[j + 1 :]
        if bad(cand):
            ops = cand
        j -= 1
    small = dict(case, ops=ops)
    msg = run_case(small).get(clause)
    return (small, msg) if msg is not None else (case, None)


_ORDERS = ["tfh", "thf", "fth", "fht", "htf", "hft"]


def _session_ops(rng, ms, k, k2=None, tail=6):
    """Widths 2m, m+1 (the half response of the first is as long as the full one of the second) and 2m-1, m, in both
    directions, with repeats and seeded request orders; a second filter in between; earlier visits again at the end."""
    ops = []
    for i, m in enumerate(ms):
        m = int(m)
        seq = [2 * m, m + 1, 2 * m] + ([2 * m - 1, m, 2 * m - 1] if m >= 3 else [])
        if i % 2:
            seq = [m + 1, 2 * m, m + 1] + ([m, 2 * m - 1, m] if m >= 3 else [])
        for j, W in enumerate(seq):
            # half first on the long width, full first on the short one (and the seeded rest)
            order = ("hft" if W >= 2 * m - 1 else "fth") if j < 2 else _ORDERS[int(rng.integers(6))]
            ops.append([W, order, k])
            if k2 is not None and k2 != k and j == 0:
                ops.append([W, _ORDERS[int(rng.integers(6))], k2])
    distinct = []
    for o in ops:
        if [o[0], o[2]] not in [[x[0], x[2]] for x in distinct]:
            distinct.append(o)
    ops += [[distinct[i][0], _ORDERS[int(rng.integers(6))], distinct[i][2]] for i in rng.permutation(len(distinct))[:tail]]
    return [o for o in ops if o[0] >= 2]


def replay(case):
    F, S, config = _mods()
    thr = float(config.EFFECTIVE_SUPPORT_THRESHOLD)
    try:
        bank = _build(F, S, case["bank"])
    except Exception as e:
        return False, f"C06.rebuild: constructor raised {type(e).__name__}: {e}"
    if case.get("ops") is not None:
        fails, nontrivial, info = _check_session(F, S, case["bank"], int(case["filt"]), case["ops"], thr)
        if fails:
            return False, "; ".join(f"{c}: {m}" for c, m in fails)
        return True, f"holds ({'non-trivial' if nontrivial else 'empty filter at these widths'}; {info})"
    fails, nontrivial, info = _check(bank, case["bank"], int(case["filt"]), int(case["width"]), thr)
    if fails:
        return False, "; ".join(f"{c}: {m}" for c, m in fails)
    return True, f"holds ({'non-trivial' if nontrivial else 'empty filter at this width'}; {info})"


# ----------------------------------------------------------------------------------------------
# enumeration
# ----------------------------------------------------------------------------------------------

SCALES = [{"name": "mel"}, {"name": "bark"}, {"name": "linear", "low_hz": 0.0, "slope_hz": 1.0}, {"name": "octave", "low_hz": 20.0}]
SMALL_WIDTHS = list(range(2, 65))
BIG_WIDTHS = [127, 128, 129, 255, 256, 257, 1000, 4096]


def _flag_sets(bank):
    if bank in ("tri", "fbank"):
        return [{"analytic": False}, {"analytic": True}]
    if bank == "gabor":
        return [{"erb": e, "l2": l} for e in (False, True) for l in (False, True)]
    return [{"order": o, "max_centered": mc, "erb": e, "l2": l} for o in (4, 1, 2, 6) for mc in (False, True) for e in (False, True) for l in (False, True)]


def _grid(tier):
    rates = [8000, 16000] if tier == "quick" else [8000, 16000, 44100]
    nums = [5, 11, 1, 2] if tier == "quick" else [1, 2, 5, 11, 40]
    for bank in ("gabor", "gamma", "tri", "fbank"):
        for scale in SCALES if bank != "fbank" else [{"name": "mel"}]:
            floor = scale["low_hz"] if scale["name"] == "octave" else 0.0
            for rate in rates:
                for n in nums:
                    for low, high in ((floor, None), (max(20.0, floor), None), (max(300.0, floor), 3400.0)):
                        for flags in _flag_sets(bank):
                            spec = {"bank": bank, "scale": scale, "num_filts": n, "rate": rate, "low_hz": low, "high_hz": high}
                            spec.update(flags)
                            yield spec


BOUNDARY_RATES = [100, 8000, 31, 16000, 64, 11025]
TRI_TOP_OFFSETS = [1.0, 0.5, 0.3, None, 0.0, 1e-3, -0.5]  # high_hz - Nyquist; > 0: inside the documented 1 Hz leeway


def _boundary_widths(rate, d, cap):
    """odd and even widths at which a DFT bin falls on / next to the top edge Nyquist + d (see the module docstring)"""
    r = int(rate)
    ws = [r, r + 1, 2 * r, 2 * r + 1, r // 2, r // 2 + 1, 2, 3]
    if d is not None and d > 0:
        t = int(np.ceil(rate / (2.0 * d)))
        ws = list(range(t - 1, t + 3)) + list(range(2 * t - 1, 2 * t + 3)) + ws
    out = []
    for W in ws:
        if 2 <= W <= cap and W not in out:
            out.append(W)
    return out


def _boundary_specs(tier):
    """(spec, widths): explicit boundary-valued low_hz / high_hz; cheap and most discriminating first"""
    n = 3
    lin = {"name": "linear", "low_hz": 0.0, "slope_hz": 1.0}
    for rate in BOUNDARY_RATES:
        nyq = rate / 2.0
        for scale in [{"name": "mel"}, lin, {"name": "bark"}, {"name": "octave", "low_hz": 20.0 if rate > 100 else 2.0}]:
            floor = scale["low_hz"] if scale["name"] == "octave" else 0.0
            for analytic in (False, True):
                for d in TRI_TOP_OFFSETS:
                    high = None if d is None else nyq + d
                    spec = {"bank": "tri", "scale": scale, "num_filts": n, "rate": rate, "low_hz": floor, "high_hz": high, "analytic": analytic}
                    yield spec, _boundary_widths(rate, d, 17000 if tier == "quick" else 40000)
        # the other classes document high_hz <= sampling_rate // 2 as their largest admissible value
        top = float(rate // 2)
        for analytic in (False, True):
            for high in (top, None, top - 0.5):
                yield {"bank": "fbank", "scale": {"name": "mel"}, "num_filts": n, "rate": rate, "low_hz": 0.0, "high_hz": high, "analytic": analytic}, _boundary_widths(rate, None, 17000)
        if rate <= 100:
            for scale in [{"name": "mel"}, lin]:
                for high in (top, None):
                    yield {"bank": "gabor", "scale": scale, "num_filts": n, "rate": rate, "low_hz": 0.0, "high_hz": high, "erb": False, "l2": False}, _boundary_widths(rate, None, 260)
                    yield {"bank": "gamma", "scale": scale, "num_filts": n, "rate": rate, "low_hz": 0.0, "high_hz": high, "order": 4, "max_centered": False, "erb": False, "l2": False}, _boundary_widths(rate, None, 260)


def _interleave(grid, perm):
    by = {}
    for i in perm:
        by.setdefault(grid[i]["bank"], []).append(int(i))
    out, j = [], 0
    lists = list(by.values())
    while any(j < len(l) for l in lists):
        for l in lists:
            if j < len(l):
                out.append(l[j])
        j += 1
    return out


def _random_spec(rng):
    bank = ["tri", "fbank", "gabor", "gamma"][int(rng.integers(4))]
    rate = [8000, 11025, 16000, 22050, 44100][int(rng.integers(5))]
    if bank == "fbank":
        scale = {"name": "mel"}
    else:
        scale = [
            {"name": "mel"},
            {"name": "bark"},
            {"name": "linear", "low_hz": float(np.round(rng.uniform(-200, 200), 3)), "slope_hz": float(np.round(10 ** rng.uniform(-2, 1), 4))},
            {"name": "octave", "low_hz": float(np.round(10 ** rng.uniform(0, 2), 3))},
        ][int(rng.integers(4))]
    floor = scale["low_hz"] if scale["name"] == "octave" else 0.0
    top = float(rate // 2)
    low = float(np.round(rng.uniform(floor, 0.4 * top), 3)) if rng.integers(3) else floor
    high = float(np.round(rng.uniform(low + 0.2 * top, top), 3)) if rng.integers(3) else top
    spec = {"bank": bank, "scale": scale, "num_filts": int(rng.integers(1, 24)), "rate": rate, "low_hz": low, "high_hz": high}
    if bank in ("tri", "fbank"):
        spec["analytic"] = bool(rng.integers(2))
    else:
        spec.update(erb=bool(rng.integers(2)), l2=bool(rng.integers(2)))
        if bank == "gamma":
            spec.update(order=int(rng.integers(1, 8)), max_centered=bool(rng.integers(2)))
    return spec


def run(tier, seed):
    F, S, config = _mods()
    thr = float(config.EFFECTIVE_SUPPORT_THRESHOLD)
    quick = tier == "quick"
    col = _common.Collector(PROPERTY, tier, seed, budget_s=48 if quick else 560)
    rng = _common.make_rng(seed, "c06")
    worst = {}
    dup = {}
    counts = {"banks": 0, "inexact_half": 0}

    def do(bank, spec, k, W):
        case = {"bank": spec, "filt": k, "width": W}
        fails, nontrivial, info = _check(bank, spec, k, W, thr)
        col.case(case, nontrivial=nontrivial, sample=case if (nontrivial and col.evaluations % 499 == 0) else None)
        for clause, msg in fails:
            key = (clause, spec["bank"])
            dup[key] = dup.get(key, 0) + 1
            if dup[key] <= 2:
                rng_txt = f"low_hz={spec['low_hz']!r}, high_hz={spec['high_hz']!r} (Nyquist {spec['rate'] / 2.0!r})"
                col.fail(clause, case, f"[{spec['bank']}{' analytic' if spec.get('analytic') else ''} {spec['scale']['name']}, rate {spec['rate']}, {rng_txt}, filter {k} of {spec['num_filts']}, width {W}] {msg}")
        if "rebuild_over_thr" in info:
            worst[spec["bank"]] = max(worst.get(spec["bank"], 0.0), info["rebuild_over_thr"])
        if info.get("half_exact") is False:
            counts["inexact_half"] += 1
        if "compact_exact" in info:
            ce = counts.setdefault("compact_" + spec["bank"], [0, 0])
            ce[0] += 1
            ce[1] += bool(info["compact_exact"])

    def bank_of(spec):
        try:
            return _build(F, S, spec)
        except Exception as e:
            col.case({"bank": spec, "filt": -1, "width": 0}, nontrivial=True)
            col.fail("C06.rebuild", {"bank": spec, "filt": 0, "width": 2}, f"constructor raised {type(e).__name__}: {e}")
            return None

    grid = list(_grid(tier))
    order = _interleave(grid, rng.permutation(len(grid)))
    # a fixed core first: wrap-around below 0 (low_hz = 0), every bank class, both parities
    core = []
    for bank, flags in (
        ("gabor", {"erb": False, "l2": False}),
        ("gamma", {"order": 4, "max_centered": True, "erb": False, "l2": False}),
        ("tri", {"analytic": False}),
        ("fbank", {"analytic": False}),
        ("tri", {"analytic": True}),
        ("fbank", {"analytic": True}),
        ("gamma", {"order": 1, "max_centered": False, "erb": True, "l2": True}),
        ("gabor", {"erb": True, "l2": True}),
    ):
        spec = {"bank": bank, "scale": {"name": "mel"}, "num_filts": 5, "rate": 8000, "low_hz": 0.0, "high_hz": None}
        spec.update(flags)
        core.append(spec)
    # one or two filters over the whole band: support wider than the period (whole-period fallback of
    # get_truncated_response and its neighbourhood)
    for n, scale in ((1, {"name": "linear", "low_hz": 0.0, "slope_hz": 1.0}), (2, {"name": "mel"}), (1, {"name": "mel"}), (2, {"name": "linear", "low_hz": 0.0, "slope_hz": 1.0})):
        core.append({"bank": "gabor", "scale": scale, "num_filts": n, "rate": 8000, "low_hz": 0.0, "high_hz": None, "erb": False, "l2": n == 2})
        core.append({"bank": "gamma", "scale": scale, "num_filts": n, "rate": 8000, "low_hz": 0.0, "high_hz": None, "order": 4 if n == 1 else 2, "max_centered": n == 2, "erb": False, "l2": False})
    for n, o in ((5, 4), (3, 6), (8, 3)):  # gammatone supports between one and two periods
        core.append({"bank": "gamma", "scale": {"name": "linear", "low_hz": 0.0, "slope_hz": 1.0}, "num_filts": n, "rate": 8000, "low_hz": 0.0, "high_hz": None, "order": o, "max_centered": False, "erb": False, "l2": False})
    specs = core + [grid[i] for i in order]
    # phase B: explicit boundary-valued ranges with widths that put a bin on / next to the top edge
    t_b = time.time()
    bnd_budget = 5 if quick else 60
    n_bnd = n_bnd_banks = n_bnd_top = n_bnd_leeway = 0
    for spec, widths in _boundary_specs(tier):
        if time.time() - t_b > bnd_budget or col.too_many_failures():
            break
        bank = bank_of(spec)
        if bank is None:
            continue
        n_bnd_banks += 1
        nyq = spec["rate"] / 2.0
        for W in widths:
            for k in range(spec["num_filts"]):
                do(bank, spec, k, W)
                n_bnd += 1
            # a bin of this width lies in (Nyquist, high_hz]: only the clamp to the Nyquist keeps it out of the last filter
            if spec["high_hz"] is not None and spec["high_hz"] > nyq and int(W * spec["high_hz"] / spec["rate"]) > W // 2:
                n_bnd_leeway += 1
            if (W // 2) * spec["rate"] / W > nyq - 1.0:
                n_bnd_top += 1
    t_bnd = time.time() - t_b
    # phase 0: sessions -- one bank object answers many requests in varied orders (see C06.same_object)
    t_s = time.time()
    sess_budget = 5 if quick else 60
    n_sess = n_sess_visits = 0
    for i_spec, spec in enumerate(specs):
        if time.time() - t_s > sess_budget or col.too_many_failures():
            break
        if bank_of(spec) is None:
            continue
        n = spec["num_filts"]
        k = int(rng.integers(n))
        k2 = int(rng.integers(n)) if n > 1 else None
        ms = [(256, 64, 128, 32)[i_spec % 4], int(rng.integers(3, 200)), int(rng.integers(2, 24))]
        ops = _session_ops(rng, ms, k, k2=k2)
        case = {"bank": spec, "filt": k, "ops": ops}
        fails, nontrivial, info = _check_session(F, S, spec, k, ops, thr)
        n_sess += 1
        n_sess_visits += len(ops)
        col.case(case, nontrivial=nontrivial, sample=case if n_sess == 1 else None)
        for clause, msg in fails:
            key = (clause, spec["bank"])
            dup[key] = dup.get(key, 0) + 1
            if dup[key] <= 2:
                small, m = _shrink_session(case, clause, lambda c: dict(_check_session(F, S, c["bank"], c["filt"], c["ops"], thr)[0]))
                if m is not None and len(small["ops"]) == 1:
                    # not a matter of history: report the plain (filter, width) case if it fails on its own
                    o = small["ops"][0]
                    plain = {"bank": spec, "filt": int(o[2]) if len(o) > 2 else k, "width": int(o[0])}
                    pf = dict(_check(_build(F, S, spec), spec, plain["filt"], plain["width"], thr)[0])
                    if clause in pf:
                        small, m = plain, pf[clause]
                col.fail(clause, small, m if m is not None else msg)
        if "rebuild_over_thr" in info:
            worst[spec["bank"]] = max(worst.get(spec["bank"], 0.0), info["rebuild_over_thr"])
    # phase 1: small widths (2..64) on as many banks as the budget allows; phase 2: big widths
    t0 = time.time()
    small_budget = 30 if quick else 330
    visited = []
    for n_spec, spec in enumerate(specs):
        if time.time() - t0 > small_budget or col.too_many_failures():
            break
        if n_spec >= len(core) and n_spec % 5 == 4:
            spec = _random_spec(rng)  # seeded random configurations are mixed into the grid walk
        bank = bank_of(spec)
        if bank is None:
            continue
        visited.append(spec)
        counts["banks"] += 1
        n = spec["num_filts"]
        filts = range(n) if (not quick or n <= 11) else sorted({0, 1, n // 2, n - 2, n - 1})
        for k in filts:
            for W in SMALL_WIDTHS:
                do(bank, spec, k, W)
    n_big = 0
    for spec in visited:
        if col.out_of_time() or col.too_many_failures():
            break
        bank = bank_of(spec)
        n = spec["num_filts"]
        n_big += 1
        for W in BIG_WIDTHS:
            if W == 4096 and spec["bank"] == "gabor" and quick and n_big > 4:
                continue  # Gabor responses are evaluated bin by bin in Python
            for k in range(n) if n <= 11 else sorted({0, 1, n // 2, n - 2, n - 1}):
                do(bank, spec, k, W)
            if col.out_of_time():
                break
    extra = {k: v - 2 for k, v in dup.items() if v > 2}
    if extra:
        col.note("further failing cases not listed (same clause and bank class): " + ", ".join(f"{c}/{b}: {v}" for (c, b), v in sorted(extra.items())))
    col.note("worst rebuild error / threshold (allowed 2): " + ", ".join(f"{k} {v:.4f}" for k, v in sorted(worst.items())))
    col.note(
        "triangular / Fbank rebuild, bit-identical cases / cases: "
        + ", ".join(f"{k[8:]} {v[1]}/{v[0]}" for k, v in sorted(counts.items()) if k.startswith("compact_"))
        + " (the rest differ by <= 4 ulp: scalar `** 0.5` vs array `** 0.5`)"
    )
    col.note(
        f"boundary block: {n_bnd} (filter, width) cases on {n_bnd_banks} banks with explicit low_hz at 0 / the scale's lowest value and high_hz at the Nyquist, "
        f"just below, and (triangular) inside the documented 1 Hz leeway above it, rates {BOUNDARY_RATES}; {n_bnd_top} (bank, width) pairs have a bin within 1 Hz "
        f"of the Nyquist, {n_bnd_leeway} have a bin strictly inside (Nyquist, high_hz]; {t_bnd:.1f} s of {bnd_budget} s"
    )
    col.note(f"sessions (one bank object, many widths / request orders, each answer also compared with a fresh bank): {n_sess} with {n_sess_visits} (filter, width) visits in {sess_budget} s")
    col.note(f"banks visited: {counts['banks']} with widths 2..64, {n_big} of them also with {BIG_WIDTHS}; half=True prefix not bit-identical in {counts['inexact_half']} cases")
    return col.result(
        rule="one case per (bank configuration, filter index, DFT width); all clauses are checked on each; non-trivial when the truncated response has at least one non-zero value at that width; plus one case per session (bank configuration, filter, list of (width, request order[, filter]) visited on one bank object)",
        bound=(
            f"BOUNDED ({tier}): grid 4 banks x 4 scales x rates {'{8k,16k}' if quick else '{8k,16k,44.1k}'} x num_filts {'{1,2,5,11}' if quick else '{1,2,5,11,40}'} x 3 ranges "
            f"(incl. low_hz = 0 -> wrap below 0) x flags ({len(grid)} configurations, visited in seeded class-interleaved order within the time budget, every 5th "
            f"replaced by a seeded random configuration), all filters (n <= 11; ends and middle otherwise), widths 2..64 and then {BIG_WIDTHS}; "
            f"first of all a boundary block (<= {bnd_budget} s): triangular banks x 4 scales x real/analytic x rates {BOUNDARY_RATES} x explicit high_hz = Nyquist + {TRI_TOP_OFFSETS} Hz (None = default) with low_hz = 0, "
            f"Fbank / Gabor / gammatone with high_hz = rate//2, all 3 filters, widths around rate/(2d), rate/d, rate, 2 rate, rate/2 (+1), 2, 3 (<= 17000; <= 260 and rates <= 100 for Gabor / gammatone); "
            f"before the grid {sess_budget} s of sessions on the same walk (one bank object, widths 2m, m+1, 2m-1, m for m in {{32, 64, 128, 256}} and two seeded m < 200, seeded request orders, two filters)"
        ),
        assumptions=ASSUMPTIONS,
    )


if __name__ == "__main__":
    import sys

    from rtc import _common

    _common.main(sys.modules[__name__])

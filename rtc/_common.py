"""Shared helpers for the bounded stand-ins (rtc/cNN.py).

Interface every stand-in module implements
------------------------------------------
PROPERTY = "C05"

def run(tier: str, seed: int) -> dict
    tier is "quick" or "thorough". Returns Collector.result(...), i.e. a dict with keys
      evaluations          int   cases executed against the real code
      distinct_nontrivial  int   measured: distinct cases that are non-trivial by `rule`
      rule                 str   how cases are enumerated / what makes one non-trivial
      bound                str   the bound of this run in words (this is a BOUNDED check)
      samples              list  a few of the actual cases, written out
      failures             list  of {"clause": str, "case": <json>, "message": str}
      assumptions          list  of assumption ids / sentences
      wall_s               float
    An empty `failures` list means the property held on everything explored.

def replay(case: dict) -> (ok: bool, message: str)
    Re-runs ONE case (the json stored under failures[i]["case"], or one built from a
    solver model) against the real code; ok=True when the property holds on it.

The tree under check is $VERIF_REPO (default /repo); call use_repo() before importing
pydrobert.speech so that a scratch worktree can be checked without touching /repo.
"""
import hashlib
import json
import os
import sys
import time

import numpy as np


def repo_path() -> str:
    return os.environ.get("VERIF_REPO", "/repo")


def use_repo() -> str:
    """Put $VERIF_REPO/src first on sys.path (namespace package pydrobert.speech then
    resolves to that tree) and return the repo path."""
    src = os.path.join(repo_path(), "src")
    if sys.path[0] != src:
        if src in sys.path:
            sys.path.remove(src)
        sys.path.insert(0, src)
    sys.dont_write_bytecode = True
    mod = sys.modules.get("pydrobert.speech")
    if mod is not None:
        got = os.path.realpath(os.path.dirname(mod.__file__))
        want = os.path.realpath(os.path.join(src, "pydrobert", "speech"))
        if got != want:
            raise RuntimeError(f"pydrobert.speech already imported from {got}, wanted {want}")
    return repo_path()


def make_rng(seed: int, salt: str = "") -> np.random.Generator:
    h = int(hashlib.sha256(f"{seed}:{salt}".encode()).hexdigest()[:16], 16)
    return np.random.default_rng(h)


def jsonable(x):
    if isinstance(x, dict):
        return {str(k): jsonable(v) for k, v in x.items()}
    if isinstance(x, (list, tuple)):
        return [jsonable(v) for v in x]
    if isinstance(x, np.ndarray):
        return jsonable(x.tolist())
    if isinstance(x, (np.integer,)):
        return int(x)
    if isinstance(x, (np.floating,)):
        return float(x)
    if isinstance(x, (np.bool_,)):
        return bool(x)
    if isinstance(x, (np.dtype, type)):
        return str(x)
    if isinstance(x, complex):
        return [x.real, x.imag]
    if isinstance(x, bytes):
        return {"hex": x.hex()}
    return x


KNOWN_FINDINGS_FILE = os.path.join(os.path.dirname(os.path.dirname(os.path.abspath(__file__))), "known_findings.json")


def load_known_findings(prop: str):
    """Open (unrepaired) findings of `prop`, minus those the driver disabled because their
    witness no longer fails (env VERIF_KF_DISABLE=id1,id2)."""
    try:
        data = json.load(open(KNOWN_FINDINGS_FILE))
    except (IOError, ValueError):
        return []
    off = set(filter(None, os.environ.get("VERIF_KF_DISABLE", "").split(",")))
    return [f for f in data.get("findings", []) if f.get("property") == prop and f.get("status") == "open" and f["id"] not in off]


def region_matches(region, case) -> bool:
    """`region` is a Python expression over the keys of the (json) case dict."""
    if not region or not isinstance(case, dict):
        return False
    try:
        return bool(eval(region, {"__builtins__": {}}, dict(case)))
    except Exception:
        return False


class Collector:
    """Counts evaluations / distinct non-trivial cases, keeps samples and failures."""

    def __init__(self, prop: str, tier: str, seed: int, budget_s: float = None, max_failures: int = 25):
        self.prop, self.tier, self.seed = prop, tier, seed
        self.t0 = time.time()
        self.budget_s = budget_s
        self.evaluations = 0
        self._distinct = set()
        self.samples = []
        self.failures = []
        self.max_failures = max_failures
        self.notes = []
        self.known_hits = {}
        self._known = load_known_findings(prop)

    # -- bookkeeping -------------------------------------------------------------------
    def out_of_time(self) -> bool:
        return self.budget_s is not None and (time.time() - self.t0) > self.budget_s

    def too_many_failures(self) -> bool:
        return len(self.failures) >= self.max_failures

    def case(self, key, nontrivial: bool = True, sample=None):
        """Record one executed case. `key` (json-able) identifies it for distinctness."""
        self.evaluations += 1
        if nontrivial:
            k = hashlib.sha1(json.dumps(jsonable(key), sort_keys=True, default=str).encode()).hexdigest()
            self._distinct.add(k)
        if sample is not None and len(self.samples) < 5:
            self.samples.append(jsonable(sample))

    def fail(self, clause: str, case, message: str):
        """Record a violation. A case inside the region of an OPEN known finding (see
        /verif/known_findings.json) is tallied under known_hits instead; the driver prints
        the KNOWN-FINDING line after replaying the finding's witness."""
        jc = jsonable(case)
        for kf in self._known:
            if region_matches(kf.get("standin_region"), jc):
                self.known_hits[kf["id"]] = self.known_hits.get(kf["id"], 0) + 1
                return
        if len(self.failures) < self.max_failures:
            self.failures.append({"clause": clause, "case": jsonable(case), "message": str(message)[:500]})

    def note(self, text: str):
        self.notes.append(text)

    def result(self, rule: str, bound: str, assumptions=()):
        return {
            "property": self.prop,
            "tier": self.tier,
            "seed": self.seed,
            "evaluations": self.evaluations,
            "distinct_nontrivial": len(self._distinct),
            "rule": rule,
            "bound": bound,
            "samples": self.samples,
            "failures": self.failures,
            "known_hits": self.known_hits,
            "assumptions": list(assumptions),
            "notes": self.notes,
            "wall_s": round(time.time() - self.t0, 3),
        }


def main(module):
    """`python -m rtc.cNN [quick|thorough] [seed]` or `python -m rtc.cNN --replay file.json`."""
    import argparse

    ap = argparse.ArgumentParser()
    ap.add_argument("tier", nargs="?", default="quick")
    ap.add_argument("seed", nargs="?", type=int, default=int(os.environ.get("VERIF_SEED", "0")))
    ap.add_argument("--replay")
    a = ap.parse_args()
    if a.replay:
        case = json.load(open(a.replay))
        case = case.get("case", case)
        ok, msg = module.replay(case)
        print(("HOLDS " if ok else "FAILS ") + msg)
        sys.exit(0 if ok else 1)
    res = module.run(a.tier, a.seed)
    brief = {k: v for k, v in res.items() if k not in ("samples",)}
    print(json.dumps(brief, indent=1)[:6000])
    sys.exit(1 if res["failures"] else 0)

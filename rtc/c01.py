"""Bounded stand-in for property C01: chunked streaming equals whole-signal computation.

Statement (properties.jsonl): for any STFT computer with frame shift <= frame length and any
short-integration (SI) computer whose frame shift is shorter than its longest filter's
one-sided support, any float signal and any way of cutting it into consecutive chunks
(empty and single-sample chunks included), concatenating compute_chunk over the chunks
followed by finalize() gives the same feature matrix (same number of frames, same values up
to round-off) as compute_full on the whole signal; consequently frame_by_frame_calculation
returns the same matrix for every chunk_size.

The property is a relation between two executions of the real code, so the "oracle" is the
relation itself, written here directly: both sides are run (on separate instances), shapes
are compared exactly and values with the property's tolerance.  For the STFT computer the
frames handed to `_compute_frame` are additionally recorded in both runs (instance-level
wrapper, no repository edit) and compared exactly: tiny DFTs make the mel filters empty, so
without this (and the energy coefficient) the frame contents would be unobserved.

Clauses
  C01.stft.frame_count   chunked run and compute_full return the same number of rows/cols
  C01.stft.frames        the frames given to _compute_frame are identical, in order
  C01.stft.values        feature values agree (float64 rtol 1e-9 + atol 1e-12; float32 1e-6)
                         - also for single-precision signals whose accuracy depends on WHERE
                         precision is lost (see "Precision section" below)
  C01.si.frame_count / C01.si.values   same for the short-integration computer
  C01.fbf.frame_count / C01.fbf.frames / C01.fbf.values
                         frame_by_frame_calculation(chunk_size=k) against compute_full
  C01.dtype              the chunked result has the dtype of compute_full's result
  C01.no_exception       neither side raises
  C01.state_leak         (diagnostic) a cached instance fails where fresh instances pass

Precision section ("any float signal ... same values up to floating-point round-off ... as
compute_full"; "frame_by_frame_calculation returns the same matrix for every chunk_size").
"Any float signal" includes float32 signals, and includes signals that are nothing like
noise. Both computers convert the samples to float64 (exactly) and do all arithmetic in
float64; the float32 result is rounded when it is stored (and, with use_log, passed through
a float32 log). Two ways of cutting the same float32 signal can therefore differ by a couple
of float32 ulps (2**-23 ~ 1.2e-7 relative), which is what "round-off" means here; the
tolerance for float32 stays the module's 1e-6 * (1 + |value|), about 8 ulps. On Gaussian
noise every band holds energy and even a computation carried out partly in single
precision stays inside that; it does not on large-amplitude, spectrally sparse signals (a
hum, two close tones, a DC offset with a small tone, a narrow band), where most filters see
next to nothing and a single-precision noise floor (1e-7 of the peak) dominates them. A
streamed computer has two routes for a sample - chunks longer than its transform block
(SI: the DFT size, STFT: the frame length) are sliced directly, shorter ones go through a
float64 history buffer - so the section streams such signals with chunk lengths on both
sides of that block (B//4, B-1, B+1, 2B+3, long-then-short, short-then-long; two of them via
frame_by_frame_calculation) for both computers and compares with compute_full.
"""
import time
import warnings

import numpy as np

from rtc import _common

PROPERTY = "C01"

ASSUMPTIONS = [
    "A-REAL (round-off is measured, tolerance rtol 1e-9/atol 1e-12 float64, 1e-6 float32)",
    "A-DET",
    "A-NP-PAD",
    "A-NP-SLICE",
    "A-NP-CAT",
    "A-FFT",
]

RTOL = {"float64": 1e-9, "float32": 1e-6}
ATOL = {"float64": 1e-12, "float32": 1e-6}

DEFAULTS = {
    "dtype": "float64",
    "include_energy": True,
    "pad_to_nearest_power_of_two": False,
    "window": None,
    "use_log": True,
    "use_power": False,
    "via": "chunks",
    "fbf_chunk_size": None,
    "signal": None,
}


# ----------------------------------------------------------------------------------------
# building the objects of a case
# ----------------------------------------------------------------------------------------
def _bank(name, rate):
    from pydrobert.speech import filters as F

    if name == "fbank3":
        return F.Fbank(num_filts=3, sampling_rate=rate)
    if name == "fbank1":
        return F.Fbank(num_filts=1, sampling_rate=rate)
    if name == "fbank10":
        return F.Fbank(num_filts=10, sampling_rate=rate)
    if name == "tri3":
        return F.TriangularOverlappingFilterBank("mel", num_filts=3, sampling_rate=rate)
    if name == "tri8":
        return F.TriangularOverlappingFilterBank("mel", num_filts=8, sampling_rate=rate)
    if name == "tri8a":
        return F.TriangularOverlappingFilterBank("mel", num_filts=8, sampling_rate=rate, analytic=True)
    if name == "gabor3":
        return F.GaborFilterBank("mel", num_filts=3, sampling_rate=rate)
    if name == "gabor8":
        return F.GaborFilterBank("mel", num_filts=8, sampling_rate=rate)
    if name == "gabor20":
        return F.GaborFilterBank("mel", num_filts=20, sampling_rate=rate)
    if name == "gamma3":
        return F.ComplexGammatoneFilterBank("mel", num_filts=3, sampling_rate=rate)
    if name == "gamma8":
        return F.ComplexGammatoneFilterBank("mel", num_filts=8, sampling_rate=rate)
    if name == "gamma20":
        return F.ComplexGammatoneFilterBank("bark", num_filts=20, sampling_rate=rate)
    raise ValueError("unknown bank " + str(name))


def _full_case(case):
    c = dict(DEFAULTS)
    c.update(case)
    if c["computer"] == "si":
        c["kaldi_shift"] = False
    return c


def _config_key(case):
    return (
        case["computer"], case["frame_style"], bool(case["kaldi_shift"]), case.get("frame_length"),
        case["frame_shift"], case["sampling_rate"], case["bank"], case["include_energy"],
        case["pad_to_nearest_power_of_two"], case["window"], case["use_log"], case["use_power"],
    )


def _build(case):
    """A new computer for the (completed) case. Raises RuntimeError when the case's integer
    frame length / shift cannot be realised."""
    from pydrobert.speech import compute

    rate = case["sampling_rate"]
    s = int(case["frame_shift"])
    shift_ms = (s + 0.5) * 1000.0 / rate
    with warnings.catch_warnings():
        warnings.simplefilter("ignore")
        bank = _bank(case["bank"], rate)
        if case["computer"] == "stft":
            L = int(case["frame_length"])
            comp = compute.ShortTimeFourierTransformFrameComputer(
                bank,
                frame_length_ms=(L + 0.5) * 1000.0 / rate,
                frame_shift_ms=shift_ms,
                frame_style=case["frame_style"],
                include_energy=case["include_energy"],
                pad_to_nearest_power_of_two=case["pad_to_nearest_power_of_two"],
                window_function=case["window"],
                use_log=case["use_log"],
                use_power=case["use_power"],
                kaldi_shift=bool(case["kaldi_shift"]),
            )
            if comp.frame_length != L:
                raise RuntimeError("frame_length %r != %r" % (comp.frame_length, L))
        elif case["computer"] == "si":
            comp = compute.ShortIntegrationFrameComputer(
                bank,
                frame_shift_ms=shift_ms,
                frame_style=case["frame_style"],
                include_energy=case["include_energy"],
                pad_to_nearest_power_of_two=case["pad_to_nearest_power_of_two"],
                window_function=case["window"],
                use_power=case["use_power"],
                use_log=case["use_log"],
            )
        else:
            raise ValueError("unknown computer " + str(case["computer"]))
    if comp.frame_shift != s:
        raise RuntimeError("frame_shift %r != %r" % (comp.frame_shift, s))
    return comp


def _si_one_sided_support(bank, style):
    """The hypothesis' 'longest filter's one-sided support', from the bank's temporal
    supports (not from the computer): causal - the furthest sample after time zero of any
    filter (= _max_support - _translation); centered - the longest support measured from its
    centre, M - M//2 with M the longest support."""
    sup = list(bank.supports)
    if style == "causal":
        return max(int(r) for _, r in sup)
    M = max(int(r) - int(l) for l, r in sup)
    return M - M // 2


def _signal(seed, N, dtype, spec=None):
    """spec None: seeded standard Gaussian samples. Otherwise a dict
    {"dc": d, "amp": [..], "freq": [..] (cycles per sample), "phase": [..], "noise": sd}:
    x[n] = d + sum_i amp_i sin(2 pi freq_i n + phase_i) + sd * (the same Gaussian samples),
    evaluated in float64 and then converted to `dtype`."""
    g = _common.make_rng(seed, "c01.x").standard_normal(int(N))
    if spec is None:
        return g.astype(dtype)
    n = np.arange(int(N), dtype=np.float64)
    x = np.full(int(N), float(spec.get("dc", 0.0)))
    for a, f, ph in zip(spec.get("amp", ()), spec.get("freq", ()), spec.get("phase", ())):
        x += float(a) * np.sin(2.0 * np.pi * float(f) * n + float(ph))
    if spec.get("noise"):
        x += float(spec["noise"]) * g
    return x.astype(dtype)


def _sparse_signal_specs(rng):
    """Large-amplitude, spectrally sparse signals (16-bit PCM range): -> [(name, spec)]"""

    def u(lo, hi, digits=6):
        return round(float(rng.uniform(lo, hi)), digits)

    f2 = u(0.02, 0.2)
    f5 = u(0.03, 0.25)
    return [
        ("hum", dict(amp=[u(8e3, 3e4, 1)], freq=[u(0.008, 0.03)], phase=[u(0, 6.28)])),
        ("two_tones", dict(amp=[u(8e3, 15e3, 1), u(8e3, 15e3, 1)], freq=[f2, round(f2 * 1.06, 6)], phase=[u(0, 6.28), u(0, 6.28)])),
        ("dc_tone", dict(dc=u(1e4, 3e4, 1), amp=[u(100, 500, 1)], freq=[u(0.05, 0.3)], phase=[u(0, 6.28)])),
        ("narrow_band", dict(amp=[u(2e3, 6e3, 1) for _ in range(5)], freq=[round(f5 * (1 + 0.005 * i), 6) for i in range(5)],
                             phase=[u(0, 6.28) for _ in range(5)])),
        ("dc_noise", dict(dc=u(1e4, 3e4, 1), noise=1.0)),
    ]


# ----------------------------------------------------------------------------------------
# running both sides
# ----------------------------------------------------------------------------------------
class _Recorder:
    """Instance-level wrapper of STFT `_compute_frame` recording the frames it is given."""

    def __init__(self, comp):
        self.comp = comp
        self.frames = None
        self.real = None
        from pydrobert.speech import compute

        if isinstance(comp, compute.ShortTimeFourierTransformFrameComputer):
            self.real = type(comp)._compute_frame.__get__(comp)
            comp._compute_frame = self._call

    def _call(self, frame, coeffs):
        if self.frames is not None:
            self.frames.append(np.array(frame, dtype=np.float64, copy=True))
        return self.real(frame, coeffs)

    def start(self):
        self.frames = [] if self.real is not None else None

    def take(self):
        f, self.frames = self.frames, None
        return f


def _run_full(comp, rec, x):
    rec.start()
    with warnings.catch_warnings():
        warnings.simplefilter("ignore")
        out = comp.compute_full(x)
    return out, rec.take()


def _run_chunked(comp, rec, x, chunks):
    rec.start()
    outs = []
    i = 0
    with warnings.catch_warnings():
        warnings.simplefilter("ignore")
        for n in chunks:
            outs.append(comp.compute_chunk(x[i : i + n]))
            i += n
        outs.append(comp.finalize())
    if i != len(x):
        raise RuntimeError("chunks do not sum to N")
    nc = comp.num_coeffs
    for o in outs:
        if o.ndim != 2 or o.shape[1] != nc:
            raise AssertionError("piece of shape %r, expected (*, %d)" % (o.shape, nc))
    return np.concatenate(outs), rec.take()


def _run_fbf(comp, rec, x, chunk_size):
    from pydrobert.speech import compute

    rec.start()
    with warnings.catch_warnings():
        warnings.simplefilter("ignore")
        out = compute.frame_by_frame_calculation(comp, x, chunk_size=chunk_size)
    return out, rec.take()


def _compare(case, full, fr_full, got, fr_got):
    """-> (list of (clause, message), worst slack ratio, frames on either side)"""
    pre = "C01.fbf" if case["via"] == "fbf" else "C01." + case["computer"]
    fails = []
    slack = 0.0
    nfr = max(full.shape[0] if full.ndim == 2 else 0, got.shape[0] if got.ndim == 2 else 0)
    if full.ndim != 2 or got.shape != full.shape:
        fails.append((pre + ".frame_count", "streamed shape %r, compute_full shape %r" % (got.shape, full.shape)))
        return fails, slack, nfr
    if fr_full is not None and fr_got is not None:
        if len(fr_full) != len(fr_got):
            fails.append((pre + ".frames", "%d frames streamed, %d whole" % (len(fr_got), len(fr_full))))
        else:
            for k, (a, b) in enumerate(zip(fr_full, fr_got)):
                if a.shape != b.shape or not np.array_equal(a, b):
                    d = "shape" if a.shape != b.shape else "max|diff| %.3g" % float(np.abs(a - b).max())
                    fails.append((pre + ".frames", "frame %d of %d differs (%s)" % (k, len(fr_full), d)))
                    break
    # (frame_by_frame_calculation on an empty signal calls no compute_chunk at all, so the
    # computer has never seen the signal's dtype: the empty result's dtype is then unconstrained)
    if got.dtype != full.dtype and not (case["via"] == "fbf" and case["N"] == 0):
        fails.append(("C01.dtype", "streamed dtype %s, compute_full dtype %s" % (got.dtype, full.dtype)))
    if full.size:
        a = got.astype(np.float64)
        b = full.astype(np.float64)
        if not (np.all(np.isfinite(a)) and np.all(np.isfinite(b))):
            fails.append((pre + ".values", "non-finite feature values"))
        else:
            rtol, atol = RTOL[case["dtype"]], ATOL[case["dtype"]]
            err = np.abs(a - b)
            lim = atol + rtol * np.abs(b)
            slack = float((err / lim).max())
            if slack > 1.0:
                idx = np.unravel_index(int(np.argmax(err / lim)), err.shape)
                fails.append((pre + ".values", "row %d col %d: streamed %.17g, whole %.17g (|diff| %.3g = %.3g x tolerance)"
                              % (idx[0], idx[1], a[idx], b[idx], err[idx], slack)))
    return fails, slack, nfr


class _Pair:
    """Two instances of one configuration: one for compute_full, one for streaming."""

    def __init__(self, case):
        self.whole = _build(case)
        self.stream = _build(case)
        self.rec_whole = _Recorder(self.whole)
        self.rec_stream = _Recorder(self.stream)


def _check(case, pair, x, full_cache=None):
    """Runs one case on the given pair. -> (fails, slack, frames)"""
    try:
        if full_cache is not None and full_cache.get("x_id") == id(x):
            full, fr_full = full_cache["full"], full_cache["frames"]
        else:
            full, fr_full = _run_full(pair.whole, pair.rec_whole, x)
            if full_cache is not None:
                full_cache.update(x_id=id(x), full=full, frames=fr_full, keep=x)
        if case["via"] == "fbf":
            got, fr_got = _run_fbf(pair.stream, pair.rec_stream, x, case["fbf_chunk_size"])
        else:
            got, fr_got = _run_chunked(pair.stream, pair.rec_stream, x, case["chunks"])
    except Exception as e:  # noqa: BLE001 - any exception is a violation
        return [("C01.no_exception", "%s: %s" % (type(e).__name__, e))], 0.0, 0, True
    fails, slack, nfr = _compare(case, full, fr_full, got, fr_got)
    return fails, slack, nfr, False


def replay(case):
    _common.use_repo()
    case = _full_case(case)
    if sum(case["chunks"]) != case["N"]:
        return True, "not a case: chunks do not sum to N"
    if case["computer"] == "stft" and not (1 <= case["frame_shift"] <= case["frame_length"]):
        return True, "not a case: hypothesis frame_shift <= frame_length violated"
    try:
        pair = _Pair(case)
    except RuntimeError as e:
        return True, "not a case: %s" % e
    if case["computer"] == "si":
        osup = _si_one_sided_support(pair.whole.bank, case["frame_style"])
        if not case["frame_shift"] < osup:
            return True, "not a case: SI hypothesis violated (shift %d, one-sided support %d)" % (case["frame_shift"], osup)
    x = _signal(case["seed"], case["N"], case["dtype"], case.get("signal"))
    fails, slack, nfr, _ = _check(case, pair, x)
    if fails:
        return False, "; ".join("%s: %s" % f for f in fails)
    return True, "streamed == whole (%d frames, worst error %.3g x tolerance)" % (nfr, slack)


# ----------------------------------------------------------------------------------------
# chunkings
# ----------------------------------------------------------------------------------------
def _parts(cuts, N):
    cuts = [0] + sorted(cuts) + [N]
    return tuple(int(cuts[i + 1] - cuts[i]) for i in range(len(cuts) - 1))


def _rand_composition(rng, N, max_cuts=6):
    k = int(rng.integers(0, max_cuts + 1))
    cuts = [int(v) for v in rng.integers(0, N + 1, size=k)] if k else []
    parts = list(_parts(cuts, N))  # repeated cuts already give empty chunks
    for _ in range(int(rng.integers(0, 3))):
        parts.insert(int(rng.integers(0, len(parts) + 1)), 0)
    return tuple(parts)


def _stft_cut_points(L, s, style, kaldi, N, every=True):
    """Stream lengths at which the streamed frame count changes, +-1 (only used to choose
    which chunkings to try). every=False keeps the first and the last such boundary only."""
    if style == "causal":
        first = L
    elif kaldi:
        first = (L + 1) // 2 + s // 2
    else:
        first = L // 2 + 1
    pts = {0, 1, N - 1, N}
    if every:
        pts.update((L // 2, L // 2 + 1))
        b = first
        while b <= N + 1:
            pts.update((b - 1, b, b + 1))
            b += s
    else:
        pts.update((first - 1, first, first + 1))
        if N >= first:
            last = first + ((N - first) // s) * s
            pts.update((last - 1, last, last + 1))
    return sorted(p for p in pts if 0 <= p <= N)


def _si_cut_points(comp, N, rng, limit):
    s = comp.frame_shift
    M = int(getattr(comp, "_max_support", s))
    D = int(getattr(comp, "_dft_size", 2 * s))
    tr = int(getattr(comp, "_translation", 0))
    v = max(1, D - M + 1)
    pts = {0, 1, N - 1, N}
    for base in (0, tr, max(0, tr - s)):
        for step in (s, v, D):
            b = base + step
            n = 0
            while b <= N + 1 and n < 6:
                pts.update((b - 1, b, b + 1))
                b += step
                n += 1
    pts = sorted(p for p in pts if 0 <= p <= N)
    if len(pts) > limit:
        keep = set(int(i) for i in rng.choice(len(pts), size=limit, replace=False))
        pts = [p for i, p in enumerate(pts) if i in keep]
    return pts


def _chunkings(N, cut_points, rng, n_pairs, n_rand, ones=True):
    seen = []
    seen_set = set()

    def add(kind, parts):
        parts = tuple(int(p) for p in parts)
        if parts not in seen_set:
            seen_set.add(parts)
            seen.append((kind, parts))

    add("whole", (N,))
    if ones and N >= 2:
        add("ones", (1,) * N)
    for p in cut_points:
        add("cut2", _parts([p], N))
    if len(cut_points) >= 2:
        for _ in range(n_pairs):
            i, j = rng.integers(0, len(cut_points), size=2)
            parts = list(_parts([cut_points[i], cut_points[j]], N))
            if rng.integers(0, 2):
                parts.insert(int(rng.integers(0, len(parts) + 1)), 0)
            add("cut3", parts)
    for _ in range(n_rand):
        add("rand", _rand_composition(rng, N))
    return seen


# ----------------------------------------------------------------------------------------
# the run
# ----------------------------------------------------------------------------------------
class _Runner:
    def __init__(self, col, seed):
        self.col = col
        self.seed = seed
        self.worst = {"stft": 0.0, "si": 0.0}
        self.worst32 = {"stft": 0.0, "si": 0.0}
        self.worst_sparse = {"stft": 0.0, "si": 0.0}
        self.sparse_samples = 0
        self.counts = {}
        self.known_seen = 0

    def config(self, base):
        """-> (_Pair, completed base case) or None when the configuration is not a case."""
        base = _full_case(dict(base, N=0, chunks=[0], seed=self.seed))
        try:
            pair = _Pair(base)
        except RuntimeError:
            return None
        if base["computer"] == "si":
            if not base["frame_shift"] < _si_one_sided_support(pair.whole.bank, base["frame_style"]):
                return None
            base["frame_length"] = int(pair.whole.frame_length)
        base["_id"] = repr(_config_key(base)) + base["dtype"]
        return pair, base

    def one(self, pair, base, x, N, kind, parts, cache, via="chunks", fbf_chunk_size=None):
        col = self.col
        case = dict(base, N=int(N), chunks=[int(p) for p in parts], via=via, fbf_chunk_size=fbf_chunk_size)
        for k in [k for k in case if k.startswith("_")]:
            del case[k]
        fails, slack, nfr, raised = _check(case, pair, x, cache)
        comp = case["computer"]
        if case.get("signal") is not None:
            self.worst_sparse[comp] = max(self.worst_sparse[comp], slack)
        elif case["dtype"] == "float64":
            self.worst[comp] = max(self.worst[comp], slack)
        else:
            self.worst32[comp] = max(self.worst32[comp], slack)
        nonempty = sum(1 for p in parts if p)
        nontrivial = nfr >= 1 and not (comp == "si" and via == "chunks" and nonempty <= 1 and len(parts) <= 1)
        key = "%s|%d|%s|%s|%s" % (base["_id"], N, via, fbf_chunk_size, ",".join(map(str, parts)))
        sample = case if (nontrivial and kind in ("cut3", "rand", "fbf")) else None
        if case.get("signal") is not None:
            key += "|" + repr(sorted(case["signal"].items()))
            sample = None
            if nontrivial and self.sparse_samples < 2 and kind == "prec.short_then_long":
                self.sparse_samples += 1
                sample = case
        col.case(key, nontrivial=nontrivial, sample=sample)
        self.counts[comp + "." + kind] = self.counts.get(comp + "." + kind, 0) + 1
        if fails:
            # confirm on fresh instances, so that a verdict never depends on earlier cases
            ok, msg = replay(case)
            if ok:
                col.fail("C01.state_leak", case, "fails on a re-used instance (%s) but holds on fresh instances" % fails[0][1])
            else:
                clause, message = fails[0]
                if len(fails) > 1:
                    message += " [also: %s]" % ", ".join(c for c, _ in fails[1:])
                if case.get("signal") is not None and parts:
                    message += (" {%s %s signal (%s) of %d samples, chunk lengths %d..%d around the %d-sample transform block: the "
                                "values depend on how the signal is cut, beyond round-off}"
                                % (case["dtype"], base.get("_signal_name", "sparse"), kind, N, min(parts), max(parts),
                                   base.get("_block", 0)))
                col.fail(clause, case, message)
            if raised or ok:
                return False  # instance state is suspect: caller rebuilds the pair
        return True


def _tiny_stft(r, col, Ls, n_pairs, n_rand, deadline, dtype="float64", rate=1000, bank="fbank1", window=None, every=True):
    modes = (("causal", False), ("centered", False), ("centered", True))
    done = 0
    for L in Ls:
        for s in range(1, L + 1):
            for style, kaldi in modes:
                base = dict(computer="stft", frame_style=style, kaldi_shift=kaldi, frame_length=L, frame_shift=s,
                            sampling_rate=rate, bank=bank, dtype=dtype, window=window)
                got = r.config(base)
                if got is None:
                    col.note("configuration not realisable: %r" % (base,))
                    continue
                pair, base = got
                rng = _common.make_rng(r.seed, "c01.tiny.%s.%d.%d.%s.%s" % (dtype, L, s, style, kaldi))
                for N in range(0, 3 * L + 3):
                    x = _signal(r.seed, N, dtype)
                    cache = {}
                    pts = _stft_cut_points(L, s, style, kaldi, N, every)
                    for kind, parts in _chunkings(N, pts, rng, n_pairs, n_rand):
                        if not r.one(pair, base, x, N, kind, parts, cache):
                            pair = _Pair(base)
                            cache = {}
                    if col.too_many_failures():
                        return done
                done += 1
                if time.time() > deadline:
                    col.note("tiny STFT enumeration truncated by the time budget after L=%d s=%d %s kaldi=%s" % (L, s, style, kaldi))
                    return done
    return done


def _fixed(N, k):
    return [k] * (N // k) + ([N % k] if N % k else [])


def _precision_section(r, col, configs, n_rep, n_rand, deadline):
    """Non-float64, large-amplitude, spectrally sparse signals streamed with chunk lengths on
    both sides of the computer's transform block B (SI: DFT size; STFT: frame length):
    longer chunks are sliced directly, shorter ones go through the float64 history buffer.
    "any float signal ... same values up to floating-point round-off ... as compute_full";
    "frame_by_frame_calculation returns the same matrix for every chunk_size"."""
    for cfg in configs:
        cfg = dict(cfg)
        wanted = cfg.pop("signals", None)
        got = r.config(cfg)
        if got is None:
            col.note("precision section: configuration not a case (not realisable / outside the hypothesis): %r" % (cfg,))
            continue
        pair, base0 = got
        comp = pair.whole
        B = int(getattr(comp, "_dft_size", comp.frame_length)) if base0["computer"] == "si" else int(comp.frame_length)
        rng = _common.make_rng(r.seed, "c01.prec.%r" % (sorted((k, str(v)) for k, v in cfg.items()),))
        for rep in range(n_rep):
            for name, spec in _sparse_signal_specs(rng):
                if wanted is not None and name not in wanted:
                    continue
                N = 3 * B + 1 + int(rng.integers(0, B))
                base = dict(base0, signal=spec, _signal_name=name, _block=B)
                x = _signal(r.seed, N, base["dtype"], spec)
                cache = {}
                k_short, k_long = max(1, B // 4), 2 * B + 3
                runs = [
                    ("prec.fbf_short", _fixed(N, k_short), "fbf", k_short),
                    ("prec.fbf_long", _fixed(N, k_long), "fbf", k_long),
                    ("prec.just_below", _fixed(N, B - 1), "chunks", None),
                    ("prec.just_above", _fixed(N, B + 1), "chunks", None),
                    ("prec.long_then_short", [2 * B + 5] + _fixed(N - 2 * B - 5, max(1, B // 3)), "chunks", None),
                    ("prec.short_then_long", _fixed(B + B // 2, max(1, B // 5)) + [0, N - B - B // 2], "chunks", None),
                ]
                for _ in range(n_rand):
                    parts, left = [], N
                    while left:
                        k = min(left, int(rng.integers(0, 3 * B)))
                        parts.append(k)
                        left -= k
                    runs.append(("prec.rand", parts, "chunks", None))
                for kind, parts, via, k in runs:
                    if not r.one(pair, base, x, N, kind, parts, cache, via=via, fbf_chunk_size=k):
                        pair = _Pair(base0)
                        cache = {}
                if col.too_many_failures():
                    return
                if time.time() > deadline:
                    col.note("precision section truncated by the time budget at %r signal %s" % (cfg, name))
                    return


def _ns_realistic(L, s, rng, n_extra, n_max):
    ns = {0, 1, 2}
    for b in (s // 2, L // 2, L // 2 + 1, s, L - s, L, L + s // 2, L + s, 2 * L, 2 * L + s, 3 * L + 2):
        ns.update((b - 1, b, b + 1))
    for r_ in range(0, s, max(1, s // 4)):
        ns.add(L + 5 * s + r_)
    ns.update(int(v) for v in rng.integers(0, n_max, size=n_extra))
    return sorted(n for n in ns if 0 <= n)


def _realistic_stft(r, col, configs, n_extra, n_pairs, n_rand, deadline):
    for cfg in configs:
        got = r.config(dict(cfg, computer="stft"))
        if got is None:
            col.note("configuration not realisable: %r" % (cfg,))
            continue
        pair, base = got
        L, s = base["frame_length"], base["frame_shift"]
        rng = _common.make_rng(r.seed, "c01.real.%r" % (sorted(cfg.items()),))
        for N in _ns_realistic(L, s, rng, n_extra, 4 * L + 7 * s):
            x = _signal(r.seed, N, base["dtype"])
            cache = {}
            pts = _stft_cut_points(L, s, base["frame_style"], base["kaldi_shift"], N)
            if len(pts) > 10:
                keep = rng.choice(len(pts), size=10, replace=False)
                pts = sorted(pts[int(i)] for i in keep)
            for kind, parts in _chunkings(N, pts, rng, n_pairs, n_rand, ones=(N <= 3 * L and rng.integers(0, 4) == 0)):
                if not r.one(pair, base, x, N, kind, parts, cache):
                    pair = _Pair(base)
                    cache = {}
            if col.too_many_failures():
                return
            if time.time() > deadline:
                col.note("realistic STFT section truncated by the time budget at %r N=%d" % (cfg, N))
                return


def _si_section(r, col, configs, n_cut, n_pairs, n_rand, n_stride, deadline, label, dense):
    for cfg in configs:
        cfg = dict(cfg)
        shifts = cfg.pop("shifts")
        ns_limit = cfg.pop("ns_limit", None)
        for s in shifts:
            got = r.config(dict(cfg, computer="si", frame_shift=s, kaldi_shift=False))
            if got is None:
                continue  # outside the property's hypothesis: not a case
            pair, base = got
            comp = pair.whole
            M = int(getattr(comp, "_max_support", comp.frame_length))
            D = int(getattr(comp, "_dft_size", comp.frame_length))
            v = max(1, D - M + 1)
            rng = _common.make_rng(r.seed, "c01.si.%s.%r.%d" % (label, sorted(cfg.items()), s))
            ns = set(range(0, 3 * (M + s) + 3, n_stride))
            if dense:
                ns.update(range(0, min(3 * s + 3, 3 * (M + s) + 3)))
                for b in (s, M, M + s - 1, v, 2 * v, 3 * v, D, 2 * D, D + v, 2 * D + 7):
                    ns.update((b - 1, b, b + 1))
            else:
                ns.update(range(0, s + 2))
                for b in (M + s - 1, v, D):
                    ns.update((b - 1, b, b + 1))
                ns.update((2 * v, 2 * D + 7))
            ns = sorted(n for n in ns if n >= 0)
            if ns_limit and len(ns) > ns_limit:
                keep = rng.choice(len(ns), size=ns_limit, replace=False)
                ns = sorted(ns[int(i)] for i in keep)
            for N in ns:
                x = _signal(r.seed, N, base["dtype"])
                cache = {}
                pts = _si_cut_points(comp, N, rng, n_cut)
                for kind, parts in _chunkings(N, pts, rng, n_pairs, n_rand, ones=(N <= 2 * (M + s) and rng.integers(0, 3) == 0)):
                    if not r.one(pair, base, x, N, kind, parts, cache):
                        pair = _Pair(base)
                        cache = {}
                if col.too_many_failures():
                    return
                if time.time() > deadline:
                    col.note("SI section %s truncated by the time budget at %r s=%d N=%d" % (label, cfg, s, N))
                    return


def _fbf_section(r, col, configs, deadline, n_extra=1):
    """frame_by_frame_calculation: the same matrix for several chunk_size values (each is
    compared with compute_full, hence with each other)."""
    for cfg in configs:
        got = r.config(cfg)
        if got is None:
            continue
        pair, base = got
        L, s = base["frame_length"], base["frame_shift"]
        rng = _common.make_rng(r.seed, "c01.fbf.%r" % (sorted((k, str(v)) for k, v in cfg.items()),))
        ns = sorted({0, 1, L // 2, L // 2 + 1, L, L + s, 2 * L + 1, 3 * L + 2}
                    | {int(v) for v in rng.integers(0, 6 * L + 2, size=n_extra)})
        for N in ns:
            x = _signal(r.seed, N, base["dtype"])
            cache = {}
            sizes = sorted({1, 2, 3, max(1, s - 1), s, s + 1, max(1, L // 2), L, L + 1, max(1, N - 1), max(1, N), N + 1, 1024,
                            int(rng.integers(1, max(2, N)))})
            if N > 600:
                sizes = [k for k in sizes if k >= 3]
            for k in sizes:
                parts = [k] * (N // k) + ([N % k] if N % k else [])
                if not r.one(pair, base, x, N, "fbf", parts, cache, via="fbf", fbf_chunk_size=int(k)):
                    pair = _Pair(base)
                    cache = {}
            if col.too_many_failures():
                return
            if time.time() > deadline:
                col.note("frame_by_frame section truncated by the time budget at %r N=%d" % (cfg, N))
                return


def _precision_configs(quick):
    """float32 configurations of the precision section: sharp (Gabor / triangular) filters leave
    most bands of a sparse signal empty, which is where misplaced single-precision arithmetic
    shows; log, magnitude and power outputs; both computers; a gammatone bank with the energy
    coefficient as a broad-filter control. SI shifts are inside the hypothesis (s < one-sided
    support; checked by _Runner.config)."""
    f32 = dict(dtype="float32", kaldi_shift=False)
    prec = [
        dict(f32, computer="si", frame_style="centered", frame_shift=40, sampling_rate=8000, bank="gabor20",
             pad_to_nearest_power_of_two=True),
        dict(f32, computer="si", frame_style="centered", frame_shift=7, sampling_rate=1000, bank="tri3", use_log=False),
        dict(f32, computer="si", frame_style="centered", frame_shift=30, sampling_rate=8000, bank="gabor8", use_log=False,
             use_power=True),
        dict(f32, computer="si", frame_style="causal", frame_shift=5, sampling_rate=1000, bank="gabor3"),
        dict(f32, computer="si", frame_style="causal", frame_shift=80, sampling_rate=8000, bank="gamma20",
             pad_to_nearest_power_of_two=True, include_energy=True, signals=None if not quick else ("hum", "dc_tone")),
        dict(f32, computer="stft", frame_style="centered", kaldi_shift=True, frame_length=200, frame_shift=80, sampling_rate=8000,
             bank="fbank10", pad_to_nearest_power_of_two=True),
        dict(f32, computer="stft", frame_style="causal", frame_length=200, frame_shift=80, sampling_rate=8000, bank="gamma8",
             pad_to_nearest_power_of_two=True, use_log=False, use_power=True),
        dict(f32, computer="stft", frame_style="centered", frame_length=256, frame_shift=100, sampling_rate=8000, bank="gabor8",
             window="hamming", use_log=False),
    ]
    return prec


def run(tier, seed):
    _common.use_repo()
    quick = tier != "thorough"
    col = _common.Collector(PROPERTY, tier, seed, budget_s=50 if quick else 540)
    r = _Runner(col, seed)
    t0 = time.time()

    def dl(frac):
        return t0 + col.budget_s * frac

    # 0. single-precision, large-amplitude, spectrally sparse signals; chunk lengths on both sides
    #    of the transform block (first: cheap, and nothing else in the run looks at it)
    prec = _precision_configs(quick)
    _precision_section(r, col, prec, n_rep=1 if quick else 6, n_rand=0 if quick else 4, deadline=dl(0.12))
    tp = time.time()

    # 1. tiny exhaustive STFT enumeration (most discriminating: all framing arithmetic)
    Ls = range(1, 14) if quick else range(1, 17)
    t0s = time.time()
    n_cfg = 0
    if not col.too_many_failures():
        n_cfg = _tiny_stft(r, col, Ls, n_pairs=1 if quick else 8, n_rand=2 if quick else 12, deadline=dl(0.60), every=not quick)
    t1 = time.time()
    # float32 signals and a Hamming window (non-zero end taps) on a few tiny sizes
    if not col.too_many_failures():
        _tiny_stft(r, col, (4, 5) if quick else (2, 3, 4, 5, 8, 9), 2, 3, dl(0.64), dtype="float32", bank="fbank3")
        _tiny_stft(r, col, (6,) if quick else (6, 7, 11), 2, 3, dl(0.67), window="hamming", bank="fbank3")

    # 2. tiny SI enumeration over every admissible shift
    ALL = tuple(range(1, 40))
    sub = (1, 5, 8) if quick else ALL
    si_tiny = [
        dict(frame_style="causal", sampling_rate=1000, bank="gamma3", shifts=ALL),
        dict(frame_style="centered", sampling_rate=1000, bank="gabor3", shifts=ALL),
        dict(frame_style="causal", sampling_rate=1000, bank="gabor3", shifts=sub),
        dict(frame_style="centered", sampling_rate=1000, bank="gamma3", pad_to_nearest_power_of_two=True, shifts=sub),
        dict(frame_style="causal", sampling_rate=1000, bank="gabor3", dtype="float32", use_power=True, shifts=sub),
        dict(frame_style="centered", sampling_rate=1000, bank="gabor3", dtype="float32", use_log=False, shifts=sub),
    ]
    t2 = time.time()
    if not col.too_many_failures():
        _si_section(r, col, si_tiny, n_cut=6 if quick else 24, n_pairs=1 if quick else 6,
                    n_rand=2 if quick else 10, n_stride=5 if quick else 1, deadline=dl(0.81), label="tiny", dense=not quick)
    # real banks (rfft path), valid block of only 2 samples per DFT (tri3 at 1 kHz: M=127, D=128),
    # larger banks at 8 kHz (shift 80 = 10 ms is admissible for the gammatone bank only)
    si_mid = [
        dict(frame_style="centered", sampling_rate=1000, bank="tri3", shifts=(7,) if quick else (1, 7, 33, 63)),
        dict(frame_style="causal", sampling_rate=1000, bank="tri3", pad_to_nearest_power_of_two=True,
             shifts=(62,) if quick else (2, 16, 62)),
        dict(frame_style="centered", sampling_rate=8000, bank="gabor20", pad_to_nearest_power_of_two=True,
             shifts=(40,) if quick else (5, 40, 77)),
        dict(frame_style="causal", sampling_rate=8000, bank="gamma20", pad_to_nearest_power_of_two=True, window="hann",
             shifts=(80,) if quick else (16, 80, 154)),
        dict(frame_style="centered", sampling_rate=8000, bank="fbank10", pad_to_nearest_power_of_two=True,
             shifts=(80,) if quick else (80, 160), ns_limit=3 if quick else 40),
    ]
    t3 = time.time()
    if not col.too_many_failures():
        _si_section(r, col, si_mid, n_cut=3 if quick else 10, n_pairs=1 if quick else 4,
                    n_rand=1 if quick else 6, n_stride=211 if quick else 23, deadline=dl(0.88), label="mid", dense=not quick)
    t4 = time.time()

    # 3. realistic STFT configurations
    real = []
    for bank in ("fbank10", "gabor8", "gamma8"):
        for style, kaldi in (("causal", False), ("centered", False), ("centered", True)):
            real.append(dict(frame_style=style, kaldi_shift=kaldi, frame_length=200, frame_shift=80, sampling_rate=8000,
                             bank=bank, pad_to_nearest_power_of_two=True, include_energy=(bank != "gabor8"),
                             dtype="float32" if (bank == "gamma8" and style == "causal") else "float64"))
    real += [
        dict(frame_style="centered", kaldi_shift=True, frame_length=201, frame_shift=120, sampling_rate=8000, bank="tri8",
             pad_to_nearest_power_of_two=True, use_power=True),
        dict(frame_style="causal", kaldi_shift=False, frame_length=200, frame_shift=200, sampling_rate=8000, bank="tri8a",
             pad_to_nearest_power_of_two=False, use_log=False),
        dict(frame_style="centered", kaldi_shift=False, frame_length=400, frame_shift=160, sampling_rate=16000, bank="fbank10",
             pad_to_nearest_power_of_two=True, window="hamming"),
    ]
    if not col.too_many_failures():
        _realistic_stft(r, col, real, n_extra=3 if quick else 30, n_pairs=2 if quick else 8, n_rand=3 if quick else 12,
                        deadline=dl(0.95))

    t5 = time.time()
    # 4. the corollary on frame_by_frame_calculation
    fbf = [
        dict(computer="stft", frame_style="causal", kaldi_shift=False, frame_length=7, frame_shift=3, sampling_rate=1000, bank="fbank3"),
        dict(computer="stft", frame_style="centered", kaldi_shift=False, frame_length=8, frame_shift=3, sampling_rate=1000, bank="fbank3"),
        dict(computer="stft", frame_style="centered", kaldi_shift=True, frame_length=9, frame_shift=4, sampling_rate=1000, bank="fbank3"),
        dict(computer="stft", frame_style="centered", kaldi_shift=True, frame_length=200, frame_shift=80, sampling_rate=8000,
             bank="fbank10", pad_to_nearest_power_of_two=True),
        dict(computer="stft", frame_style="causal", kaldi_shift=False, frame_length=200, frame_shift=80, sampling_rate=8000,
             bank="gamma8", pad_to_nearest_power_of_two=True, dtype="float32"),
        dict(computer="si", frame_style="causal", kaldi_shift=False, frame_shift=5, sampling_rate=1000, bank="gamma3"),
        dict(computer="si", frame_style="centered", kaldi_shift=False, frame_shift=4, sampling_rate=1000, bank="gabor3",
             pad_to_nearest_power_of_two=True),
        dict(computer="si", frame_style="centered", kaldi_shift=False, frame_shift=80, sampling_rate=8000, bank="gabor20",
             pad_to_nearest_power_of_two=True),
    ]
    if not col.too_many_failures():
        _fbf_section(r, col, fbf, dl(1.0), n_extra=1 if quick else 25)

    col.note("executed per computer.kind: %s" % ", ".join("%s=%d" % kv for kv in sorted(r.counts.items())))
    col.note("tiny STFT: %d (L, s, mode) configurations fully enumerated in %.1f s; other tiny STFT %.1f s, tiny SI %.1f s, "
             "larger SI %.1f s, realistic STFT %.1f s, frame_by_frame %.1f s; precision section (run first) %.1f s"
             % (n_cfg, t1 - t0s, t2 - t1, t3 - t2, t4 - t3, t5 - t4, time.time() - t5, tp - t0))
    col.note("worst |streamed - whole| as a fraction of the tolerance: float64 stft %.3g, si %.3g; float32 stft %.3g, si %.3g"
             % (r.worst["stft"], r.worst["si"], r.worst32["stft"], r.worst32["si"]))
    col.note("precision section (float32 hum / two close tones / DC + tone / narrow band / DC + noise, amplitudes 1e4..3e4, chunk "
             "lengths on both sides of the transform block): worst |streamed - whole| as a fraction of the float32 tolerance "
             "1e-6 * (1 + |value|) (about 8 float32 ulps; the computation is float64 after an exact cast, so 1-2 ulps are expected): "
             "stft %.3g, si %.3g" % (r.worst_sparse["stft"], r.worst_sparse["si"]))
    cuts = ("every 2-part cut at a frame-count boundary +-1 (and 0, 1, N-1, N, L//2, L//2+1)" if not quick else
            "2-part cuts at the first and at the last frame-count boundary +-1 and at 0, 1, N-1, N")
    rule = (
        "one evaluation = one (configuration, signal length N, chunking) run streamed (compute_chunk* + finalize, or "
        "frame_by_frame_calculation with one chunk_size) and compared with compute_full on a separate instance; "
        "non-trivial when at least one frame is produced on either side (SI: and the chunking is not the single whole chunk, "
        "which is compute_full's own path). Tiny STFT: every L<=%d, every s<=L, causal / centered / centered+kaldi_shift, every "
        "N in [0, 3L+2], chunkings = whole, all-ones, %s, %d seeded 3-part cuts at such boundaries and %d seeded random "
        "compositions with empty chunks interleaved; frames given to _compute_frame recorded and compared. SI: admissible "
        "shifts of 3-filter Gabor/gammatone banks at 1 kHz (all of them for two configurations), N %s, cuts at frame / DFT-block "
        "boundaries +-1; only shifts inside the hypothesis s < one-sided support are cases. Precision section: %d float32 "
        "configurations (5 SI, 3 STFT) x seeded large-amplitude spectrally sparse signals (hum, two close tones, DC + tone, narrow "
        "band, DC + noise) of 3B+1..4B samples, B = the transform block (SI DFT size / STFT frame length), streamed in chunks of "
        "B//4 and 2B+3 (both via frame_by_frame_calculation), B-1, B+1, long-then-short, short-then-long%s."
        % (max(Ls), cuts, 1 if quick else 8, 2 if quick else 12,
           "in [0, 3(M+s)+2] with stride 5 plus [0, s+1] and DFT-block boundaries" if quick else
           "in [0, 3(M+s)+2] exhaustively and around multiples of the DFT block",
           len(prec), "" if quick else " and 4 seeded random compositions with chunk lengths in [0, 3B), 6 signal draws per kind")
    )
    bound = (
        "BOUNDED: %s tier; STFT frame_length <= %d exhaustively at 1 kHz plus 12 realistic 8/16 kHz configurations at selected N; "
        "SI shifts 1..17 on 3-filter banks plus 5 larger banks at a few shifts; seeded Gaussian signals (one per N), float64 "
        "mainly, float32 on a subset; plus float32 spectrally sparse signals of amplitude 1e4..3e4 on 8 configurations with 6 "
        "chunkings around the transform block (float16 / long double signals are not exercised); sections are cut short (with a note) if the time budget of %d s runs out"
        % (tier, max(Ls), col.budget_s)
    )
    return col.result(rule, bound, ASSUMPTIONS)


if __name__ == "__main__":
    from rtc import _common
    import sys

    _common.main(sys.modules[__name__])

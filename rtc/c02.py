"""Bounded stand-in for property C02 - STFT coefficients equal their documented definition.

Clauses (taken from the property statement):
  C02.frame_count     N >= L//2+1  ->  exactly (N + s//2)//s rows, otherwise none
  C02.num_coeffs      every result has num_filts (+1 with include_energy) columns
  C02.coeff_value     coefficient i of frame k = sum over the FULL DFT of |DFT(window x frame_k) x H_i|^p,
                      frame_k = the sample range documented for frame_style / kaldi_shift with periodic
                      symmetric reflection beyond the ends, H_i rebuilt from get_truncated_response by the
                      recipe in LinearFilterBank.get_truncated_response's docstring
  C02.log_floor       same coefficient when the linear value is below LOG_FLOOR_VALUE (use_log)
  C02.log_floor_config  "log-floored at LOG_FLOOR_VALUE when use_log": LOG_FLOOR_VALUE is the library's documented,
                      user-settable pydrobert.speech.config.LOG_FLOOR_VALUE; the floor (filter coefficients AND the
                      energy coefficient) is the value the configuration holds when compute_full runs, whether it was
                      assigned before the computer was constructed, after it, or between two compute_full calls on
                      the same computer (raised and lowered floors, quiet / partly silent signals).  Results with
                      use_log=False do not depend on it.
  C02.energy_value    index 0 = mean square of the unwindowed frame (sqrt when not use_power), same log floor
  C02.default_frame_length_nonzero_bin   frame_length_ms=None: every rebuilt H_i has a non-zero bin, and
                      every coefficient of a white-noise frame is > 0

Real banks whose top (bottom) edge sits AT the Nyquist (0 Hz) -- incl. high_hz inside the constructor's documented
1 Hz leeway above the Nyquist -- are part of the grid on several sampling rates, with signals that carry energy
in the Nyquist and DC bins (the full-spectrum sum counts those two bins ONCE).

The oracle never calls into the computer: frames are gathered with an explicit reflection index, the
spectrum is np.fft.fft (not rfft), H_i is rebuilt from a *separately constructed* bank instance, window values
come from a separately constructed WindowFunction (window shapes themselves belong to C20).
"""
import math
import warnings

import numpy as np

from rtc import _common
from rtc._common import Collector, make_rng

PROPERTY = "C02"
RATE = 8000
RTOL = 1e-9  # on pre-log values; the same number as an absolute tolerance on logs
ASSUMPTIONS = ["A-REAL", "A-FFT", "A-NP-RED", "A-DET"]

# ---------------------------------------------------------------------------------- banks

_LIN0 = {"name": "linear", "low_hz": 0.0}
_OCT = {"name": "octave", "low_hz": 40.0}

# most discriminating first: complex banks whose supports reach below 0 Hz / past Nyquist / all around
BANKS_QUICK = [
    {"kind": "gabor", "scale": "mel", "num_filts": 5, "low_hz": 0.0},
    {"kind": "gammatone", "scale": "mel", "num_filts": 12, "low_hz": 0.0},
    {"kind": "gabor", "scale": "mel", "num_filts": 12, "low_hz": 20.0},
    {"kind": "gabor", "scale": "mel", "num_filts": 2, "low_hz": 0.0},
    {"kind": "tri", "scale": "mel", "num_filts": 5, "low_hz": 20.0, "analytic": True},
    {"kind": "fbank", "num_filts": 6, "low_hz": 20.0, "analytic": True},
    {"kind": "gabor", "scale": "bark", "num_filts": 5, "low_hz": 0.0, "scale_l2_norm": True, "erb": True},
    {"kind": "gammatone", "scale": "bark", "num_filts": 5, "low_hz": 20.0, "order": 2},
    {"kind": "gammatone", "scale": "mel", "num_filts": 5, "low_hz": 20.0, "max_centered": True},
    {"kind": "tri", "scale": "mel", "num_filts": 5, "low_hz": 20.0, "analytic": False},
    {"kind": "fbank", "num_filts": 6, "low_hz": 20.0, "analytic": False},
    {"kind": "tri", "scale": _LIN0, "num_filts": 5, "low_hz": 0.0, "analytic": False},
    {"kind": "tri", "scale": _OCT, "num_filts": 4, "low_hz": 40.0, "analytic": False},
    {"kind": "gabor", "scale": _LIN0, "num_filts": 6, "low_hz": 20.0, "high_hz": 3000.0},
]

BANKS_EXTRA = [
    {"kind": "gabor", "scale": "mel", "num_filts": 3, "low_hz": 0.0},
    {"kind": "gabor", "scale": "bark", "num_filts": 8, "low_hz": 20.0, "erb": True},
    {"kind": "gabor", "scale": _OCT, "num_filts": 6, "low_hz": 40.0, "scale_l2_norm": True},
    {"kind": "gammatone", "scale": "mel", "num_filts": 5, "low_hz": 0.0, "scale_l2_norm": True, "erb": True},
    {"kind": "gammatone", "scale": _LIN0, "num_filts": 8, "low_hz": 0.0, "order": 1},
    {"kind": "gammatone", "scale": "mel", "num_filts": 12, "low_hz": 0.0, "max_centered": True, "order": 3},
    {"kind": "tri", "scale": "bark", "num_filts": 7, "low_hz": 0.0, "analytic": True},
    {"kind": "tri", "scale": "bark", "num_filts": 7, "low_hz": 20.0, "analytic": False},
    {"kind": "tri", "scale": _LIN0, "num_filts": 9, "low_hz": 0.0, "analytic": True},
    {"kind": "tri", "scale": "mel", "num_filts": 10, "low_hz": 300.0, "high_hz": 3400.0, "analytic": False},
    {"kind": "fbank", "num_filts": 10, "low_hz": 0.0, "analytic": False},
    {"kind": "fbank", "num_filts": 3, "low_hz": 100.0, "high_hz": 3700.0, "analytic": True},
]

# real banks whose last / first vertex touches the Nyquist / 0 Hz: (spec without high_hz, sampling rate, offsets of
# high_hz from the Nyquist; > 0 is inside the documented "1 Hz leeway" of TriangularOverlappingFilterBank, None = the
# default).  The full-spectrum sum of a real bank counts the Nyquist bin (even DFT sizes) and the DC bin once.
EDGE_BANKS = [
    ({"kind": "tri", "scale": "mel", "num_filts": 10, "low_hz": 20.0, "analytic": False}, 16000),
    ({"kind": "tri", "scale": "mel", "num_filts": 5, "low_hz": 0.0, "analytic": False}, 8000),
    ({"kind": "tri", "scale": "bark", "num_filts": 7, "low_hz": 0.0, "analytic": False}, 11025),
    ({"kind": "tri", "scale": _LIN0, "num_filts": 4, "low_hz": 0.0, "analytic": False}, 22050),
    ({"kind": "tri", "scale": _OCT, "num_filts": 3, "low_hz": 40.0, "analytic": False}, 44100),
    ({"kind": "tri", "scale": "mel", "num_filts": 6, "low_hz": 20.0, "analytic": True}, 16000),
    ({"kind": "fbank", "num_filts": 6, "low_hz": 0.0, "analytic": False}, 8000),
]
EDGE_OFFSETS = (1.0, 0.5, 0.96875, None, 0.0, -0.5)  # Hz above the Nyquist (Fbank documents no leeway: <= 0 only)

# banks for the default-frame-length clause: (spec, sampling rate)
DEFAULT_LEN_BANKS_QUICK = [
    ({"kind": "tri", "scale": "mel", "num_filts": 40, "low_hz": 20.0, "analytic": False}, 16000),
    ({"kind": "fbank", "num_filts": 40, "low_hz": 20.0, "analytic": False}, 16000),
    ({"kind": "gabor", "scale": "mel", "num_filts": 40, "low_hz": 20.0}, 16000),
    ({"kind": "gammatone", "scale": "mel", "num_filts": 40, "low_hz": 20.0}, 16000),
    ({"kind": "tri", "scale": "bark", "num_filts": 23, "low_hz": 0.0, "analytic": True}, 8000),
    ({"kind": "tri", "scale": _OCT, "num_filts": 12, "low_hz": 40.0, "analytic": False}, 8000),
    ({"kind": "fbank", "num_filts": 23, "low_hz": 20.0, "analytic": True}, 8000),
    ({"kind": "gabor", "scale": "bark", "num_filts": 20, "low_hz": 0.0, "erb": True}, 8000),
]
DEFAULT_LEN_BANKS_EXTRA = [
    ({"kind": "tri", "scale": "mel", "num_filts": 80, "low_hz": 20.0, "analytic": False}, 16000),
    ({"kind": "tri", "scale": _LIN0, "num_filts": 64, "low_hz": 0.0, "analytic": False}, 16000),
    ({"kind": "fbank", "num_filts": 80, "low_hz": 0.0, "analytic": False}, 16000),
    ({"kind": "fbank", "num_filts": 13, "low_hz": 100.0, "high_hz": 3800.0, "analytic": False}, 8000),
    ({"kind": "gabor", "scale": "mel", "num_filts": 64, "low_hz": 0.0, "scale_l2_norm": True}, 16000),
    ({"kind": "gammatone", "scale": "bark", "num_filts": 30, "low_hz": 0.0, "max_centered": True}, 16000),
    ({"kind": "gammatone", "scale": "mel", "num_filts": 24, "low_hz": 20.0, "erb": True, "order": 2}, 8000),
    ({"kind": "tri", "scale": "bark", "num_filts": 40, "low_hz": 20.0, "analytic": False}, 44100),
]


def _bank_key(spec, rate=RATE):
    return _common.jsonable({"spec": spec, "rate": rate}).__repr__()


def _make_bank(spec, rate=RATE):
    """Construct a fresh bank from its json description."""
    from pydrobert.speech import filters

    kw = {k: v for k, v in spec.items() if k not in ("kind", "scale")}
    kw["sampling_rate"] = rate
    kind = spec["kind"]
    scale = spec.get("scale")
    if isinstance(scale, dict):
        scale = dict(scale)
    if kind == "tri":
        return filters.TriangularOverlappingFilterBank(scale, **kw)
    if kind == "fbank":
        return filters.Fbank(**kw)
    if kind == "gabor":
        return filters.GaborFilterBank(scale, **kw)
    if kind == "gammatone":
        return filters.ComplexGammatoneFilterBank(scale, **kw)
    raise ValueError(kind)


# -------------------------------------------------------------------------------- windows

_RAND_WIN_CLS = []


def _window_obj(name, wseed):
    """A fresh WindowFunction instance (`None` for the documented default)."""
    from pydrobert.speech import filters

    if name == "default":
        return None
    if name == "random":
        if not _RAND_WIN_CLS:

            class _SeededWindow(filters.WindowFunction):
                """asymmetric, strictly positive, values fixed by (seed, width)"""

                aliases = set()

                def __init__(self, seed):
                    self.seed = seed

                def get_impulse_response(self, width):
                    r = make_rng(self.seed, "c02window:%d" % width)
                    return r.uniform(0.1, 1.0, width) / max(1, width)

            _RAND_WIN_CLS.append(_SeededWindow)
        return _RAND_WIN_CLS[0](wseed)
    return {
        "hann": filters.HannWindow,
        "hamming": filters.HammingWindow,
        "blackman": filters.BlackmanWindow,
        "bartlett": filters.BartlettWindow,
        "gamma": filters.GammaWindow,
        "gamma2": lambda: filters.GammaWindow(order=2, peak=0.6),
    }[name]()


def _window_values(name, wseed, frame_style, L):
    from pydrobert.speech import filters

    w = _window_obj(name, wseed)
    if w is None:
        # documented default: GammaWindow when causal, otherwise HannWindow
        w = filters.GammaWindow() if frame_style == "causal" else filters.HannWindow()
    return np.asarray(w.get_impulse_response(L), dtype=np.float64)


# --------------------------------------------------------------------------------- oracle


def _dft_size(L, pad):
    if not pad:
        return L
    D = 1
    while D < L:
        D *= 2
    return D


def _reflect(j, n):
    """periodic symmetric reflection of integer indices j into [0, n) (... c b a | a b c | c b a ...)"""
    j = np.mod(j, 2 * n)
    return np.where(j >= n, 2 * n - 1 - j, j)


def _rebuild_full_response(bank, i, D):
    """H_i over the full spectrum by the docstring recipes of get_truncated_response."""
    bin_idx, trnc = bank.get_truncated_response(i, D)
    trnc = np.asarray(trnc)
    n = len(trnc)
    full = np.zeros(D, dtype=np.complex128)
    if not (0 <= bin_idx < D or n == 0):
        raise AssertionError("start bin %d outside [0,%d)" % (bin_idx, D))
    if bank.is_real:
        if bin_idx + n > D // 2 + 1:
            raise AssertionError("real filter %d leaves the half spectrum: bin %d len %d D %d" % (i, bin_idx, n, D))
        full[bin_idx : bin_idx + n] = trnc
        mirrored = trnc[: None if bin_idx else 0 : -1].conj()
        lo, hi = D - bin_idx - n + 1, D - bin_idx + 1
        if n:
            assert len(full[lo:hi]) == len(mirrored), (bin_idx, n, D)
            full[lo:hi] = mirrored
    else:
        if n > D:
            raise AssertionError("complex filter %d longer than the DFT: len %d D %d" % (i, n, D))
        wrap = min(bin_idx + n, D) - bin_idx
        full[bin_idx : bin_idx + wrap] = trnc[:wrap]
        full[: n - wrap] = trnc[wrap:]
    return full


def _frame_start(frame_style, kaldi_shift, L, s, k):
    """first sample index of frame k as documented (frame_style / kaldi_shift docstrings)"""
    if frame_style == "causal":
        return k * s
    if kaldi_shift:
        return k * s - L // 2 + s // 2
    return k * s - (L + 1) // 2 + 1


def _oracle_linear(case, x, H, window):
    """-> (nf, ncoef) array of pre-log values per the definition"""
    L, s, D = case["frame_length"], case["frame_shift"], case["dft_size"]
    p = 2 if case["use_power"] else 1
    N = len(x)
    ncoef = H.shape[0] + int(case["include_energy"])
    if N < L // 2 + 1:
        return np.zeros((0, ncoef))
    nf = (N + s // 2) // s
    out = np.zeros((nf, ncoef))
    ar = np.arange(L)
    off = int(case["include_energy"])
    for k in range(nf):
        idx = _reflect(_frame_start(case["frame_style"], case["kaldi_shift"], L, s, k) + ar, N)
        frame = x[idx]
        if off:
            ms = float(np.sum(frame * frame)) / L
            out[k, 0] = ms if case["use_power"] else math.sqrt(ms)
        X = np.fft.fft(frame * window, n=D)
        out[k, off:] = np.sum(np.abs(X[None, :] * H) ** p, axis=1)
    return out


# ------------------------------------------------------------------------------ one case


class _Ctx:
    """caches for one run / replay"""

    def __init__(self):
        self.banks = {}
        self.H = {}
        self.windows = {}
        self.computers = {}
        self.max_rel = 0.0
        self.max_logabs = 0.0
        self.n_floored = 0
        self.n_unfloored = 0
        self.n_values = 0
        self.n_energy = 0
        self.pad_checked = 0
        self.n_cfg_floored = 0  # entries whose expected value is decided by a non-stock LOG_FLOOR_VALUE
        self.n_cfg_changed = 0  # ... and differs (beyond the tolerance) from what the stock floor would give

    def bank(self, spec, rate=RATE):
        k = _bank_key(spec, rate)
        if k not in self.banks:
            with warnings.catch_warnings():
                warnings.simplefilter("ignore")
                self.banks[k] = _make_bank(spec, rate)
        return self.banks[k]

    def full_responses(self, spec, D, rate=RATE):
        k = (_bank_key(spec, rate), D)
        if k not in self.H:
            b = self.bank(spec, rate)
            with warnings.catch_warnings():
                warnings.simplefilter("ignore")
                self.H[k] = np.stack([_rebuild_full_response(b, i, D) for i in range(b.num_filts)])
        return self.H[k]

    def window(self, name, wseed, style, L):
        k = (name, wseed, style, L)
        if k not in self.windows:
            self.windows[k] = _window_values(name, wseed, style, L)
        return self.windows[k]

    def computer(self, case, fresh=False):
        from pydrobert.speech.compute import ShortTimeFourierTransformFrameComputer

        k = repr([case[f] for f in _CONFIG_FIELDS] + [case.get("rate", RATE)])
        if fresh:
            self.computers.pop(k, None)
        if k not in self.computers:
            if len(self.computers) > 64:
                self.computers.clear()
            rate = case.get("rate", RATE)
            with warnings.catch_warnings():
                warnings.simplefilter("ignore")
                c = ShortTimeFourierTransformFrameComputer(
                    _make_bank(case["bank"], rate),  # not the oracle's instance
                    frame_length_ms=(case["frame_length"] + 0.5) * 1000.0 / rate,
                    frame_shift_ms=(case["frame_shift"] + 0.5) * 1000.0 / rate,
                    frame_style=case["frame_style"],
                    include_energy=case["include_energy"],
                    pad_to_nearest_power_of_two=case["pad"],
                    window_function=_window_obj(case["window"], case.get("window_seed", 0)),
                    use_log=case["use_log"],
                    use_power=case["use_power"],
                    kaldi_shift=case["kaldi_shift"],
                )
            if c.frame_length != case["frame_length"] or c.frame_shift != case["frame_shift"]:
                raise RuntimeError(
                    "harness: asked for L=%d s=%d, computer has %d %d"
                    % (case["frame_length"], case["frame_shift"], c.frame_length, c.frame_shift)
                )
            self.computers[k] = c
        return self.computers[k]


_CONFIG_FIELDS = (
    "bank",
    "frame_length",
    "frame_shift",
    "pad",
    "frame_style",
    "kaldi_shift",
    "window",
    "window_seed",
    "use_log",
    "use_power",
    "include_energy",
)


def _signal(case):
    """the case's signal, in float64 or - "sig_dtype" - cast to another floating dtype ("every signal": the statement does
    not restrict the signal's dtype)"""
    x = _signal64(case)
    dt = case.get("sig_dtype")
    return x if dt in (None, "float64") else x.astype(np.dtype(dt))


def _signal64(case):
    """Gaussian noise (default), or with "sig": "nyquist" / "dc" / "nyquist_dc" a tone at the Nyquist frequency /
    a constant / both, plus 1e-3 of the noise (energy concentrated in the bins a half-spectrum shortcut double counts)"""
    r = make_rng(case["seed"], "c02signal:%d:%d" % (case["N"], case.get("sig_id", 0)))
    noise = r.standard_normal(case["N"])
    kind = case.get("sig", "gauss")
    if kind == "gauss":
        return noise * case.get("amp", 1.0)
    if kind == "gap":  # a recording with a stretch of digital silence in the middle half
        x = noise * case.get("amp", 1.0)
        x[case["N"] // 4 : 3 * case["N"] // 4] = 0.0
        return x
    n = np.arange(case["N"])
    x = 1e-3 * noise
    if "nyquist" in kind:
        x = x + np.where(n % 2 == 0, 1.0, -1.0)
    if "dc" in kind:
        x = x + 0.75
    return x * case.get("amp", 1.0)


def _check_case(case, ctx):
    """Run one case against the real code. -> (failures [(clause, msg)], info dict)"""
    from pydrobert.speech import config

    fails = []
    info = {"frames": 0, "nonempty_filters": 0}
    L, s, D = case["frame_length"], case["frame_shift"], case["dft_size"]
    if D != _dft_size(L, case["pad"]):
        raise RuntimeError("harness: dft_size in the case does not match frame_length/pad")
    x = _signal(case)
    N = len(x)
    H = ctx.full_responses(case["bank"], D, case.get("rate", RATE))
    window = ctx.window(case["window"], case.get("window_seed", 0), case["frame_style"], L)
    want_lin = _oracle_linear(case, np.asarray(x, dtype=np.float64), H, window)
    nf, ncoef = want_lin.shape
    info["frames"] = nf
    info["nonempty_filters"] = int(np.sum(np.any(H != 0, axis=1)))
    info["nyquist_bin_filters"] = int(np.sum(H[:, D // 2] != 0)) if D % 2 == 0 else 0
    info["dc_bin_filters"] = int(np.sum(H[:, 0] != 0))

    # conformance of A-NP-PAD with the explicit reflection (first and last frame)
    if nf and ctx.pad_checked < 200:
        ctx.pad_checked += 1
        pl = -_frame_start(case["frame_style"], case["kaldi_shift"], L, s, 0)
        end = _frame_start(case["frame_style"], case["kaldi_shift"], L, s, nf - 1) + L
        if pl >= 0:
            xp = np.pad(x, (pl, max(0, end - N)), "symmetric")
            mine = x[_reflect(np.arange(-pl, max(end, N)), N)]
            if not np.array_equal(xp, mine):
                raise RuntimeError("harness: explicit reflection disagrees with np.pad 'symmetric'")

    # "log-floored at LOG_FLOOR_VALUE": cases of the configuration block name the values assigned to
    # pydrobert.speech.config.LOG_FLOOR_VALUE at run time: "floor_at_construction" (None = the stock value) while the
    # computer is constructed, then one compute_full per entry of "log_floors" (None = the stock value) on that SAME
    # computer.  Ordinary cases: one call under whatever the configuration holds.
    stock = config.LOG_FLOOR_VALUE
    cfg = "log_floors" in case
    floors = list(case["log_floors"]) if cfg else [None]
    try:
        if cfg:
            f0 = case.get("floor_at_construction")
            config.LOG_FLOOR_VALUE = stock if f0 is None else float(f0)
        c = ctx.computer(case, fresh=cfg)
        for call, fl in enumerate(floors):
            floor = stock if fl is None else float(fl)
            config.LOG_FLOOR_VALUE = floor
            xin = x.copy()
            with warnings.catch_warnings():
                warnings.simplefilter("ignore")
                try:
                    got = c.compute_full(xin)
                except Exception as e:  # noqa
                    if c.started:
                        try:
                            c.finalize()
                        except Exception:
                            pass
                    return fails + [("C02.frame_count", "compute_full raised %s: %s" % (type(e).__name__, e))], info
            if config.LOG_FLOOR_VALUE != floor:
                fails.append(("C02.log_floor_config", "compute_full changed config.LOG_FLOOR_VALUE from %r to %r" % (floor, config.LOG_FLOOR_VALUE)))
                config.LOG_FLOOR_VALUE = floor
            where = ""
            if cfg:
                where = " [call %d of %d on one computer, config.LOG_FLOOR_VALUE = %r assigned %s; constructed under %r]" % (
                    call + 1,
                    len(floors),
                    floor,
                    ("before construction" if case.get("floor_at_construction") is not None and float(case["floor_at_construction"]) == floor else "after construction")
                    if call == 0
                    else "after the previous call",
                    case.get("floor_at_construction") if case.get("floor_at_construction") is not None else stock,
                )
            done = _compare(case, ctx, info, fails, np.asarray(got), want_lin, floor, stock, cfg, where)
            if not np.array_equal(xin, x):
                fails.append(("C02.coeff_value", "compute_full modified its input"))
            if done:
                break
    finally:
        config.LOG_FLOOR_VALUE = stock
        if cfg:
            # never leave a computer that saw a non-stock configuration in the cache of the ordinary cases
            ctx.computers.pop(repr([case[f] for f in _CONFIG_FIELDS] + [case.get("rate", RATE)]), None)
    return fails, info


def _compare(case, ctx, info, fails, got, want_lin, floor, stock, cfg, where):
    """compare one compute_full result with the definition under log floor `floor`; -> True when the remaining
    calls of the case should be skipped (shape errors)"""
    L, s = case["frame_length"], case["frame_shift"]
    N = case["N"]
    nf, ncoef = want_lin.shape
    if got.ndim != 2 or got.shape[1] != ncoef:
        fails.append(("C02.num_coeffs", "result shape %s, expected (*, %d)%s" % (got.shape, ncoef, where)))
        return True
    if got.shape[0] != nf:
        which = "N >= L//2+1" if N >= L // 2 + 1 else "N < L//2+1"
        fails.append(("C02.frame_count", "%d frames returned, definition gives %d (%s, N=%d L=%d s=%d)%s" % (got.shape[0], nf, which, N, L, s, where)))
        return True
    if nf == 0:
        return False

    off = int(case["include_energy"])
    # results are returned in the signal's dtype: their rounding (a few units in the last place of THAT dtype) is round-off
    RTOL = max(globals()["RTOL"], 16 * float(np.finfo(got.dtype).eps)) if got.dtype.kind == "f" else globals()["RTOL"]
    got = got.astype(np.float64)
    if case["use_log"]:
        floored = want_lin < floor
        want = np.log(np.maximum(want_lin, floor))
        err = np.abs(got - want)
        tol = RTOL + 1e-12 * np.abs(want)
        bad = ~(err <= tol)  # catches NaN
        ctx.max_logabs = max(ctx.max_logabs, float(np.nanmax(err)))
        ctx.n_floored += int(floored.sum())
        ctx.n_unfloored += int((~floored).sum())
        if cfg:
            # entries on which this floor and another value the configuration held during the case (the stock value,
            # the one at construction, the ones of the other calls) give different expected values
            others = {stock} | {stock if f is None else float(f) for f in [case.get("floor_at_construction")] + list(case["log_floors"])}
            changed = np.zeros(want.shape, dtype=bool)
            for o in others - {floor}:
                changed |= np.abs(want - np.log(np.maximum(want_lin, o))) > 10 * tol
            if floor != stock:
                ctx.n_cfg_floored += int(floored.sum())
            ctx.n_cfg_changed += int(changed.sum())
            info["cfg_changed"] = info.get("cfg_changed", 0) + int(changed.sum())
    else:
        floored = np.zeros_like(want_lin, dtype=bool)
        changed = floored
        want = want_lin
        scale = float(np.max(np.abs(want_lin[:, off:]))) if ncoef > off else 0.0
        err = np.abs(got - want)
        tol = RTOL * np.abs(want) + 1e-13 * scale
        bad = ~(err <= tol)
        nz = np.abs(want) > 1e-6 * max(scale, 1e-300)
        if nz.any():
            ctx.max_rel = max(ctx.max_rel, float(np.nanmax(err[nz] / np.abs(want[nz]))))
    if not (cfg and case["use_log"]):
        changed = np.zeros(want.shape, dtype=bool)
    ctx.n_values += int(want[:, off:].size)
    ctx.n_energy += int(want[:, :off].size)
    if bad.any():
        ks, js = np.nonzero(bad)
        k, j = int(ks[0]), int(js[0])

        def _clause(k_, j_):
            if cfg and case["use_log"] and changed[k_, j_]:
                return "C02.log_floor_config"  # the run-time value of the configuration decides this entry
            if off and j_ == 0:
                return "C02.energy_value"
            if floored[k_, j_]:
                return "C02.log_floor"
            return "C02.coeff_value"

        clause = _clause(k, j)
        energy_ok = (not off) or not bad[:, 0].any()
        fails.append(
            (
                clause,
                "frame %d coeff %d: got %.17g want %.17g (pre-log want %.6g, %d of %d entries off; energy column %s)%s"
                % (k, j, got[k, j], want[k, j], want_lin[k, j], int(bad.sum()), bad.size, "agrees" if (off and energy_ok) else ("differs" if off else "absent"), where),
            )
        )
        # report the other kinds too, once each
        seen = {clause}
        for k2, j2 in zip(ks, js):
            cl = _clause(int(k2), int(j2))
            if cl not in seen:
                seen.add(cl)
                fails.append((cl, "frame %d coeff %d: got %.17g want %.17g%s" % (k2, j2, got[k2, j2], want[k2, j2], where)))
    return False


# ------------------------------------------------------------- default frame length clause


def _check_default_length(dcase, ctx):
    """dcase: {"default_length": True, "bank", "rate", "pad", "frame_style", "use_power", "seed",
    "support_threshold": None | float}.  A raised config.EFFECTIVE_SUPPORT_THRESHOLD (a documented knob)
    shortens the temporal supports so that the `2 * rate / narrowest band` term decides the default length."""
    from pydrobert.speech import config
    from pydrobert.speech.compute import ShortTimeFourierTransformFrameComputer

    rate = dcase["rate"]
    fails = []
    saved = config.EFFECTIVE_SUPPORT_THRESHOLD
    try:
        if dcase.get("support_threshold") is not None:
            config.EFFECTIVE_SUPPORT_THRESHOLD = float(dcase["support_threshold"])
        with warnings.catch_warnings():
            warnings.simplefilter("ignore")
            obank = _make_bank(dcase["bank"], rate)
            c = ShortTimeFourierTransformFrameComputer(
                _make_bank(dcase["bank"], rate),
                frame_length_ms=None,
                frame_style=dcase.get("frame_style"),
                pad_to_nearest_power_of_two=dcase["pad"],
                use_log=False,
                use_power=dcase.get("use_power", True),
            )
            L = c.frame_length
            D = _dft_size(L, dcase["pad"])
            H = np.stack([_rebuild_full_response(obank, i, D) for i in range(obank.num_filts)])
            temporal = max(r - l for l, r in obank.supports)
            narrowest = min(r - l for l, r in obank.supports_hz)
    finally:
        config.EFFECTIVE_SUPPORT_THRESHOLD = saved
    info = {"frame_length": L, "dft_size": D, "num_filts": int(H.shape[0]), "bandwidth_term_decides": bool(L > temporal)}
    empty = [i for i in range(H.shape[0]) if not np.any(H[i] != 0)]
    if empty:
        fails.append(("C02.default_frame_length_nonzero_bin", "default frame length %d (DFT %d): filters %s have no non-zero bin" % (L, D, empty[:8])))
    # behavioural side: a white-noise frame excites every bin, so every coefficient must be > 0
    x = make_rng(dcase["seed"], "c02default").standard_normal(L + 2 * c.frame_shift)
    with warnings.catch_warnings():
        warnings.simplefilter("ignore")
        got = np.asarray(c.compute_full(x))
    if got.shape[0] < 1 or got.shape[1] != H.shape[0]:
        fails.append(("C02.default_frame_length_nonzero_bin", "unexpected shape %s for N=%d L=%d" % (got.shape, len(x), L)))
    else:
        dead = sorted(set(np.nonzero(~(got > 0))[1].tolist()))
        if dead:
            fails.append(("C02.default_frame_length_nonzero_bin", "default frame length %d (DFT %d): coefficients %s are not > 0 on white noise" % (L, D, dead[:8])))
    return fails, info


# ----------------------------------------------------------------------------- enumeration

_FLAGS = [(lg, pw, en) for lg in (False, True) for pw in (True, False) for en in (False, True)]
_STYLES = [("centered", False), ("centered", True), ("causal", False)]
_WINDOWS = ["default", "random", "hamming", "gamma2", "blackman", "bartlett", "hann", "gamma"]


def _lengths(tier):
    # (frame_length, pad) ; unpadded DFT sizes: 0 mod 4, odd, 2 mod 4, power of two, small odd / even
    if tier == "quick":
        Ls = [100, 101, 102, 128, 61]
    else:
        Ls = [100, 101, 102, 128, 61, 130, 96, 37, 64, 75]
    out = []
    for L in Ls:
        for pad in (True, False):
            if pad and _dft_size(L, True) == L and (L, False) in out:
                continue
            out.append((L, pad))
    return out


def _shifts(L):
    # odd, even, larger than half the frame, the frame itself, tiny (the property is stated for shift <= length)
    return [t for t in [37, 40, L // 2 + 3, L, 23, 7, 1, 2] if t <= L]


def _signal_lengths(L, s, rng):
    big = 3 * L + 2 * s + int(rng.integers(0, s + 1))
    mid = int(rng.integers(L // 2 + 2, L + s + 2))
    return [L // 2 + 1, big, L // 2, mid, L, 0, 1]


def _enumerate_edge(tier, seed):
    """real banks touching the Nyquist / 0 Hz x rates x even (and a few odd) DFT sizes x use_power x signal kinds"""
    lengths = [(100, False), (101, True), (102, False), (128, False), (61, False), (61, True)]
    if tier == "thorough":
        lengths += [(130, False), (96, True), (64, False), (37, False), (75, True), (256, False)]
    sigs = ["nyquist", "gauss", "nyquist_dc", "dc"]
    j = 0
    for bi, (spec0, rate) in enumerate(EDGE_BANKS):
        for off in EDGE_OFFSETS:
            if spec0["kind"] == "fbank" and off is not None and off > 0:
                continue  # Fbank documents no leeway above the Nyquist
            spec = dict(spec0)
            if off is not None:
                spec["high_hz"] = rate / 2.0 + off
            for li, (L, pad) in enumerate(lengths):
                D = _dft_size(L, pad)
                for use_power in (False, True):
                    for sig in sigs[:2] if tier == "quick" and (D % 2 or off not in (1.0, 0.5, None)) else sigs:
                        j += 1
                        style, kaldi = _STYLES[j % 3]
                        shifts = [t for t in (37, 40, L // 2 + 3, 23) if t <= L]
                        sh = shifts[j % len(shifts)]
                        use_log = bool((j // 3) % 4 == 0)
                        yield {
                            "frame_length": L,
                            "frame_shift": sh,
                            "dft_size": D,
                            "pad": pad,
                            "frame_style": style,
                            "kaldi_shift": kaldi,
                            "bank": spec,
                            "rate": rate,
                            "window": _WINDOWS[j % len(_WINDOWS)],
                            "window_seed": int(seed),
                            "use_log": use_log,
                            "use_power": use_power,
                            "include_energy": bool(j % 2),
                            "N": int(2 * L + sh + (j % 7)),
                            "amp": 1.0,
                            "sig": sig,
                            "seed": int(seed),
                        }


# run-time assignments to pydrobert.speech.config.LOG_FLOOR_VALUE: (value while the computer is constructed, values
# for the successive compute_full calls on that computer); None = the stock value found at entry
FLOOR_SCENARIOS = [
    (None, [1e-2]),  # raised after construction
    (1e-2, [1e-2]),  # raised before construction, kept
    (None, [1e-12]),  # lowered after construction (quiet, normalised audio)
    (1e-12, [1e-12]),
    (1e3, [None]),  # constructed under a raised floor, the stock value restored before computing
    (None, [None, 10.0, 1e-30, None]),  # changed between calls on one computer, and back
    (1e-30, [0.5, 1e-20]),
]


def _enumerate_config(tier, seed):
    """banks x frame styles x (use_power, include_energy) x LOG_FLOOR_VALUE scenarios x two frame lengths, on a
    signal whose middle half is digital silence, longer than frame + shift (amplitudes rotated: quiet, unit, all-zero, loud)"""
    banks = [BANKS_QUICK[0], BANKS_QUICK[9], BANKS_QUICK[10], BANKS_QUICK[1]]
    amps = [1e-3, 1.0, 0.0, 30.0]
    j = 0
    for rep in range(1 if tier == "quick" else 4):
        for L, pad in ((100, False), (61, True)):
            for bi, bank in enumerate(banks):
                for si, (style, kaldi) in enumerate(_STYLES):
                    for use_power in (True, False):
                        for energy in (True, False):
                            for sc, (f0, fls) in enumerate(FLOOR_SCENARIOS):
                                j += 1
                                sh = (37, 40, 23)[j % 3]
                                yield {
                                    "frame_length": L,
                                    "frame_shift": sh,
                                    "dft_size": _dft_size(L, pad),
                                    "pad": pad,
                                    "frame_style": style,
                                    "kaldi_shift": kaldi,
                                    "bank": bank,
                                    "window": _WINDOWS[j % len(_WINDOWS)],
                                    "window_seed": int(seed),
                                    # one in eight without the log: the floor must then play no part
                                    "use_log": bool(j % 8 != 5),
                                    "use_power": use_power,
                                    "include_energy": energy,
                                    "N": int(3 * L + sh + (j % 5)),
                                    "amp": amps[(j + sc + rep) % 4],
                                    "sig": "gap",
                                    "floor_at_construction": f0,
                                    "log_floors": list(fls),
                                    "seed": int(seed),
                                }


def _enumerate_dtypes(tier, seed):
    """"every signal": signals of every floating dtype numpy offers (float16, float32, long double) - the coefficients are the
    documented sums of the signal's values whatever type carries them"""
    banks = list(BANKS_QUICK)[:3] if tier == "quick" else list(BANKS_QUICK) + list(BANKS_EXTRA)
    j = 0
    for dt in ("longdouble", "float32", "float16"):
        for bi, bank in enumerate(banks):
            for (L, pad) in ((16, False), (25, True)):
                style, kaldi = _STYLES[(j + bi) % len(_STYLES)]
                s = max(1, L // 3)
                if kaldi and s // 2 > L // 2:
                    s = 1
                flags = _FLAGS[(3 * j + bi) % 8]
                j += 1
                yield {
                    "bank": bank, "frame_length": L, "frame_shift": s, "pad": pad, "dft_size": _dft_size(L, pad), "frame_style": style,
                    "kaldi_shift": kaldi, "window": _WINDOWS[j % len(_WINDOWS)], "window_seed": int(seed), "use_log": False,
                    "use_power": flags[1], "include_energy": flags[2], "N": 3 * L + 5, "amp": 1.0, "seed": int(seed), "sig_dtype": dt,
                }


def _enumerate(tier, seed):
    """yield cases; the most discriminating first"""
    for case in _enumerate_dtypes(tier, seed):
        yield case
    for case in _enumerate_config(tier, seed):
        yield case
    for case in _enumerate_edge(tier, seed):
        yield case
    banks = list(BANKS_QUICK) + list(BANKS_EXTRA)
    lengths = _lengths(tier)
    nvar = 5 if tier == "quick" else 30
    counter = 0
    for var in range(nvar):
        for li, (L, pad) in enumerate(lengths):
            D = _dft_size(L, pad)
            for si, (style, kaldi) in enumerate(_STYLES):
                for bi, bank in enumerate(banks):
                    rng = make_rng(seed, "c02enum:%d:%d:%d:%d" % (var, li, si, bi))
                    counter += 1
                    shifts = _shifts(L)
                    # first two variants: deterministic rotation covering every (shift, flags, window); then seeded
                    j = bi + 3 * li + 5 * si + 7 * var
                    if var < 2:
                        s = shifts[(j + var * 3) % min(6, len(shifts))]
                        flags = _FLAGS[(j * 3 + var * 5) % 8]
                        wname = _WINDOWS[(j + var) % len(_WINDOWS)]
                    else:
                        s = shifts[int(rng.integers(0, len(shifts)))]
                        flags = _FLAGS[int(rng.integers(0, 8))]
                        wname = _WINDOWS[int(rng.integers(0, len(_WINDOWS)))]
                    if kaldi and s // 2 > L // 2:
                        # DESIGN precondition of Kaldi framing: non-negative left pad L//2 - s//2
                        ok = [t for t in shifts if t // 2 <= L // 2]
                        s = ok[j % len(ok)]
                    amp = [1.0, 1.0, 0.02, 30.0, 1.0, 0.0][(j + 2 * var) % 6] if flags[0] else [1.0, 1e-3, 50.0][(j + var) % 3]
                    Ns = _signal_lengths(L, s, rng)
                    if s <= 2:
                        Ns = [n for n in Ns if n <= L + 5] + [L + 5]
                    if tier == "quick":
                        Ns = Ns[:5]
                    for N in Ns:
                        yield {
                            "frame_length": L,
                            "frame_shift": s,
                            "dft_size": D,
                            "pad": pad,
                            "frame_style": style,
                            "kaldi_shift": kaldi,
                            "bank": bank,
                            "window": wname,
                            "window_seed": int(seed),
                            "use_log": flags[0],
                            "use_power": flags[1],
                            "include_energy": flags[2],
                            "N": int(N),
                            "amp": amp,
                            "seed": int(seed),
                        }


def _enumerate_default(tier, seed):
    banks = list(DEFAULT_LEN_BANKS_QUICK) + (list(DEFAULT_LEN_BANKS_EXTRA) if tier == "thorough" else [])

    def mk(bi, spec, rate, pad, thr):
        return {
            "default_length": True,
            "bank": spec,
            "rate": rate,
            "pad": pad,
            "frame_style": None if bi % 2 == 0 else ("causal" if bi % 4 == 1 else "centered"),
            "use_power": bool((bi + pad) % 2),
            "support_threshold": thr,
            "seed": int(seed),
        }

    # raised EFFECTIVE_SUPPORT_THRESHOLD first: only then does the bandwidth term decide the length
    for thr in (0.3, 0.05) if tier == "quick" else (0.3, 0.05, 0.1, 0.6):
        for bi, (spec, rate) in enumerate(banks):
            for pad in (True, False):
                yield mk(bi, spec, rate, pad, thr)
    for bi, (spec, rate) in enumerate(banks):
        for pad in (True, False):
            yield mk(bi, spec, rate, pad, None)
    if tier == "thorough":
        for bi, spec in enumerate(BANKS_QUICK + BANKS_EXTRA):
            yield mk(2 * bi, spec, RATE, bool(bi % 2), None)
            yield mk(2 * bi, spec, RATE, not bool(bi % 2), 0.2)


# ------------------------------------------------------------------------------ interface


def _case_key(case):
    return {k: v for k, v in case.items()}


def run(tier: str, seed: int) -> dict:
    _common.use_repo()
    budget = 50.0 if tier == "quick" else 540.0
    col = Collector(PROPERTY, tier, seed, budget_s=budget)
    ctx = _Ctx()
    n_frames_cases = 0
    n_noframe_short = 0
    n_boundary = 0
    n_edge = n_edge_even = n_edge_nyq = n_edge_dc = 0
    n_cfg = n_cfg_calls = n_cfg_nontrivial = 0
    stopped_early = False

    # the default-frame-length clause first (few, cheap relative to its weight)
    n_default = n_default_bw = 0
    for dcase in _enumerate_default(tier, seed):
        if col.out_of_time() or col.too_many_failures():
            stopped_early = True
            break
        try:
            fails, info = _check_default_length(dcase, ctx)
        except Exception as e:  # noqa
            fails, info = [("C02.default_frame_length_nonzero_bin", "raised %s: %s" % (type(e).__name__, e))], {}
        n_default += 1
        n_default_bw += int(bool(info.get("bandwidth_term_decides")))
        col.case(dcase, nontrivial=bool(info.get("num_filts")), sample=dict(dcase, **info) if n_default == 1 else None)
        for clause, msg in fails:
            col.fail(clause, dcase, msg)

    for case in _enumerate(tier, seed):
        if col.out_of_time() or col.too_many_failures():
            stopped_early = True
            break
        try:
            fails, info = _check_case(case, ctx)
        except RuntimeError:
            raise
        except Exception as e:  # noqa
            fails, info = [("C02.coeff_value", "oracle/harness raised %s: %s" % (type(e).__name__, e))], {"frames": 0, "nonempty_filters": 0}
        L, N = case["frame_length"], case["N"]
        short = N < L // 2 + 1
        # non-trivial: either decides the "no frames" half of the count clause on a non-empty short signal,
        # or produced >= 1 frame with >= 1 non-empty filter (so values were compared)
        nontrivial = (short and N > 0) or (info["frames"] >= 1 and info["nonempty_filters"] >= 1)
        if "log_floors" in case:
            # configuration block: >= 1 expected value depends on which of the case's floors is used (use_log), or
            # (use_log False) values were compared
            n_cfg += 1
            n_cfg_calls += len(case["log_floors"])
            if case["use_log"]:
                nontrivial = info.get("cfg_changed", 0) > 0
            n_cfg_nontrivial += int(nontrivial)
        if info["frames"] >= 1:
            n_frames_cases += 1
        if short:
            n_noframe_short += 1
        if N == L // 2 + 1:
            n_boundary += 1
        if "sig" in case and "log_floors" not in case:
            n_edge += 1
            n_edge_even += int(case["dft_size"] % 2 == 0 and info["frames"] >= 1)
            n_edge_nyq += int(info.get("nyquist_bin_filters", 0) > 0)
            n_edge_dc += int(info.get("dc_bin_filters", 0) > 0)
        col.case(_case_key(case), nontrivial=nontrivial, sample=case if (col.evaluations % 997 == 20) else None)
        for clause, msg in fails:
            col.fail(clause, case, msg)

    col.note(
        "value comparisons: %d filter coefficients, %d energy coefficients; worst relative error on linear outputs %.3g, "
        "worst absolute error on log outputs %.3g (tolerance %.0e)" % (ctx.n_values, ctx.n_energy, ctx.max_rel, ctx.max_logabs, RTOL)
    )
    col.note("log outputs: %d entries floored at LOG_FLOOR_VALUE, %d not floored" % (ctx.n_floored, ctx.n_unfloored))
    col.note("cases with >=1 frame: %d; signals shorter than L//2+1: %d; signals of exactly L//2+1: %d; default-frame-length configurations: %d, of which %d have the bandwidth term deciding the length" % (n_frames_cases, n_noframe_short, n_boundary, n_default, n_default_bw))
    col.note(
        "Nyquist/DC-edge block: %d cases (real triangular / Fbank banks with high_hz at Nyquist + {1, 0.5, 0.96875, default, 0, -0.5} Hz, "
        "low_hz 0 or above; rates 8000-44100; tone at the Nyquist / constant / noise), %d with an even DFT size and >= 1 frame; "
        "cases in which a rebuilt response is non-zero in the Nyquist bin: %d, in the DC bin: %d"
        % (n_edge, n_edge_even, n_edge_nyq, n_edge_dc)
    )
    col.note(
        "LOG_FLOOR_VALUE configuration block: %d cases / %d compute_full calls with pydrobert.speech.config.LOG_FLOOR_VALUE assigned at "
        "run time (before construction, after construction, between calls on one computer; floors 1e-30 .. 1e3 and the stock value), "
        "%d of them non-trivial; %d expected entries sat below a non-stock floor, %d expected entries differ from what another value "
        "held by the configuration during the same case (stock / at construction / other calls) would give; the configuration value is restored after every case"
        % (n_cfg, n_cfg_calls, n_cfg_nontrivial, ctx.n_cfg_floored, ctx.n_cfg_changed)
    )
    if stopped_early:
        col.note("stopped early (time budget or failure cap); enumeration is ordered most-discriminating first")
    rule = (
        "grid bank x (frame_length, pad) x (frame_style, kaldi_shift) with frame_shift / window / (use_log,use_power,"
        "include_energy) / amplitude rotated deterministically (variants 0-1) then seeded, x 5-7 signal lengths "
        "(L//2, L//2+1, L, 0/1, one mid, one of about 3L+2s); first of all a block that assigns config.LOG_FLOOR_VALUE at run time "
        "(4 banks x frame styles x use_power x include_energy x 7 scenarios of (value at construction, values for successive "
        "compute_full calls on the same computer) x 2 frame lengths, signal with a silent stretch, amplitude 1e-3/1/0/30; "
        "non-trivial if >= 1 expected value depends on which of the case's floor values is used); then a block of real banks whose top vertex is at the "
        "Nyquist (+ the documented 1 Hz leeway) x rate x (frame_length, pad) x use_power x signal kind (tone at the Nyquist "
        "/ constant + 1e-3 noise, Gaussian); plus default-frame-length configurations. "
        "A case is non-trivial if it is a non-empty signal shorter than L//2+1 (decides 'no frames') or yields >= 1 "
        "frame with >= 1 filter that has a non-zero bin (values compared); default-length cases if the bank has filters."
    )
    bound = (
        "sampling rate 8000 Hz (edge block: 8000, 11025, 16000, 22050, 44100 Hz); %d banks (Gabor low_hz 0/20, gammatone, triangular real/analytic, Fbank real/analytic; mel, "
        "bark, linear, octave; 2-12 filters); frame lengths %s with DFT sizes %s; shifts {37,40,L//2+3,L,23,7,1,2} (<= L); "
        "8 windows incl. a seeded asymmetric one; all 8 flag triples; Gaussian signals of amplitude {0,1e-3,0.02,1,30,50}, "
        "N <= about 3L+3s; config.LOG_FLOOR_VALUE in {stock, 1e-30, 1e-20, 1e-12, 1e-2, 0.5, 10, 1e3} assigned before / after construction / between "
        "at most 4 calls on one computer (other config values: EFFECTIVE_SUPPORT_THRESHOLD in the default-length clause only; USE_FFTPACK not toggled, scipy absent); "
        "float64 only; default-frame-length clause on %d bank/rate/pad/EFFECTIVE_SUPPORT_THRESHOLD configurations (8-44.1 kHz, up to 80 filters, thresholds default/0.05-0.6)"
        % (
            len(BANKS_QUICK) + len(BANKS_EXTRA),
            sorted({L for L, _ in _lengths(tier)}),
            sorted({_dft_size(L, p) for L, p in _lengths(tier)}),
            n_default,
        )
    )
    return col.result(rule, bound, ASSUMPTIONS)


def replay(case: dict):
    if isinstance(case, dict) and case.get("kind") == "frame_walk":
        from rtc.c02_frame import replay_frame_walk
        return replay_frame_walk(case)
    _common.use_repo()
    ctx = _Ctx()
    if case.get("default_length"):
        fails, info = _check_default_length(case, ctx)
        if fails:
            return False, "; ".join("%s: %s" % f for f in fails)
        return True, "default frame length %s (DFT %s): all %s filters keep a non-zero bin" % (info["frame_length"], info["dft_size"], info["num_filts"])
    case = dict(case)
    # defaults so that a case built from a solver model (a few integers) can be replayed
    case.setdefault("bank", BANKS_QUICK[0])
    case.setdefault("frame_style", "centered")
    case.setdefault("kaldi_shift", False)
    case.setdefault("window", "default")
    case.setdefault("window_seed", case.get("seed", 0))
    case.setdefault("use_log", False)
    case.setdefault("use_power", True)
    case.setdefault("include_energy", True)
    case.setdefault("seed", 0)
    case.setdefault("amp", 1.0)
    if "pad" not in case:
        case["pad"] = case.get("dft_size", case["frame_length"]) != case["frame_length"]
    if "dft_size" not in case:
        case["dft_size"] = _dft_size(case["frame_length"], case["pad"])
    case.setdefault("frame_shift", max(1, case["frame_length"] // 3))
    case.setdefault("N", 3 * case["frame_length"] + 5)
    fails, info = _check_case(case, ctx)
    if fails:
        return False, "; ".join("%s: %s" % f for f in fails)
    return True, "%d frames, %d non-empty filters agree with the definition (max rel err %.3g, max log abs err %.3g)" % (
        info["frames"],
        info["nonempty_filters"],
        ctx.max_rel,
        ctx.max_logabs,
    )


if __name__ == "__main__":
    from rtc import _common
    import sys

    _common.main(sys.modules[__name__])

"""Bounded stand-in for C13 -- shorten-compressed SPHERE audio decodes losslessly.

Code under check: pydrobert/speech/_sphere.py (copy_shortened_samples with its nested word_get /
uvar_get / ulong_get / var_get, fix_bitshift, c99_div), reached only through
pydrobert.speech.util.read_signal(path_or_stream, force_as="sph").

Oracle: an *encoder* for the shorten stream format (versions 1 and 2), written from the format
definition (Tony Robinson's shorten 2.x as embedded by sph2pipe), not by inverting the decoder:

  stream  = b"ajkg" + version byte + bit stream, packed MSB first and zero padded to a multiple of
            32 bits (the reader consumes big-endian 32-bit words)
  uvar(n) = q zero bits, a one bit, then the n low bits of the value (q = value >> n)
  var(n)  = zig-zag (r >= 0 -> 2r, r < 0 -> -2r-1) coded as uvar(n + 1)
  ulong   = uvar(2) giving a bit width w, then uvar(w)
  header  = ulong x 6: ftype, nchan, blocksize, maxnlpc, nmean, nskip
  then per block and channel one command uvar(2):
     DIFF0..3 = 0..3, QLPC = 7 (uvar(2) order, var(5) coefficients): each followed by uvar(3) `resn`
     and blocksize residuals var(resn);  ZERO = 8;  BLOCKSIZE = 5 (ulong);  BITSHIFT = 6 (uvar(2));
     QUIT = 4.
  predictors act on the internal samples s (x >> bitshift for PCM; signed amplitude rank for
  lossless mu-law) with the last max(maxnlpc, 3) internal samples of the channel as history:
     DIFF0 r = s - coffset;  DIFF1 r = s - h1;  DIFF2 r = s - (2 h1 - h2);
     DIFF3 r = s - (3 h1 - 3 h2 + h3);
     QLPC  r = (s - coffset) - ((lpcqoffset + sum_j a_j (h_{j+1} - coffset)) >> 5)
  coffset = mean of the last nmean block means (0 if nmean = 0); version 2 rounds both divisions
  (adds nmean/2 resp. blocksize/2 before the truncating C division), stores block means scaled by
  << bitshift and uses coffset >> bitshift; version 1 does neither; lpcqoffset = 32 (v2) / 0 (v1).

The encoder is randomised per block (command, LPC order and coefficients, residual width incl.
deliberately under-sized ones, block size, bit shift); the decoder under check must return exactly
the samples that went in.  Clause ids:

  C13.roundtrip.stream / .file   read_signal(BytesIO | path) == original samples (values, shape)
  C13.roundtrip.dtype            default dtype: int16 (PCM and expanded mu-law)
  C13.roundtrip.exception        a valid stream must not raise / warn about missing samples
  C13.vectors.<name>             sph2pipe reference vector == reference WAV (16-bit PCM frames)
  C13.error.truncated            stream cut at byte p (4 <= p < len) raises IOError
  C13.error.unknown_command      command code outside the table raises IOError
  C13.error.version              version byte outside {1, 2} raises IOError
  C13.error.ftype                ftype >= 9 raises IOError
  C13.arith.truncating_division  the decoder's module-level C-division helper (when importable) equals exact integer
                                 division truncated toward zero on a stated grid of divisors (= block sizes / mean
                                 lengths) and dividends (= block sums), see _check_div_helper
  C13.arith.bitshift_fixup       the decoder's module-level bit-shift / mu-law fix-up helper (when importable) maps every
                                 representable internal value back to the sample (PCM: << shift; mu-law: code of the rank)

"for all ... block sizes ... and every block command (DIFF0-3, QLPC of any order in blocks no shorter than the predictor
history, ZERO, BLOCKSIZE, ...)", over "all command sequences a conforming encoder may emit (... block size ... per
block)": the decoder carries the last max(maxnlpc, 3) samples of a channel from block to block, so what a block decodes
to depends on the commands and SIZES of the blocks before it - in particular on blocks shorter than that history, after
which the history is part old, part new.  The round trips therefore start with forced command sequences (the encoder's
`script` setting; see _seq_cases): every ordered pair of commands from {DIFF0-3, QLPC, ZERO} as (short, full), (full,
short) and (short, short) consecutive blocks, the short block 1, 2, 3, history-1, history or history+1 samples long,
for maximum LPC orders 0, 1, 2, 3 and 8, on non-zero samples (so that the history entering every short block is
non-zero) and closed by a DIFF3 / QLPC block that reaches back past the last short block; and the random streams are
complemented by "short-block" ones (_tiny_case: per-block sizes of 1..4 samples mixed with full blocks, signals with
zero runs of 1..6 samples so that ZERO is a frequent choice for a short block).

"for all ... block sizes (including a shorter final block), running-mean lengths": the running mean is, by the format,
an exact integer quotient truncated toward zero with the BLOCK LENGTH resp. the MEAN LENGTH as divisor.  The grid of
round trips therefore starts with block sizes and mean lengths that are not powers of two - among them the divisors d
for which binary floating point cannot invert d (k*d*(1/d) != k for some k; computed in _hazard_divisors, not listed) -
and with signals whose block sums sit exactly on / next to multiples of the divisor (kind "mean_boundary"), followed
by DIFF0 / QLPC blocks (the only commands that use the mean).
"""
import io
import os
import shutil
import signal
import tempfile
import threading
import time
import warnings
import wave

import numpy as np

from rtc import _common

PROPERTY = "C13"

# ---- format constants (from the shorten 2.x format description; deliberately NOT imported from
# ---- the module under check)
FN_DIFF0, FN_DIFF1, FN_DIFF2, FN_DIFF3, FN_QUIT, FN_BLOCKSIZE, FN_BITSHIFT, FN_QLPC, FN_ZERO = 0, 1, 2, 3, 4, 5, 6, 7, 8
FNSIZE, ULONGSIZE, ENERGYSIZE, BITSHIFTSIZE, LPCQSIZE, LPCQUANT = 2, 2, 3, 2, 2, 5
TYPE_AU1, TYPE_S16HL, TYPE_S16LH, TYPE_ULAW, TYPE_AU2 = 0, 3, 5, 7, 8
NWRAP = 3
CMD_NAMES = {0: "DIFF0", 1: "DIFF1", 2: "DIFF2", 3: "DIFF3", 7: "QLPC", 8: "ZERO"}
N_QUICK, N_THOROUGH = 350, 20000
DECODE_TIMEOUT_S = 10.0
VECTORS = ["123_1pcbe", "123_1pcle", "123_1ulaw", "123_2pcbe", "123_2pcle", "123_2ulaw"]

ASSUMPTIONS = [
    "A-IO-STREAM",
    "A-NEP50",
    "A-PYSEM",
    "format: shorten 2.x bit stream as described in the module docstring (Robinson 1994, sph2pipe shorten_x.c)",
    "mu-law internal representation (TYPE_AU1/AU2): signed dense amplitude rank among the codes whose 13-bit "
    "log-PCM decision interval [((16+m)<<e)-16, +2^e) contains a multiple of 2^bitshift; negative zero (0x7F) "
    "is the most negative rank for AU1 and -1 for AU2 (reconstructed rule, exercised for bitshift 0..7)",
    "QLPC is emitted only in blocks of at least max(maxnlpc, 3) samples (the statement's restriction)",
]


# ======================================================================================
# bit-level writer (spec)
# ======================================================================================
class _BitWriter:
    def __init__(self):
        self.parts = []
        self.nbits = 0
        self.max_run = 0

    def uvar(self, val, n):
        assert val >= 0 and n >= 0
        q = val >> n
        if q > self.max_run:
            self.max_run = q
        s = "0" * q + "1"
        if n:
            s += format(val & ((1 << n) - 1), "0%db" % n)
        self.parts.append(s)
        self.nbits += len(s)

    def var(self, val, n):
        self.uvar(2 * val if val >= 0 else -2 * val - 1, n + 1)

    def ulong(self, val, delta=0):
        w = max(0, int(val).bit_length() + delta)
        self.uvar(w, ULONGSIZE)
        self.uvar(val, w)

    def tobytes(self):
        s = "".join(self.parts)
        s += "0" * (-len(s) % 32)
        return int(s, 2).to_bytes(len(s) // 8, "big") if s else b""


def _tdiv(a, b):
    """C integer division (truncates toward zero), b > 0."""
    a = int(a)
    q = abs(a) // b
    return q if a >= 0 else -q


_HAZARD_CACHE = {}


def _hazard_divisors(hi=256, kmax=2048):
    """Divisors d <= hi that binary floating point cannot invert: k*d*(1/d) truncates to something other than
    k for some 0 < k <= kmax (1/d is rounded; for a few d the product of an exact multiple falls one ulp short).
    Pure float arithmetic of the interpreter - no code of the repository involved.  Powers of two never qualify,
    so a test vector with a power-of-two block size and mean length can never exercise such a divisor."""
    key = (hi, kmax)
    if key not in _HAZARD_CACHE:
        out = []
        for d in range(1, hi + 1):
            r = 1.0 / d
            if any(int((k * d) * r) != k for k in range(1, kmax + 1)):
                out.append(d)
        _HAZARD_CACHE[key] = out
    return _HAZARD_CACHE[key]


# ======================================================================================
# mu-law (G.711) closed forms and the lossless internal representation
# ======================================================================================
def _ulaw_expand(c):
    u = ~c & 0xFF
    e, m = (u >> 4) & 7, u & 15
    v = (((m << 3) + 0x84) << e) - 0x84
    return -v if (u & 0x80) else v


_ULAW_EXPAND = np.array([_ulaw_expand(c) for c in range(256)], dtype=np.int64)


def _ulaw_logmag(c):
    u = ~c & 0xFF
    e, m = (u >> 4) & 7, u & 15
    return ((16 + m) << e) - 16, e


def _ulaw_allowed(c, b):
    lo, e = _ulaw_logmag(c)
    k = -((-lo) >> b)  # ceil(lo / 2^b)
    return (k << b) < lo + (1 << e)


_ULAW_RANK_CACHE = {}


def _ulaw_rank_table(b, ftype):
    """code -> internal value at bit shift b (None where the code is not representable)."""
    key = (b, ftype)
    if key not in _ULAW_RANK_CACHE:
        tab = [None] * 256
        pos = sorted((c for c in range(128, 256) if _ulaw_allowed(c, b)), key=lambda c: _ulaw_logmag(c)[0])
        neg = sorted((c for c in range(0, 127) if _ulaw_allowed(c, b)), key=lambda c: _ulaw_logmag(c)[0])
        for k, c in enumerate(pos):
            tab[c] = k
        if ftype == TYPE_AU1:
            for k, c in enumerate(neg):
                tab[c] = -(k + 1)
            tab[0x7F] = -(len(neg) + 1)
        else:  # TYPE_AU2
            tab[0x7F] = -1
            for k, c in enumerate(neg):
                tab[c] = -(k + 2)
        _ULAW_RANK_CACHE[key] = tab
    return _ULAW_RANK_CACHE[key]


ULAW_MAX_SHIFT = 7


def _avail_shift(vals, ftype):
    """largest usable bit shift of a block (PCM: common trailing zero bits; mu-law: see above)."""
    if ftype in (TYPE_AU1, TYPE_AU2):
        b = 0
        while b < ULAW_MAX_SHIFT and all(_ulaw_rank_table(b + 1, ftype)[v] is not None for v in vals):
            b += 1
        return b
    h = 0
    for v in vals:
        h |= int(v)
    if h == 0:
        return 12
    b = 0
    while not (h >> b) & 1:
        b += 1
    return min(b, 12)


def _internal(vals, b, ftype):
    if ftype in (TYPE_AU1, TYPE_AU2):
        tab = _ulaw_rank_table(b, ftype)
        return [tab[v] for v in vals]
    return [int(v) >> b for v in vals]


# ======================================================================================
# signal generators
# ======================================================================================
PCM_KINDS = ["sine_noise", "white", "const", "ramp", "extremes", "bursts", "shifted", "quiet", "blockshift", "mean_boundary"]
ULAW_KINDS = ["u_random", "u_quiet", "u_silence", "u_shifted", "u_sine"]


def _ulaw_compress(x):
    """G.711 mu-law compression of a 16-bit value (closed form), used only to make test signals."""
    x = int(x)
    sign = 0x80 if x < 0 else 0
    x = min(abs(x), 32635) + 0x84
    e = x.bit_length() - 8
    m = (x >> (e + 3)) & 15
    return ~(sign | (e << 4) | m) & 0xFF


def _gen_channel(rng, kind, n, ctx=None):
    t = np.arange(n)
    if kind == "mean_boundary":
        # blocks (of the header block size; the last one shorter) whose sum - plus the version 2 rounding term
        # len//2 - is k*len + d with d in {0, +-1}: the dividend of the block-mean division sits on / next to an
        # exact multiple of the block length, k of either sign and of small and large magnitude.  `hold` keeps
        # one k for a run of blocks (flat, or alternating k / k+1 at random) so that the sum over a window of
        # nmean block means is (close to) an exact multiple of nmean too.
        ctx = ctx or {}
        B = int(ctx.get("blocksize", 16))
        v2 = int(ctx.get("version", 2)) >= 2
        hold = int(ctx.get("hold", 1))
        x = np.zeros(n, dtype=np.int64)
        left, k, jitter = 0, 0, False
        for start in range(0, n, B):
            ln = min(B, n - start)
            if left <= 0:
                amp = int(rng.choice([3, 40, 1000, 20000]))
                k = int(rng.integers(-amp, amp + 1))
                # version 1 window sums are exact multiples when flat, version 2 ones (+ nmean//2) when jittered
                jitter = bool(hold > 1 and rng.random() < (0.8 if v2 else 0.2))
                left = hold if hold == 1 else int(rng.integers(hold, 3 * hold))
            left -= 1
            kk = k + (int(rng.integers(0, 2)) if jitter else 0)
            d = 0 if hold > 1 else int(rng.choice([0, 0, 0, 1, -1]))
            target = kk * ln + d - (ln // 2 if v2 else 0)
            spread = int(rng.choice([0, 2, 50, 3000]))
            seg = kk + rng.integers(-spread, spread + 1, ln).astype(np.int64)
            diff = target - int(seg.sum())
            seg += diff // ln
            seg[: diff % ln] += 1
            assert int(seg.sum()) == target and -32768 <= seg.min() and seg.max() <= 32767
            x[start : start + ln] = seg
        return x
    if kind == "sine_noise":
        amp = float(rng.choice([30, 500, 5000, 30000]))
        f = rng.uniform(0.002, 0.45)
        x = amp * np.sin(2 * np.pi * f * t + rng.uniform(0, 6)) + rng.normal(0, amp * rng.choice([0.001, 0.02, 0.2]), n)
        x += rng.choice([0, 0, 900, -4000])
    elif kind == "white":
        x = rng.integers(-32768, 32768, n)
    elif kind == "const":
        x = np.full(n, rng.choice([0, 0, 1, -1, 32767, -32768, 1234, -20000]))
    elif kind == "ramp":
        step = rng.choice([1, -1, 7, -33, 100])
        x = rng.integers(-3000, 3000) + step * t
        x = ((x + 32768) % 65536) - 32768  # saw-tooth through both ends of the range
    elif kind == "extremes":
        x = rng.choice([-32768, 32767, -32768, 32767, 0, 1, -1, -32767, 32766], n)
    elif kind == "bursts":
        x = np.zeros(n)
        k = 0
        while k < n:
            ln = int(rng.integers(5, 200))
            if rng.random() < 0.5:
                x[k : k + ln] = rng.normal(0, rng.choice([3, 300, 8000]), min(ln, n - k))
            k += ln
    elif kind == "shifted":
        sh = int(rng.integers(1, 9))
        x = (rng.normal(0, 6000, n).astype(np.int64) >> sh) << sh
    elif kind == "quiet":
        x = rng.integers(-3, 4, n)
    elif kind == "blockshift":
        x = np.zeros(n, dtype=np.int64)
        k = 0
        while k < n:
            ln = int(rng.integers(8, 300))
            sh = int(rng.integers(0, 11))
            seg = rng.normal(rng.choice([0, 0, 2000, -7000]), rng.choice([40, 4000]), min(ln, n - k)).astype(np.int64)
            x[k : k + ln] = (seg >> sh) << sh
            k += ln
    elif kind in ("nonzero", "tiny_bursts"):
        # (not in PCM_KINDS / ULAW_KINDS: used only by the forced command sequences and the short-block streams)
        # "nonzero": no sample is zero (internal value 0), so that every carried-over history entry is non-zero;
        # "tiny_bursts": runs of 1..6 zeros / non-zeros, so that blocks of 1..4 samples are often entirely zero
        ctx = ctx or {}
        if ctx.get("ftype") in (TYPE_AU1, TYPE_AU2):
            x = rng.integers(0, 255, n).astype(np.int64)  # any code but 0xFF (internal value 0)
            zero = 0xFF
        else:
            sh = int(ctx.get("nz_shift", 0))
            amp = int(rng.choice([3, 200, 3000, 30000]))
            x = (rng.integers(1, max(1, amp >> sh) + 1, n) * rng.choice([-1, 1], n)).astype(np.int64) << sh
            zero = 0
        if kind == "tiny_bursts":
            k = 0
            while k < n:
                ln = int(rng.integers(1, 7))
                if rng.random() < 0.45:
                    x[k : k + ln] = zero
                k += ln
        return x
    elif kind == "u_random":
        return rng.integers(0, 256, n).astype(np.int64)
    elif kind == "u_quiet":
        return rng.choice([0xFF, 0xFE, 0xFD, 0xF0, 0x7F, 0x7E, 0x7D, 0x70, 0xFF, 0x7F], n).astype(np.int64)
    elif kind == "u_silence":
        x = np.full(n, 0xFF, dtype=np.int64)
        k = 0
        while k < n:
            ln = int(rng.integers(5, 150))
            if rng.random() < 0.4:
                x[k : k + ln] = rng.integers(0, 256, min(ln, n - k))
            k += ln
        return x
    elif kind == "u_shifted":
        x = np.zeros(n, dtype=np.int64)
        k = 0
        while k < n:
            ln = int(rng.integers(8, 200))
            b = int(rng.integers(0, ULAW_MAX_SHIFT + 1))
            ok = [c for c in range(256) if c != 0x7F and _ulaw_allowed(c, b)]
            if rng.random() < 0.3:
                ok.append(0x7F)
            x[k : k + ln] = rng.choice(ok, min(ln, n - k))
            k += ln
        return x
    elif kind == "u_sine":
        amp = float(rng.choice([200, 4000, 30000]))
        y = amp * np.sin(2 * np.pi * rng.uniform(0.002, 0.3) * t) + rng.normal(0, amp * 0.02, n)
        return np.array([_ulaw_compress(v) for v in np.clip(np.rint(y), -32768, 32767)], dtype=np.int64)
    else:
        raise ValueError(kind)
    return np.clip(np.rint(x), -32768, 32767).astype(np.int64)


# ======================================================================================
# the randomised spec encoder
# ======================================================================================
def _draw_settings(rng, tier, force):
    s = {}
    s["version"] = int(rng.choice([1, 2, 2]))
    s["ftype"] = int(rng.choice([TYPE_S16HL, TYPE_S16LH, TYPE_AU1, TYPE_AU2], p=[0.36, 0.34, 0.14, 0.16]))
    s["nchan"] = int(rng.choice([1, 2, 3], p=[0.4, 0.35, 0.25]))
    s["nmean"] = int(rng.integers(0, 5))
    s["maxnlpc"] = int(rng.choice([0, 1, 2, 3, 4, 5, 6, 7, 8], p=[0.24, 0.06, 0.1, 0.1, 0.1, 0.08, 0.08, 0.08, 0.16]))
    s["blocksize"] = int(rng.choice([8, 9, 16, 31, 32, 64, 100, 128, 255, 256, int(rng.integers(8, 257)),
                                     int(rng.choice(_hazard_divisors()))]))
    r = rng.random()
    if r < 0.15:
        n = int(rng.integers(1, 50))
    elif r < 0.8 or tier == "quick":
        n = int(rng.integers(50, 600))
    else:
        n = int(rng.integers(600, 2001))
    s["n"] = n
    s["p_midsize"] = float(rng.choice([0.0, 0.0, 0.1, 0.3]))
    s["p_under"] = float(rng.choice([0.0, 0.1, 0.1, 0.3]))
    s["shift_policy"] = str(rng.choice(["max", "max", "random", "none"]))
    s["p_lpc"] = float(rng.choice([0.2, 0.5, 0.9]))
    s["kinds"] = None
    s["ulong_slack"] = bool(rng.random() < 0.5)
    for k, v in (force or {}).items():
        s[k] = v
    if s["version"] == 1 and s["ftype"] == TYPE_AU2:
        s["ftype"] = TYPE_AU1  # AU2 was introduced with format version 2
    mu = s["ftype"] in (TYPE_AU1, TYPE_AU2)
    kinds = s["kinds"]
    drawn = [str(rng.choice(ULAW_KINDS if mu else PCM_KINDS)) for _ in range(3)]
    if kinds is None:
        kinds = drawn
    s["kinds"] = [kinds[i % len(kinds)] for i in range(s["nchan"])]
    return s


def _encode(rng, samples, s, stats, inject=None, hdr_ftype=None):
    """samples: (n, nchan) int64 (PCM values or mu-law codes). Returns the shorten stream bytes.
    inject = (block_index, code): emit the (unknown) command `code` before that block."""
    version, ftype, nchan, nmean, maxnlpc, B0 = s["version"], s["ftype"], s["nchan"], s["nmean"], s["maxnlpc"], s["blocksize"]
    n = samples.shape[0]
    bw = _BitWriter()
    slack = (lambda: int(rng.choice([0, 0, 1, 2, 3, -1, -2]))) if s["ulong_slack"] else (lambda: 0)
    for v in (ftype if hdr_ftype is None else hdr_ftype, nchan, B0, maxnlpc, nmean, 0):
        bw.ulong(v, slack())
    nwrap = max(maxnlpc, NWRAP)
    lpcqoffset = (1 << LPCQUANT) if version >= 2 else 0
    hist = [[0] * nwrap for _ in range(nchan)]
    offs = [[0] * max(1, nmean) for _ in range(nchan)]
    bs, shift, pos, blk = B0, 0, 0, 0
    # forced command sequence ("all command sequences a conforming encoder may emit"): script[k] = [block size,
    # command(, QLPC order)] of block k for the channels in script_chans (None = all); after the script the encoder is free
    script = s.get("script") or []
    script_chans = s.get("script_chans")
    tiny = bool(s.get("tiny_blocks"))
    prev_block = {}  # channel -> (command, block size, history before it non-zero) of its previous block (statistics)
    while pos < n:
        if inject is not None and inject[0] == blk:
            bw.uvar(inject[1], FNSIZE)
            for val, width in (inject[2] if len(inject) > 2 else ()):
                bw.uvar(val, width)         # operand-like fields after the unknown command (see _error_cases)
        scripted = blk < len(script)
        if scripted:
            want = min(int(script[blk][0]), n - pos)
            assert 1 <= want <= B0, "a conforming encoder never exceeds the header block size"
            emit = want != bs
        else:
            want = bs
            if rng.random() < s["p_midsize"]:
                want = int(rng.integers(1, (min(B0, 4) if tiny else B0) + 1))
            elif bs != B0 and rng.random() < 0.5:
                want = B0
            want = min(want, n - pos)
            emit = want != bs or rng.random() < 0.01
        if emit:
            bw.uvar(FN_BLOCKSIZE, FNSIZE)
            bw.ulong(want, slack())
            stats["blocksize_cmd"] += 1
            if want < nwrap:
                stats["block_lt_history"] += 1
            if pos + want < n:
                stats["blocksize_mid"] += 1
            elif want != B0:
                stats["short_final"] += 1
            bs = want
        for ch in range(nchan):
            vals = [int(v) for v in samples[pos : pos + bs, ch]]
            avail = _avail_shift(vals, ftype)
            pol = s["shift_policy"]
            b = avail if pol == "max" else 0 if pol == "none" else int(rng.integers(0, avail + 1))
            if b != shift or rng.random() < 0.01:
                bw.uvar(FN_BITSHIFT, FNSIZE)
                bw.uvar(b, BITSHIFTSIZE)
                stats["bitshift_cmd"] += 1
                shift = b
            if shift:
                stats["shifted_blocks"] += 1
            x = _internal(vals, shift, ftype)
            # --- running mean
            if nmean:
                if version < 2:
                    coffset = _tdiv(sum(offs[ch]), nmean)
                else:
                    coffset = _tdiv(nmean // 2 + sum(offs[ch]), nmean) >> shift
            else:
                coffset = 0
            h = hist[ch] + x  # h[nwrap + i] is sample i of the block
            # --- command
            allzero = not any(x)
            can_lpc = maxnlpc > 0 and (bs >= nwrap or s.get("lpc_short_blocks", False))  # probe switch, off by default
            forced = script[blk] if scripted and (script_chans is None or ch in script_chans) else None
            if forced is not None:
                cmd = int(forced[1])
                assert cmd != FN_ZERO or allzero, "ZERO forced on a block with non-zero samples"
                assert cmd != FN_QLPC or can_lpc, "QLPC forced on a block shorter than the history / without LPC"
            elif allzero and rng.random() < 0.7:
                cmd = FN_ZERO
            elif can_lpc and rng.random() < s["p_lpc"]:
                cmd = FN_QLPC
            elif s.get("cmd_pool"):  # the encoder's free choice of predictor, restricted to a given set
                pool = [c for c in s["cmd_pool"] if c != FN_QLPC or can_lpc]
                cmd = int(pool[int(rng.integers(0, len(pool)))])
            else:
                cmd = int(rng.integers(0, 4))
            stats["cmd"][cmd] = stats["cmd"].get(cmd, 0) + 1
            if bs < nwrap and pos + bs < n:
                key = "short_" + ("zero" if cmd == FN_ZERO else "coded")
                stats[key] = stats.get(key, 0) + 1
            prev = prev_block.get(ch)
            if prev is not None:
                stats.setdefault("pairs", set()).add((prev[0], prev[1] < nwrap, cmd, bs < nwrap))
                if prev[0] == FN_ZERO and prev[1] < nwrap and prev[2] and (
                    cmd in (FN_DIFF2, FN_DIFF3) and prev[1] < cmd or cmd == FN_QLPC):
                    stats["zero_then_deep"] = stats.get("zero_then_deep", 0) + 1
            prev_block[ch] = (cmd, bs, any(hist[ch]))
            bw.uvar(cmd, FNSIZE)
            if cmd != FN_ZERO:
                if cmd == FN_DIFF0:
                    res = [v - coffset for v in x]
                elif cmd == FN_DIFF1:
                    res = [h[nwrap + i] - h[nwrap + i - 1] for i in range(bs)]
                elif cmd == FN_DIFF2:
                    res = [h[nwrap + i] - (2 * h[nwrap + i - 1] - h[nwrap + i - 2]) for i in range(bs)]
                elif cmd == FN_DIFF3:
                    res = [
                        h[nwrap + i] - (3 * h[nwrap + i - 1] - 3 * h[nwrap + i - 2] + h[nwrap + i - 3]) for i in range(bs)
                    ]
                else:
                    if forced is not None:  # forced order, every lag really used (no zero coefficient)
                        order = int(forced[2]) if len(forced) > 2 else maxnlpc
                        a = [int(v) or 7 for v in rng.integers(-32, 33, order)]
                    else:
                        order = int(rng.integers(1, maxnlpc + 1)) if rng.random() < 0.93 else int(rng.integers(0, maxnlpc + 1))
                        style = rng.random()
                        if style < 0.4:
                            a = [int(v) for v in rng.integers(-32, 33, order)]
                        elif style < 0.8:
                            base = [[32], [64, -32], [96, -96, 32]][int(rng.integers(0, 3))]
                            a = [(base[j] if j < len(base) else 0) + int(rng.integers(-3, 4)) for j in range(order)]
                        else:
                            a = [int(v) for v in rng.integers(-2, 3, order)]
                    stats["lpc_orders"].add(order)
                    hm = [v - coffset for v in h]
                    res = []
                    for i in range(bs):
                        acc = lpcqoffset
                        for j in range(order):
                            acc += a[j] * hm[nwrap + i - j - 1]
                        res.append(hm[nwrap + i] - (acc >> LPCQUANT))
                # --- residual width
                U = max((2 * r if r >= 0 else -2 * r - 1) for r in res)
                nb = U.bit_length()
                mode = rng.random()
                if mode < s["p_under"] and (U >> 1) > 40:
                    T = int(rng.integers(41, max(42, min(700, 60000 // bs))))
                    nrice = max(1, (U // T).bit_length())
                elif mode < 0.75:
                    nrice = max(1, nb - int(rng.integers(0, 4)))
                else:
                    nrice = min(28, max(1, nb + int(rng.integers(0, 5))))
                resn = nrice - 1
                bw.uvar(resn, ENERGYSIZE)
                if cmd == FN_QLPC:
                    bw.uvar(order, LPCQSIZE)
                    for c in a:
                        bw.var(c, LPCQUANT)
                for r in res:
                    bw.var(r, resn)
            # --- state updates
            if nmean:
                if version < 2:
                    m = _tdiv(sum(x), bs)
                else:
                    m = _tdiv(bs // 2 + sum(x), bs) << shift
                offs[ch] = offs[ch][1:] + [m]
            hist[ch] = h[-nwrap:]
        pos += bs
        blk += 1
    if inject is not None and inject[0] >= blk:
        bw.uvar(inject[1], FNSIZE)
        for val, width in (inject[2] if len(inject) > 2 else ()):
            bw.uvar(val, width)
    bw.uvar(FN_QUIT, FNSIZE)
    stats["max_run"] = max(stats["max_run"], bw.max_run)
    stats["nblocks"] = blk
    return b"ajkg" + bytes([version & 0xFF]) + bw.tobytes()


def _new_stats():
    return {
        "cmd": {},
        "lpc_orders": set(),
        "blocksize_cmd": 0,
        "blocksize_mid": 0,
        "short_final": 0,
        "block_lt_history": 0,
        "bitshift_cmd": 0,
        "shifted_blocks": 0,
        "max_run": 0,
        "nblocks": 0,
        "short_zero": 0,
        "short_coded": 0,
        "zero_then_deep": 0,
        "pairs": set(),
    }


def _sphere_header(n, nchan, ftype, version):
    mu = ftype in (TYPE_AU1, TYPE_AU2, TYPE_ULAW)
    coding = ("ulaw" if mu else "pcm") + ",embedded-shorten-v%d.00" % version
    fmt = "1" if mu else ("10" if ftype == TYPE_S16HL else "01")
    lines = [
        "NIST_1A",
        "   1024",
        "channel_count -i %d" % nchan,
        "sample_count -i %d" % n,
        "sample_rate -i 16000",
        "sample_n_bytes -i %d" % (1 if mu else 2),
        "sample_byte_format -s%d %s" % (len(fmt), fmt),
        "sample_sig_bits -i %d" % (8 if mu else 16),
        "sample_coding -s%d %s" % (len(coding), coding),
        "end_head",
    ]
    h = ("\n".join(lines) + "\n").encode()
    return h + b" " * (1024 - len(h))


def _build(case, stats=None):
    """case -> (settings, samples (n, c) int64, sphere file bytes). Deterministic."""
    stats = stats if stats is not None else _new_stats()
    rng = _common.make_rng(case["seed"], "C13.%s.%d" % (case.get("salt", "rt"), case["idx"]))
    s = _draw_settings(rng, case.get("tier", "quick"), case.get("force"))
    cols = [_gen_channel(rng, k, s["n"], s) for k in s["kinds"]]
    samples = np.stack(cols, axis=1)
    if s.get("script"):  # a forced ZERO block encodes silence: internal value 0 (PCM 0, mu-law code 0xFF)
        zero = 0xFF if s["ftype"] in (TYPE_AU1, TYPE_AU2) else 0
        chans = range(s["nchan"]) if s.get("script_chans") is None else s["script_chans"]
        pos = 0
        for ent in s["script"]:
            if ent[1] == FN_ZERO:
                for ch in chans:
                    samples[pos : pos + ent[0], ch] = zero
            pos += ent[0]
    inject = tuple(case["inject"]) if case.get("inject") else None
    stream = _encode(rng, samples, s, stats, inject=inject, hdr_ftype=case.get("hdr_ftype"))
    if case.get("version_byte") is not None:
        stream = stream[:4] + bytes([case["version_byte"]]) + stream[5:]
    blob = _sphere_header(s["n"], s["nchan"], s["ftype"], s["version"]) + stream
    return s, samples, blob


# ======================================================================================
# independent (spec) decoder -- diagnostics only: tells encoder faults from decoder faults
# ======================================================================================
def _spec_decode(stream, n, nchan_expected):
    data = stream[5:]
    version = stream[4]
    total = len(data) * 8
    big = int.from_bytes(data, "big")
    p = [0]

    def bit():
        if p[0] >= total:
            raise EOFError
        v = (big >> (total - 1 - p[0])) & 1
        p[0] += 1
        return v

    def uvar(k):
        q = 0
        while not bit():
            q += 1
        for _ in range(k):
            q = (q << 1) | bit()
        return q

    def var(k):
        u = uvar(k + 1)
        return -((u + 1) >> 1) if u & 1 else u >> 1

    def ulong():
        return uvar(uvar(ULONGSIZE))

    ftype, nchan, bs, maxnlpc, nmean, nskip = [ulong() for _ in range(6)]
    nwrap = max(maxnlpc, NWRAP)
    off32 = 32 if version >= 2 else 0
    hist = [[0] * nwrap for _ in range(nchan)]
    offs = [[0] * max(1, nmean) for _ in range(nchan)]
    out = [[] for _ in range(nchan)]
    ch, shift = 0, 0
    while True:
        cmd = uvar(FNSIZE)
        if cmd == FN_QUIT:
            break
        if cmd == FN_BLOCKSIZE:
            bs = ulong()
        elif cmd == FN_BITSHIFT:
            shift = uvar(BITSHIFTSIZE)
        elif cmd in (0, 1, 2, 3, FN_QLPC, FN_ZERO):
            if cmd != FN_ZERO:
                resn = uvar(ENERGYSIZE)
            if nmean:
                co = _tdiv(sum(offs[ch]), nmean) if version < 2 else _tdiv(nmean // 2 + sum(offs[ch]), nmean) >> shift
            else:
                co = 0
            h = list(hist[ch])
            if cmd == FN_ZERO:
                h += [0] * bs
            elif cmd == FN_QLPC:
                order = uvar(LPCQSIZE)
                a = [var(LPCQUANT) for _ in range(order)]
                hm = [v - co for v in h]
                for _ in range(bs):
                    acc = off32 + sum(a[j] * hm[-1 - j] for j in range(order))
                    hm.append(var(resn) + (acc >> LPCQUANT))
                h = [v + co for v in hm]
            else:
                for _ in range(bs):
                    r = var(resn)
                    pred = [co, h[-1], 2 * h[-1] - h[-2], 3 * h[-1] - 3 * h[-2] + h[-3]][cmd]
                    h.append(r + pred)
            x = h[nwrap:]
            if nmean:
                m = _tdiv(sum(x), bs) if version < 2 else _tdiv(bs // 2 + sum(x), bs) << shift
                offs[ch] = offs[ch][1:] + [m]
            hist[ch] = h[-nwrap:]
            if ftype in (TYPE_AU1, TYPE_AU2):
                inv = {v: c for c, v in enumerate(_ulaw_rank_table(shift, ftype)) if v is not None}
                out[ch] += [inv[v] for v in x]
            else:
                out[ch] += [v << shift for v in x]
            ch = (ch + 1) % nchan
        else:
            raise ValueError("unknown command %d" % cmd)
    return np.array(out, dtype=np.int64).T.reshape(-1, nchan)


# ======================================================================================
# running the real decoder
# ======================================================================================
def _limit_memory():
    """Cap the address space at (current + 3 GiB) for the duration of a run: a decoder that reads a garbage
    header and asks NumPy for a gigantic buffer then fails fast (MemoryError -> recorded as a failure)
    instead of filling memory inside C code where the alarm cannot interrupt it."""
    try:
        import resource

        old = resource.getrlimit(resource.RLIMIT_AS)
        with open("/proc/self/statm") as f:
            cur = int(f.read().split()[0]) * resource.getpagesize()
        new = cur + (3 << 30)
        if old[1] != resource.RLIM_INFINITY:
            new = min(new, old[1])
        if old[0] != resource.RLIM_INFINITY:
            new = min(new, old[0])
        resource.setrlimit(resource.RLIMIT_AS, (new, old[1]))
        return old
    except Exception:
        return None


def _restore_memory(old):
    if old is not None:
        try:
            import resource

            resource.setrlimit(resource.RLIMIT_AS, old)
        except Exception:
            pass


class _DecodeTimeout(Exception):
    pass


_TIMEOUTS = [0]


def _on_alarm(signum, frame):
    _TIMEOUTS[0] += 1
    raise _DecodeTimeout("decoder did not terminate within %g s" % DECODE_TIMEOUT_S)


def _decode_real(src, dtype=None):
    """-> (array | None, exception | None, [warning messages])"""
    from pydrobert.speech import util

    guard = threading.current_thread() is threading.main_thread() and hasattr(signal, "setitimer")
    if guard:  # a decoder that never terminates (e.g. reads zeros past the end) becomes a failure, not a hang
        old_handler = signal.signal(signal.SIGALRM, _on_alarm)
        signal.setitimer(signal.ITIMER_REAL, DECODE_TIMEOUT_S)
    try:
        with warnings.catch_warnings(record=True) as w:
            warnings.simplefilter("always")
            try:
                out = util.read_signal(src, dtype=dtype, force_as="sph")
                exc = None
            except BaseException as e:  # noqa: B902 -- the class is what is being checked
                if isinstance(e, (KeyboardInterrupt, SystemExit)):
                    raise
                out, exc = None, e
    finally:
        if guard:
            signal.setitimer(signal.ITIMER_REAL, 0)
            signal.signal(signal.SIGALRM, old_handler)
    return out, exc, [str(x.message) for x in w]


def _expected(samples, s, dtype):
    mu = s["ftype"] in (TYPE_AU1, TYPE_AU2)
    exp = samples
    if mu and (dtype is None or np.dtype(dtype).itemsize > 1):
        exp = _ULAW_EXPAND[samples]
    if s["nchan"] == 1:
        exp = exp[:, 0]
    return exp


def _compare(out, exc, warns, exp, want_dtype):
    """-> (clause_suffix, message) or None"""
    if exc is not None:
        return "exception", "valid stream raised %s: %s" % (type(exc).__name__, str(exc)[:200])
    if any("samples read" in m for m in warns):
        return "exception", "valid stream warned: %s" % warns[0]
    if out.shape != exp.shape:
        return None, "shape %s, expected %s" % (out.shape, exp.shape)
    if not np.array_equal(out.astype(np.float64), exp.astype(np.float64)):
        bad = np.argwhere(out.astype(np.float64) != exp.astype(np.float64))
        i = tuple(int(v) for v in bad[0])
        return None, "%d of %d samples differ; first at %s: got %s, expected %s" % (
            len(bad),
            exp.size,
            i,
            out[i],
            exp[i],
        )
    if want_dtype is not None and out.dtype != np.dtype(want_dtype):
        return "dtype", "dtype %s, expected %s" % (out.dtype, np.dtype(want_dtype))
    return True


def _check_roundtrip(case, tmpdir, stats=None):
    """-> list of (clause, message); empty when the property holds on the case."""
    s, samples, blob = _build(case, stats)
    mu = s["ftype"] in (TYPE_AU1, TYPE_AU2)
    fails = []
    seq = ""
    if s.get("script"):
        seq = "; forced blocks%s: %s (history length %d)" % (
            "" if s.get("script_chans") is None else " on channel(s) %s" % s["script_chans"],
            " ".join("%s[%d]" % (CMD_NAMES[e[1]] + (("/%d" % e[2]) if len(e) > 2 else ""), e[0]) for e in s["script"]),
            max(s["maxnlpc"], NWRAP))
    elif s.get("tiny_blocks"):
        seq = "; blocks of 1..4 samples mixed with full blocks, zero runs of 1..6 samples (history length %d)" % max(s["maxnlpc"], NWRAP)
    routes = [("stream", None)]
    if case.get("file"):
        routes.append(("file", None))
    if mu:
        routes.append(("stream", "uint8"))
    elif case.get("alt_dtype"):
        routes.append(("stream", case["alt_dtype"]))
    for route, dtype in routes:
        if route == "stream":
            src = io.BytesIO(blob)
        else:
            src = os.path.join(tmpdir, "c13_%d.sph" % case["idx"])
            with open(src, "wb") as f:
                f.write(blob)
        out, exc, warns = _decode_real(src, None if dtype is None else np.dtype(dtype))
        exp = _expected(samples, s, dtype)
        want = np.int16 if dtype is None else np.dtype(dtype)
        r = _compare(out, exc, warns, exp, want)
        if r is not True:
            suffix, msg = r
            clause = "C13.roundtrip." + (suffix or route)
            if s.get("script") and exc is None and out is not None and out.shape == exp.shape:
                # which forced block holds the first wrong sample, and what preceded it on that channel
                bad = np.argwhere(out.astype(np.float64) != exp.astype(np.float64))
                if len(bad):
                    row, pos = int(bad[0][0]), 0
                    chan = int(bad[0][1]) if len(bad[0]) > 1 else 0
                    follows = s.get("script_chans") is None or chan in s["script_chans"]
                    for b, e in enumerate(s["script"]):
                        if row < pos + e[0]:
                            if follows:
                                msg += " (sample %d of block %d, %s[%d]%s)" % (
                                    row - pos, b, CMD_NAMES[e[1]], e[0],
                                    "" if b == 0 else ", the block after %s[%d]" % (CMD_NAMES[s["script"][b - 1][1]], s["script"][b - 1][0]))
                            else:
                                msg += " (sample %d of block %d [%d samples] of a channel whose commands the encoder chose freely)" % (
                                    row - pos, b, e[0])
                            break
                        pos += e[0]
            try:
                sd = _spec_decode(blob[1024:], s["n"], s["nchan"])
                agree = sd.shape == samples.shape and bool((sd == samples).all())
            except Exception as e:  # pragma: no cover - diagnostics
                agree = "spec decoder failed: %r" % (e,)
            fails.append(
                (
                    clause,
                    "%s [route=%s dtype=%s v%d ftype=%d nchan=%d nmean=%d maxnlpc=%d bs=%d n=%d signals=%s; spec decoder reproduces input: %s]"
                    % (msg, route, dtype, s["version"], s["ftype"], s["nchan"], s["nmean"], s["maxnlpc"], s["blocksize"], s["n"],
                       "/".join(s["kinds"]) + (" (block sums / mean-window sums on or next to exact multiples of the block length / mean length: running-mean division)"
                                               if "mean_boundary" in s["kinds"] else "") + seq, agree),
                )
            )
    return fails, s, len(blob)


def _check_error(case):
    """error clauses: the decode must raise IOError. -> (clause, message) or None"""
    kind = case["kind"]
    s, samples, blob = _build(case)
    if kind == "trunc":
        cut = case["cut"]
        if cut < 0:
            cut = len(blob) - 1024 + cut
        blob = blob[: 1024 + cut]
        clause = "C13.error.truncated"
    elif kind == "badcmd":
        clause = "C13.error.unknown_command"
    elif kind == "version":
        clause = "C13.error.version"
    elif kind == "ftype":
        clause = "C13.error.ftype"
    else:
        raise ValueError(kind)
    out, exc, warns = _decode_real(io.BytesIO(blob))
    if exc is None:
        return clause, "returned data of shape %s instead of raising IOError (warnings: %s)" % (out.shape, warns[:1])
    if not isinstance(exc, IOError):
        return clause, "raised %s (%s) instead of IOError" % (type(exc).__name__, str(exc)[:120])
    return None


def _read_wav(path):
    w = wave.open(path, "rb")
    try:
        assert w.getsampwidth() == 2 and w.getcomptype() == "NONE"
        a = np.frombuffer(w.readframes(w.getnframes()), dtype="<i2").astype(np.int64)
        c = w.getnchannels()
    finally:
        w.close()
    return a if c == 1 else a.reshape(-1, c)


def _check_vector(name, route, dtype=None):
    d = os.path.join(_common.repo_path(), "tests", "audio")
    sph, wav = os.path.join(d, name + "_shn.sph"), os.path.join(d, name + ".wav")
    ref = _read_wav(wav)  # the reference WAVs hold 16-bit PCM (mu-law expanded), checked in _read_wav
    if route == "file":
        src = sph
    else:
        with open(sph, "rb") as f:
            src = io.BytesIO(f.read())
    out, exc, warns = _decode_real(src, None if dtype is None else np.dtype(dtype))
    if exc is None and dtype == "uint8":
        out = _ULAW_EXPAND[out]  # compressed codes -> closed-form G.711 expansion
        want = None
    else:
        want = np.int16
    r = _compare(out, exc, warns, ref, want)
    if r is True:
        return None
    return "C13.vectors." + name, "%s [route=%s dtype=%s]" % (r[1], route, dtype)


# ======================================================================================
# module-level arithmetic helpers of the decoder, checked directly (when they are importable)
# ======================================================================================
DIV_HELPER, FIX_HELPER = "c99_div", "fix_bitshift"  # module-level functions of pydrobert.speech._sphere
DIV_KSMALL = 64


def _helper(name):
    try:
        from pydrobert.speech import _sphere
    except Exception:
        return None
    f = getattr(_sphere, name, None)
    return f if callable(f) else None


def _div_quotients(seed, b, nrand):
    ks = set(range(-DIV_KSMALL, DIV_KSMALL + 1))
    for e in range(7, 16):
        ks |= {(1 << e) - 1, 1 << e, -(1 << e), 1 - (1 << e)}
    rng = _common.make_rng(seed, "C13.div.%d" % b)
    ks |= {int(v) for v in rng.integers(-32768, 32768, nrand)}
    return sorted(ks)


def _check_div_helper(case):
    """The running means of the format are C integer quotients (truncated toward zero).  One case = one divisor b
    (a block size or mean length); dividends a = k*b + d for every |k| <= 64, k = +-2^e, +-(2^e - 1) up to 2^15 and
    `nrand` seeded k in the 16-bit sample range (a block mean is a sample-sized number), d in {0, +-1, +-(b//2)},
    each passed as a Python int and (d in {0, +-1}) as the numpy int64 the decoder's `.sum()` produces.
    -> (clause, message) or None"""
    f = _helper(DIV_HELPER)
    if f is None:
        return None
    b = int(case["b"])
    bad = []
    n = 0
    for k in _div_quotients(case["seed"], b, case.get("nrand", 200)):
        for d in sorted({0, 1, -1, b // 2, -(b // 2)}):
            a = k * b + d
            exp = _tdiv(a, b)
            args = [a] + ([np.int64(a)] if d in (0, 1, -1) else [])
            for arg in args:
                n += 1
                try:
                    got = f(arg, b)
                    ok = bool(got == exp) and float(got) == float(exp)
                except Exception as e:  # noqa: BLE001
                    got, ok = "%s: %s" % (type(e).__name__, e), False
                if not ok:
                    bad.append((a, type(arg).__name__, got, exp))
    case["_n"] = n
    if bad:
        a, tn, got, exp = min(bad, key=lambda t: (abs(t[0]), t[0] < 0))
        return "C13.arith.truncating_division", (
            "%s(%d [%s], %d) = %s, exact quotient truncated toward zero is %d (%d of %d dividends wrong for this divisor; "
            "this is the division behind the running block mean / mean offset)" % (DIV_HELPER, a, tn, b, got, exp, len(bad), n)
        )
    return None


def _check_fix_helper(case):
    """fix-up of one block after prediction: PCM internal value v at bit shift b is the sample v << b; a lossless
    mu-law internal value is the signed rank of its code among the codes representable at shift b (table written
    from the G.711 closed form above).  One case = (ftype, bitshift) over every representable internal value."""
    f = _helper(FIX_HELPER)
    if f is None:
        return None
    ftype, b = int(case["ftype"]), int(case["bitshift"])
    if ftype in (TYPE_AU1, TYPE_AU2):
        tab = _ulaw_rank_table(b, ftype)
        pairs = sorted((v, c) for c, v in enumerate(tab) if v is not None)
    else:
        lim = 32768 >> b
        rng = _common.make_rng(case["seed"], "C13.fix.%d.%d" % (ftype, b))
        vs = sorted({-lim, lim - 1, 0, 1, -1} | {int(v) for v in rng.integers(-lim, lim, 300)})
        pairs = [(v, v << b) for v in vs]
    buf = np.array([v for v, _ in pairs], dtype=np.int32)
    exp = np.array([c for _, c in pairs], dtype=np.int64)
    try:
        f(buf, len(buf), b, ftype)
    except Exception as e:  # noqa: BLE001
        return "C13.arith.bitshift_fixup", "%s(ftype=%d, bitshift=%d) raised %s: %s" % (FIX_HELPER, ftype, b, type(e).__name__, e)
    if not np.array_equal(buf.astype(np.int64), exp):
        i = int(np.argmax(buf.astype(np.int64) != exp))
        return "C13.arith.bitshift_fixup", "%s(ftype=%d, bitshift=%d): internal value %d -> %d, expected %d (%d of %d wrong)" % (
            FIX_HELPER, ftype, b, pairs[i][0], buf[i], exp[i], int((buf.astype(np.int64) != exp).sum()), len(exp))
    return None


def _helper_cases(seed, tier):
    quick = tier == "quick"
    hz = _hazard_divisors()
    rest = [b for b in range(1, 257 if quick else 1025) if b not in hz]
    cases = [{"kind": "helper_div", "seed": seed, "b": b, "nrand": 200 if quick else 1000} for b in hz + rest]
    for ftype in (TYPE_S16HL, TYPE_AU1, TYPE_AU2):
        for b in range(0, 13 if ftype == TYPE_S16HL else ULAW_MAX_SHIFT + 1):
            cases.append({"kind": "helper_fix", "seed": seed, "ftype": ftype, "bitshift": b})
    return cases


# ======================================================================================
# case lists
# ======================================================================================
def _grid_cases(seed, tier):
    """Deterministic settings first: every (version, nmean>0 / 0, type, channels) corner, the
    settings that particular decoder faults need (see the sensitivity list in the report)."""
    cases = []
    idx = 0

    def add(**force):
        nonlocal idx
        extra = {}
        for k in ("file", "alt_dtype"):
            if k in force:
                extra[k] = force.pop(k)
        c = {"kind": "rt", "seed": seed, "idx": idx, "salt": "grid", "tier": tier, "force": force}
        c.update(extra)
        cases.append(c)
        idx += 1

    # "for all ... block sizes (including a shorter final block), running-mean lengths": divisors of the mean
    # arithmetic that are NOT powers of two (all divisors <= 256 that floating point cannot invert, plus a few
    # ordinary ones), block sums on / next to exact multiples, every following block DIFF0 or QLPC (the commands
    # that use the mean), nmean = 1 first (a wrong block mean is then always the next block's offset)
    hz = _hazard_divisors()
    sizes = hz + [3, 5, 7, 10, 12, 100, 255]
    for i, B in enumerate(sizes):
        for j, version in enumerate((1, 2) if i < 6 else ((1 + i % 2),)):
            add(version=version, nmean=(1, 1, 2, 3, 4)[(i + j) % 5] if i >= 4 else 1, ftype=(TYPE_S16HL, TYPE_S16LH)[i % 2],
                nchan=1 + (i + j) % 2, maxnlpc=(0, 2, 3)[i % 3], blocksize=B, n=8 * B + B // 3, kinds=["mean_boundary"],
                cmd_pool=[FN_DIFF0, FN_DIFF0, FN_QLPC], p_lpc=0.3, shift_policy="none", p_midsize=0.0, p_under=0.0)
    # the same for the other divisor, the mean LENGTH: nmean itself not invertible / not a power of two, short
    # blocks, the block mean held over more than nmean blocks
    for i, (nmean, version) in enumerate([(m, v) for m in hz[:3] for v in (1, 2)] + [(5, 1), (6, 2), (7, 1), (12, 2)]):
        add(version=version, nmean=nmean, ftype=TYPE_S16HL, nchan=2, maxnlpc=(0, 2)[i % 2], blocksize=(4, 3, 5)[i % 3],
            n=(4, 3, 5)[i % 3] * min(6 * nmean, 400), kinds=["mean_boundary"], hold=nmean + 4,
            cmd_pool=[FN_DIFF0, FN_DIFF0, FN_QLPC], p_lpc=0.3, shift_policy="none", p_midsize=0.0, p_under=0.0)
    # negative running means with rounding (version 1 and 2), several mean lengths, DIFF0 heavy
    for version in (2, 1):
        for nmean in (4, 1, 3):
            add(version=version, nmean=nmean, ftype=TYPE_S16HL, nchan=2, maxnlpc=0, blocksize=16, n=300,
                kinds=["sine_noise", "blockshift"], shift_policy="max", file=(nmean == 4))
    # LPC, all orders, negative sums (>> 5 vs C division), mean removal
    for version in (2, 1):
        add(version=version, nmean=2, ftype=TYPE_S16LH, nchan=1, maxnlpc=8, blocksize=32, n=400,
            kinds=["sine_noise"], p_lpc=0.9, file=True)
        add(version=version, nmean=0, ftype=TYPE_S16HL, nchan=3, maxnlpc=3, blocksize=9, n=200,
            kinds=["white", "ramp", "extremes"], p_lpc=0.5, p_midsize=0.3)
    # bit shifts, PCM: per-block shifts, version 2 scaling of the means
    add(version=2, nmean=4, ftype=TYPE_S16HL, nchan=2, maxnlpc=2, blocksize=31, n=500,
        kinds=["blockshift", "shifted"], shift_policy="max", alt_dtype="int32")
    add(version=1, nmean=2, ftype=TYPE_S16LH, nchan=1, maxnlpc=0, blocksize=64, n=500,
        kinds=["blockshift"], shift_policy="random", alt_dtype="float64")
    # long unary runs
    add(version=2, nmean=0, ftype=TYPE_S16HL, nchan=1, maxnlpc=4, blocksize=16, n=200,
        kinds=["white"], p_under=1.0, p_lpc=0.5)
    # silence / ZERO, short blocks, tiny streams
    add(version=2, nmean=4, ftype=TYPE_S16LH, nchan=2, maxnlpc=0, blocksize=8, n=300,
        kinds=["bursts", "const"], p_midsize=0.3, file=True)
    for n in (1, 2, 3, 7):
        add(version=2 - n % 2, nmean=n % 3, ftype=TYPE_S16HL, nchan=1 + n % 3, maxnlpc=0, blocksize=256, n=n,
            kinds=["white"])
    # mu-law: both lossless types, shifts, silence
    add(version=2, nmean=0, ftype=TYPE_AU2, nchan=1, maxnlpc=0, blocksize=256, n=600, kinds=["u_sine"], file=True)
    add(version=2, nmean=0, ftype=TYPE_AU2, nchan=2, maxnlpc=2, blocksize=32, n=300, kinds=["u_random", "u_quiet"])
    add(version=2, nmean=3, ftype=TYPE_AU2, nchan=2, maxnlpc=0, blocksize=16, n=400,
        kinds=["u_shifted", "u_silence"], shift_policy="max")
    add(version=1, nmean=0, ftype=TYPE_AU1, nchan=1, maxnlpc=0, blocksize=64, n=300, kinds=["u_random"], file=True)
    add(version=2, nmean=2, ftype=TYPE_AU1, nchan=3, maxnlpc=3, blocksize=20, n=300,
        kinds=["u_shifted", "u_quiet", "u_silence"], shift_policy="max")
    # a stream longer than the reader's first 16 KiB read (refill path, unaligned remainder)
    add(version=2, nmean=4, ftype=TYPE_S16HL, nchan=3, maxnlpc=2, blocksize=256, n=3400,
        kinds=["white", "white", "sine_noise"], p_lpc=0.2, p_under=0.0, p_midsize=0.0, file=True)
    return cases


SEQ_FIRST = [FN_ZERO, FN_DIFF0, FN_DIFF1, FN_DIFF2, FN_DIFF3, FN_QLPC]
SEQ_SECOND = [FN_DIFF3, FN_QLPC, FN_DIFF2, FN_DIFF1, FN_DIFF0, FN_ZERO]
SEQ_MAXNLPC = [0, 8, 1, 2, 3]
N_TINY_QUICK, N_TINY_THOROUGH = 120, 3000


def _seq_sizes(maxnlpc):
    nwrap = max(maxnlpc, NWRAP)
    return sorted({1, 2, 3, nwrap - 1, nwrap, nwrap + 1})


def _seq_cases(seed, tier):
    """"for all ... block sizes ... and every block command (DIFF0-3, QLPC of any order in blocks no shorter than the
    predictor history, ZERO, BLOCKSIZE, ...)" over "all command sequences a conforming encoder may emit ... block size
    ... per block": the decoder state carried from block to block (history, means, block size) links CONSECUTIVE blocks
    of different commands and different sizes.  One stream per (first command A, its block size k, maximum LPC order,
    second command B):

        DIFF1[L]  A[k]  B[L]  A[k]  B[k2]  C[L]

    with L = history length + 2 (the header block size), k over {1, 2, 3, history - 1, history, history + 1}, k2 in {1, 2}
    (L when B is QLPC), B's QLPC order the maximum one, C = DIFF3 or QLPC of order min(maxnlpc, k2 + 1) (a predictor that
    reaches back past the short block before it); every block but a forced ZERO one consists of non-zero samples, so
    the history carried into every short block is non-zero.  So every ordered pair (A short, B long), (B long, A short),
    (A short, B short) of {DIFF0..3, QLPC, ZERO} occurs for every k and maxnlpc in {0, 1, 2, 3, 8} (QLPC only where the
    statement allows it: maxnlpc > 0 and block >= history).  Version, mean length, sample type, channel count (and
    whether one channel or all follow the forced sequence) and bit shifts are drawn per stream."""
    rng = _common.make_rng(seed, "C13.seqgrid")
    cases = []
    idx = 0
    for A in SEQ_FIRST:
        for ki in range(6):
            for maxnlpc in SEQ_MAXNLPC:
                nwrap = max(maxnlpc, NWRAP)
                sizes = _seq_sizes(maxnlpc)
                if ki >= len(sizes):
                    continue
                k = sizes[ki]
                for B in SEQ_SECOND:
                    if FN_QLPC in (A, B) and maxnlpc == 0:
                        continue
                    if A == FN_QLPC and k < nwrap:
                        continue
                    L = nwrap + 2
                    k2 = L if B == FN_QLPC else 1 + idx % 2
                    if maxnlpc and idx % 3:
                        C = [L, FN_QLPC, min(maxnlpc, k2 + 1)]
                    else:
                        C = [L, FN_DIFF3]
                    ent = lambda size, cmd: [size, cmd, maxnlpc] if cmd == FN_QLPC else [size, cmd]  # noqa: E731
                    script = [[L, FN_DIFF1], ent(k, A), ent(L, B), ent(k, A), ent(k2, B), C]
                    nchan = int(rng.choice([1, 1, 2, 3]))
                    ftype = int(rng.choice([TYPE_S16HL, TYPE_S16HL, TYPE_S16HL, TYPE_S16LH, TYPE_S16LH, TYPE_AU1, TYPE_AU2]))
                    shifted = bool(rng.random() < 0.3)
                    force = dict(version=int(rng.choice([1, 2])), nmean=int(rng.choice([0, 0, 1, 2, 4])), ftype=ftype,
                                 nchan=nchan, maxnlpc=maxnlpc, blocksize=L, n=sum(e[0] for e in script), kinds=["nonzero"],
                                 script=script, p_midsize=0.0, p_under=0.0, nz_shift=2 if shifted else 0,
                                 shift_policy="max" if shifted else "none", ulong_slack=False)
                    if nchan > 1 and rng.random() < 0.5:
                        force["script_chans"] = [int(rng.integers(0, nchan))]
                    cases.append({"kind": "rt", "seed": seed, "idx": idx, "salt": "seq", "tier": tier, "force": force})
                    idx += 1
    return cases


def _tiny_case(seed, idx, tier):
    """the randomised encoder with "block size ... per block" drawn from 1..4 samples (shorter than / equal to / just
    over the history) mixed with full blocks, on signals with zero runs of 1..6 samples (so that ZERO is often chosen
    for a short block), all header settings random but a small header block size"""
    B0, maxnlpc = [(4, 0), (5, 1), (6, 2), (8, 3), (9, 8), (12, 8), (12, 5), (7, 0), (16, 4), (5, 3)][idx % 10]
    force = dict(blocksize=B0, maxnlpc=maxnlpc, p_midsize=(0.6, 0.4, 0.8)[idx % 3], tiny_blocks=True, kinds=["tiny_bursts"],
                 n=40 + 7 * (idx % 13), p_under=0.0, shift_policy=("none", "none", "max", "random")[idx % 4], nz_shift=(0, 0, 3)[idx % 3])
    return {"kind": "rt", "seed": seed, "idx": idx, "salt": "tiny", "tier": tier, "force": force}


def _random_case(seed, idx, tier):
    c = {"kind": "rt", "seed": seed, "idx": idx, "salt": "rt", "tier": tier}
    if idx % 3 == 0:
        c["file"] = True
    if idx % 7 == 1:
        c["alt_dtype"] = ["int32", "float64", "int16"][(idx // 7) % 3]
    return c


def _error_cases(seed, tier):
    rng = _common.make_rng(seed, "C13.err")
    nstreams, ncuts, nbad = (4, 14, 16) if tier == "quick" else (30, 40, 120)
    cases = []
    small = dict(n=120, blocksize=16, p_under=0.0)
    # truncation
    for i in range(nstreams):
        base = {"seed": seed, "idx": i, "salt": "err", "tier": tier, "force": dict(small)}
        _, _, blob = _build(dict(base, kind="rt"))
        L = len(blob) - 1024
        cuts = {4, 5, 6, 7, 8, 9, 12, 13, L - 1, L - 2, L - 3, L - 4, L - 5, L - 8}
        cuts |= {int(v) for v in rng.integers(5, L, ncuts)}
        for cut in sorted(c for c in cuts if 4 <= c < L):
            cases.append(dict(base, kind="trunc", cut=cut))
    # a long stream cut inside the refill region
    big = {"seed": seed, "idx": 900, "salt": "err", "tier": tier,
           "force": dict(n=3000, nchan=3, ftype=TYPE_S16HL, kinds=["white"], blocksize=256, p_under=0.0, p_midsize=0.0,
                         maxnlpc=0)}
    _, _, blob = _build(dict(big, kind="rt"))
    L = len(blob) - 1024
    if L > 16500:
        for cut in (16379, 16380, 16381, 16384, 16385, L - 1, L - 4, int(rng.integers(16386, L))):
            cases.append(dict(big, kind="trunc", cut=cut))
    # unknown command codes at random block boundaries
    for i in range(nbad):
        code = [9, 10, 11, 12, 15, 16, 31, 40][i % 8] if i < 8 or rng.random() < 0.5 else int(rng.integers(9, 80))
        blk = [0, 1, 2, 99][i % 4] if i < 8 else int(rng.integers(0, 9))
        cases.append({"kind": "badcmd", "seed": seed, "idx": 100 + i, "salt": "err", "tier": tier,
                      "force": dict(small), "inject": [blk, code]})
    # ... followed by operand-like fields that a decoder "tolerating" the command (skipping it, or reading a count and that many
    # bytes, as newer shorten's VERBATIM does) would consume cleanly, so that the rest of the stream still decodes: such a decoder
    # returns data where the property demands IOError
    pads = [[[0, 5]], [[0, 2]], [[0, 8]], [[0, 3]], [[0, 5], [0, 8]], [[1, 5], [65, 8]], [[2, 5], [1, 8], [2, 8]], [[0, 2], [0, 2]]]
    for i, pad in enumerate(pads):
        for code in ([9, 10] if tier == "quick" else [9, 10, 11, 12, 15, 31]):
            for blk in ([0, 99] if tier == "quick" else [0, 1, 2, 99]):
                cases.append({"kind": "badcmd", "seed": seed, "idx": 300 + i, "salt": "err", "tier": tier,
                              "force": dict(small), "inject": [blk, code, pad]})
    # version bytes: everything except 1 and 2
    vbytes = [0, 3, 4, 7, 8, 0x7F, 0x80, 0xFF] if tier == "quick" else [b for b in range(256) if b not in (1, 2)]
    if tier == "quick":
        vbytes += [int(v) for v in rng.choice([b for b in range(9, 255) if b not in (0x7F, 0x80)], 12, replace=False)]
    for b in vbytes:
        cases.append({"kind": "version", "seed": seed, "idx": 200, "salt": "err", "tier": tier,
                      "force": dict(small), "version_byte": b})
    # ftype >= 9
    ftypes = [9, 10, 11, 15, 16, 127, 128, 255, 1000] + [int(v) for v in rng.integers(9, 5000, 6 if tier == "quick" else 60)]
    for ft in ftypes:
        cases.append({"kind": "ftype", "seed": seed, "idx": 201, "salt": "err", "tier": tier,
                      "force": dict(small), "hdr_ftype": ft})
    return cases


# ======================================================================================
# interface
# ======================================================================================
def run(tier: str, seed: int) -> dict:
    _common.use_repo()
    quick = tier == "quick"
    col = _common.Collector(PROPERTY, tier, seed, budget_s=45 if quick else 510)
    tmpdir = tempfile.mkdtemp(prefix="c13_")
    stats = _new_stats()
    _TIMEOUTS[0] = 0
    old_limit = _limit_memory()
    n_total_samples = 0
    longest = 0
    per_clause = {}

    def fail(clause, case, msg):
        per_clause[clause] = per_clause.get(clause, 0) + 1
        if per_clause[clause] <= 4:  # keep room in the failure list for the other clauses
            col.fail(clause, case, msg)

    features = {"refill": 0, "file_route": 0, "mu_law": 0, "v1": 0, "v2": 0, "multi": 0}
    try:
        # 0. self-test of the spec encoder against the spec decoder (no real code involved)
        seq_cases = _seq_cases(seed, tier)
        n_tiny = N_TINY_QUICK if quick else N_TINY_THOROUGH
        self_cases = [{"kind": "rt", "seed": seed, "idx": i, "salt": "self", "tier": "quick"} for i in range(3 if quick else 25)]
        self_cases += seq_cases[:: 23 if quick else 3] + [_tiny_case(seed, i, tier) for i in range(0, n_tiny, 11 if quick else 7)]
        for c in self_cases:
            s, samples, blob = _build(c)
            sd = _spec_decode(blob[1024:], s["n"], s["nchan"])
            if sd.shape != samples.shape or not (sd == samples).all():
                raise AssertionError("C13 stand-in self-test: spec encoder/decoder disagree on %r" % (c,))

        # 1. reference vectors (stream route for all six; file route and raw mu-law codes too)
        vec_jobs = [(n, "stream", None) for n in VECTORS] + [("123_1pcbe", "file", None), ("123_1ulaw", "stream", "uint8")]
        if not quick:
            vec_jobs += [(n, "file", None) for n in VECTORS[1:]] + [("123_2ulaw", "stream", "uint8")]
        for name, route, dtype in vec_jobs:
            case = {"kind": "vector", "name": name, "route": route, "dtype": dtype}
            col.case(case, nontrivial=True, sample=case if name == "123_2ulaw" and route == "stream" else None)
            f = _check_vector(name, route, dtype)
            if f:
                fail(f[0], case, f[1])

        # 1b. module-level arithmetic helpers of the decoder against exact integer arithmetic
        t_h = time.time()
        n_div = n_fix = n_dividends = 0
        have = {n: _helper(n) is not None for n in (DIV_HELPER, FIX_HELPER)}
        for hcase in _helper_cases(seed, tier):
            if not have[DIV_HELPER if hcase["kind"] == "helper_div" else FIX_HELPER]:
                continue
            if hcase["kind"] == "helper_div":
                f = _check_div_helper(hcase)
                n_div += 1
                n_dividends += hcase.pop("_n", 0)
            else:
                f = _check_fix_helper(hcase)
                n_fix += 1
            col.case(hcase, nontrivial=True, sample=hcase if n_div == 1 and n_fix == 0 else None)
            if f:
                fail(f[0], hcase, f[1])
        col.note(
            "decoder helpers checked directly: %s %s (%d divisors: every b <= %d, the %d float-non-invertible ones %s first; "
            "%d (dividend, type) evaluations against exact truncating division), %s %s (%d (type, bit shift) tables); %.1f s"
            % (DIV_HELPER, "present" if have[DIV_HELPER] else "NOT importable - clause C13.arith.truncating_division not run",
               n_div, 256 if quick else 1024, len(_hazard_divisors()), _hazard_divisors(), n_dividends,
               FIX_HELPER, "present" if have[FIX_HELPER] else "NOT importable - clause C13.arith.bitshift_fixup not run",
               n_fix, time.time() - t_h)
        )

        # 2. round trips: the deterministic grid first, then the error clauses, then random streams
        # (the forced command sequences come first: small streams, ~1 ms each)
        cases = seq_cases + _grid_cases(seed, tier) + [_tiny_case(seed, i, tier) for i in range(n_tiny)]
        n_seq, n_grid = len(seq_cases), len(cases) - len(seq_cases) - n_tiny
        errors_pending = True
        target = N_QUICK if quick else N_THOROUGH
        idx = 0
        t_rt = time.time()
        n_rt = 0
        while True:
            if cases:
                case = cases.pop(0)
            else:
                if errors_pending:
                    errors_pending = False
                    for ecase in _error_cases(seed, tier):
                        if _TIMEOUTS[0] >= 3:
                            break
                        col.case(ecase, nontrivial=True, sample=ecase if ecase["kind"] == "trunc" and len(col.samples) < 3 else None)
                        f = _check_error(ecase)
                        if f:
                            fail(f[0], ecase, f[1])
                if idx >= target - n_grid or col.out_of_time() or col.too_many_failures() or _TIMEOUTS[0] >= 3:
                    break
                case = _random_case(seed, idx, tier)
                idx += 1
            before = dict(stats["cmd"])
            fails, s, nbytes = _check_roundtrip(case, tmpdir, stats)
            n_rt += 1
            nontrivial = any(stats["cmd"].get(k, 0) > before.get(k, 0) for k in (0, 1, 2, 3, FN_QLPC))
            col.case(case, nontrivial=nontrivial, sample=case if n_rt in (1, n_seq + 60) else None)
            n_total_samples += s["n"] * s["nchan"]
            longest = max(longest, nbytes - 1024)
            features["refill"] += nbytes - 1024 > 16384
            features["file_route"] += bool(case.get("file"))
            features["mu_law"] += s["ftype"] in (TYPE_AU1, TYPE_AU2)
            features["v%d" % s["version"]] += 1
            features["multi"] += s["nchan"] > 1
            for clause, msg in fails:
                fail(clause, case, msg)
        names = CMD_NAMES
        pairs = stats["pairs"]
        six = sorted(CMD_NAMES)
        missing = [
            "%s[%s]->%s[%s]" % (names[a], "short" if sa else "full", names[b], "short" if sb else "full")
            for a in six for sa in (True, False) for b in six for sb in (True, False)
            if (a, sa, b, sb) not in pairs and not (sa and a == FN_QLPC) and not (sb and b == FN_QLPC)
        ]
        col.note(
            "consecutive blocks of one channel: %d forced-sequence streams (DIFF1[L] A[k] B[L] A[k] B[k2] C[L]; A, B over "
            "DIFF0-3/QLPC/ZERO, k over {1,2,3,history-1,history,history+1}, maxnlpc over %s) + %d short-block random streams; "
            "mid-stream blocks shorter than the history: %d ZERO, %d residual-coded; ZERO blocks shorter than a non-zero "
            "history followed by a predictor reaching back past them (DIFF2/DIFF3 deeper than the block, QLPC): %d; ordered "
            "(command, shorter than history?) pairs of consecutive blocks seen: %d of %d allowed (QLPC never short)%s"
            % (n_seq, SEQ_MAXNLPC, n_tiny, stats["short_zero"], stats["short_coded"], stats["zero_then_deep"],
               len(pairs), 11 * 11, "" if not missing else "; NOT seen: " + ", ".join(missing))
        )
        col.note(
            "round trips: %d streams, %d samples, %.1f s; commands %s; QLPC orders %s; BLOCKSIZE cmds %d (mid-stream %d, "
            "short final %d, blocks shorter than history %d); BITSHIFT cmds %d, shifted blocks %d; longest unary run %d bits; "
            "longest stream %d bytes; streams over the first 16 KiB read %d; file route %d; mu-law %d; v1 %d / v2 %d; "
            "multi-channel %d"
            % (
                n_rt, n_total_samples, time.time() - t_rt,
                {names[k]: v for k, v in sorted(stats["cmd"].items())}, sorted(stats["lpc_orders"]),
                stats["blocksize_cmd"], stats["blocksize_mid"], stats["short_final"], stats["block_lt_history"],
                stats["bitshift_cmd"], stats["shifted_blocks"], stats["max_run"], longest, features["refill"],
                features["file_route"], features["mu_law"], features["v1"], features["v2"], features["multi"],
            )
        )
        col.note(
            "not covered: ftype 7 (lossy TYPE_ULAW; the decoder returns its internal linear values), ftypes 1/2/4/6 "
            "(not SPHERE types), nskip > 0, mu-law bit shifts > 7, QLPC in blocks shorter than max(maxnlpc, 3), "
            "streams cut inside the 4-byte magic (then not recognisable as shorten), block sizes above the header block "
            "size (no conforming encoder emits them); forced sequences hold at most two consecutive short blocks (longer "
            "chains of short blocks only in the random short-block streams)"
        )
    finally:
        _restore_memory(old_limit)
        shutil.rmtree(tmpdir, ignore_errors=True)
    return col.result(
        rule="one case = one stream (or one reference vector / one corrupted stream) decoded by read_signal; a round-trip "
        "case is non-trivial when it holds at least one residual-coded block (DIFF0-3 / QLPC); error and vector cases "
        "always are; one helper case = one divisor (resp. one (sample type, bit shift)) of a module-level decoder helper "
        "over its whole stated grid of dividends (internal values)",
        bound="BOUNDED: %s tier, seed %d: six sph2pipe vectors; %d-stream target of random encoder output (channels 1-3, "
        "<= %d samples/channel, block sizes 1..256, nmean 0..4, LPC order <= 8, bit shift <= 12 (mu-law <= 7), versions "
        "1-2, types S16HL/S16LH/AU1/AU2) plus %d short-block random streams (header block size 4..16, per-block sizes 1..4 "
        "mixed with full blocks, zero runs of 1..6 samples), preceded by %d forced command sequences DIFF1[L] A[k] B[L] A[k] "
        "B[k2] C[L] (A, B each of DIFF0-3/QLPC/ZERO, k in {1,2,3,history-1,history,history+1}, k2 in {1,2}, maximum LPC order "
        "in {0,1,2,3,8}, QLPC only in blocks >= history; longer chains of short blocks only at random) and "
        "by a deterministic grid that includes every block size <= 256 that "
        "floating point cannot invert (%s) and 3,5,7,10,12,100,255 with nmean 1..4, and mean lengths %s with block sizes "
        "3..5, on signals whose block sums lie on / next to exact multiples of the divisor, DIFF0/QLPC only; the decoder's "
        "division helper on divisors 1..%d x (|quotient| <= %d, +-2^e, +-(2^e-1), 200+ seeded 16-bit quotients) x remainders "
        "{0,+-1,+-b//2}; truncations, unknown commands, version bytes and ftypes as enumerated"
        % (tier, seed, N_QUICK if quick else N_THOROUGH, 3400, n_tiny, n_seq, _hazard_divisors(), _hazard_divisors()[:3] + [5, 6, 7, 12],
           256 if quick else 1024, DIV_KSMALL),
        assumptions=ASSUMPTIONS,
    )


def replay(case: dict):
    if isinstance(case, dict) and case.get("kind") == "bitreader":
        from rtc.c13_bits import replay_bitreader
        return replay_bitreader(case)
    _common.use_repo()
    kind = case.get("kind")
    if kind == "vector":
        f = _check_vector(case["name"], case.get("route", "stream"), case.get("dtype"))
        return (f is None), ("vector decodes to its WAV" if f is None else "%s: %s" % f)
    if kind in ("trunc", "badcmd", "version", "ftype"):
        f = _check_error(case)
        return (f is None), ("IOError raised" if f is None else "%s: %s" % f)
    if kind in ("helper_div", "helper_fix"):
        name = DIV_HELPER if kind == "helper_div" else FIX_HELPER
        if _helper(name) is None:
            return True, "decoder has no importable module-level %s; nothing to check" % name
        case = dict(case)
        f = _check_div_helper(case) if kind == "helper_div" else _check_fix_helper(case)
        return (f is None), ("%s agrees with exact integer arithmetic on the case's grid" % name if f is None else "%s: %s" % f)
    if kind == "rt":
        tmpdir = tempfile.mkdtemp(prefix="c13_")
        try:
            fails, s, nbytes = _check_roundtrip(case, tmpdir)
        finally:
            shutil.rmtree(tmpdir, ignore_errors=True)
        if fails:
            return False, "; ".join("%s: %s" % f for f in fails)
        return True, "round trip exact (%d x %d samples, %d stream bytes)" % (s["n"], s["nchan"], nbytes - 1024)
    raise ValueError("unknown case kind %r" % (kind,))


if __name__ == "__main__":
    from rtc import _common
    import sys

    _common.main(sys.modules[__name__])

"""Bounded stand-in for C07: impulse and frequency responses agree, within the advertised supports.

BOUNDED runtime-contract check (never counted as proof; C07 is claimed at bounded level only).
Domain exactly as the statement restricts it: zero-phase banks (triangular, Fbank, Gabor) and
gammatone banks of order >= 3 without L2 scaling; buffer widths
``w >= w0 = max(temporal support, ceil(2 * rate / bandwidth))`` with temporal support
``hi - lo + 1`` from ``supports`` and bandwidth ``f_hi - f_lo`` from ``supports_hz``; four widths per
filter: ``w0, w0 + 1, 2 w0, 4 w0``.  Oracle: ``np.fft.ifft`` of the real ``get_frequency_response``
against the real ``get_impulse_response`` (A-FFT), index sets written out from the definitions.

    C07.idft_matches_impulse   max |ifft(freq) - impulse| <= 2 * THRESHOLD
    C07.real_iff_is_real       impulse response is real-typed exactly when is_real (and a complex one
                               really has a non-zero imaginary part); is_real as documented per bank
    C07.outside_supports       |impulse[t mod w]| < 2 * THRESHOLD for every sample t outside [lo, hi]
    C07.outside_supports_hz    |freq[b]| < 2.5 * THRESHOLD for every bin whose frequency (mod rate,
                               mirrored for real banks) is outside [f_lo, f_hi]
    C07.support_shape          zero-phase: lo < 0 < hi; causal (not max_centered) gammatone: lo == 0
    C07.same_object            (sessions) the statement quantifies over all filters and all buffer widths of ONE
                               bank: a bank object that has already answered other requests (other widths,
                               half=True requests whose output has the same length, truncated responses, the same
                               request before) returns exactly what a freshly built bank of the same configuration
                               returns (A-DET), arrays handed out earlier are neither changed by later calls nor
                               shared with them, and overwriting a returned array does not change later answers.
                               All clauses above are evaluated on the reused object's answers as well.

Case kinds: ``{"bank", "filt", "width"}`` (one buffer on a fresh bank; ``width`` may be given as
``{"mult", "plus"}`` relative to w0) and ``{"bank", "filt", "ops": [[op, width], ...]}`` (a session: the
requests are made in that order on one bank object; op in check / half / full / trunc / imp, where ``check``
evaluates every clause on (get_impulse_response, get_frequency_response) at that width).

Triangular impulse responses have two code paths (the wider half of the triangle is factored out): the
right-heavy one (right - mid > mid - left) is the only reachable one on the strictly concave mel / octave
scales, the other one is taken by about half of the filters of a linear scale (halves equal up to rounding)
and by the Bark filters that straddle one of the scale's two break points (2 and 20.1 Bark).  The run
visits the library's default configurations (40 filters, 16 kHz, 20 Hz..Nyquist) of every bank class and
scale with ALL filters, sweeps Bark banks over num_filts at 8 / 16 kHz for the straddling filters, and
reports the number of filters checked on each path per scale in a note.
"""
import math
import time
import warnings

import numpy as np

from rtc import _common

PROPERTY = "C07"
ASSUMPTIONS = ["A-REAL", "A-FFT (np.fft.ifft is the inverse DFT)", "A-DET"]


def _mods():
    _common.use_repo()
    import pydrobert.speech.config as config
    import pydrobert.speech.filters as F
    import pydrobert.speech.scales as S

    return F, S, config


def _scale_obj(S, sc):
    name = sc["name"]
    if name == "mel":
        return S.MelScaling()
    if name == "bark":
        return S.BarkScaling()
    if name == "linear":
        return S.LinearScaling(sc["low_hz"], sc.get("slope_hz", 1.0))
    if name == "octave":
        return S.OctaveScaling(sc["low_hz"])
    raise ValueError(name)


def _build(F, S, spec):
    kw = dict(num_filts=spec["num_filts"], low_hz=spec["low_hz"], high_hz=spec["high_hz"], sampling_rate=spec["rate"])
    b = spec["bank"]
    with warnings.catch_warnings():
        warnings.simplefilter("ignore")
        if b == "tri":
            return F.TriangularOverlappingFilterBank(_scale_obj(S, spec["scale"]), analytic=spec.get("analytic", False), **kw)
        if b == "fbank":
            return F.Fbank(analytic=spec.get("analytic", False), **kw)
        if b == "gabor":
            return F.GaborFilterBank(_scale_obj(S, spec["scale"]), scale_l2_norm=spec.get("l2", False), erb=spec.get("erb", False), **kw)
        if b == "gamma":
            return F.ComplexGammatoneFilterBank(
                _scale_obj(S, spec["scale"]),
                order=spec.get("order", 4),
                max_centered=spec.get("max_centered", False),
                scale_l2_norm=spec.get("l2", False),
                erb=spec.get("erb", False),
                **kw,
            )
    raise ValueError(b)


def _in_domain(spec):
    if spec["bank"] in ("tri", "fbank", "gabor"):
        return True
    return spec.get("order", 4) >= 3 and not spec.get("l2", False)


def _w0(bank, k):
    lo, hi = bank.supports[k]
    flo, fhi = bank.supports_hz[k]
    rate = bank.sampling_rate
    return int(max(int(hi) - int(lo) + 1, math.ceil(2.0 * rate / (float(fhi) - float(flo)))))


def _check(bank, spec, k, w, thr, keep=None):
    """All clauses on one (filter, buffer width).  Returns (failures, nontrivial, info).
    `keep` (a dict) receives the two arrays as returned by the library (sessions compare them with a fresh bank's)."""
    kind = spec["bank"]
    info = {}
    if not _in_domain(spec):
        return [], False, {"skipped": "bank outside the statement's domain"}
    zero_phase = kind in ("tri", "fbank", "gabor")
    doc_real = kind in ("tri", "fbank") and not spec.get("analytic", False)
    rate = spec["rate"]
    lo, hi = (int(x) for x in bank.supports[k])
    flo, fhi = (float(x) for x in bank.supports_hz[k])
    fails = []
    # --- shape of the temporal support (no buffer involved) ------------------------------------
    if zero_phase:
        if not (lo < 0 < hi):
            fails.append(("C07.support_shape", f"zero-phase filter {k}: supports {(lo, hi)} do not straddle sample 0"))
    elif not spec.get("max_centered", False):
        if lo != 0:
            fails.append(("C07.support_shape", f"causal gammatone filter {k}: supports {(lo, hi)} do not start at sample 0"))
    if bool(bank.is_zero_phase) != zero_phase:
        fails.append(("C07.support_shape", f"is_zero_phase is {bank.is_zero_phase}"))
    if not (fhi > flo) or not math.isfinite(fhi - flo):
        return fails + [("C07.outside_supports_hz", f"supports_hz {(flo, fhi)} is not an interval")], True, info
    w0 = max(hi - lo + 1, int(math.ceil(2.0 * rate / (fhi - flo))))
    info["w0"] = w0
    if w < w0:
        return fails, False, dict(info, skipped=f"buffer {w} shorter than max(temporal support, 2 rate / bandwidth) = {w0}")
    with warnings.catch_warnings():
        warnings.simplefilter("ignore")
        try:
            imp = np.asarray(bank.get_impulse_response(k, w))
            fr = np.asarray(bank.get_frequency_response(k, w))
        except Exception as e:
            return fails + [("C07.idft_matches_impulse", f"{type(e).__name__} raised while computing the responses: {e}")], True, info
    if keep is not None:
        keep["imp"], keep["full"] = imp, fr
    if imp.shape != (w,) or fr.shape != (w,):
        return fails + [("C07.idft_matches_impulse", f"shapes impulse {imp.shape}, frequency {fr.shape} for width {w}")], True, info
    # --- real exactly when is_real --------------------------------------------------------------
    if bool(bank.is_real) != doc_real:
        fails.append(("C07.real_iff_is_real", f"is_real is {bank.is_real} for a bank documented as {'real' if doc_real else 'complex'}"))
    if np.isrealobj(imp) != bool(bank.is_real):
        fails.append(("C07.real_iff_is_real", f"impulse response dtype {imp.dtype} but is_real = {bank.is_real}"))
    elif np.iscomplexobj(imp) and not np.abs(imp.imag).max() > 0:
        fails.append(("C07.real_iff_is_real", "is_real is False but the impulse response has no imaginary part"))
    # --- IDFT -----------------------------------------------------------------------------------
    err = float(np.abs(np.fft.ifft(fr) - imp).max())
    info["idft_over_thr"] = err / thr
    if not (err <= 2 * thr):
        j = int(np.argmax(np.abs(np.fft.ifft(fr) - imp)))
        fails.append(("C07.idft_matches_impulse", f"|ifft(freq) - impulse| reaches {err!r} = {err/thr:.3f} x threshold at sample {j} (allowed 2 x), width {w}"))
    # --- outside the temporal support -------------------------------------------------------------
    mask = np.ones(w, dtype=bool)
    mask[np.arange(lo, hi + 1) % w] = False
    nontrivial = True
    if mask.any():
        a = np.abs(imp)
        t_out = float(a[mask].max())
        info["t_out_over_thr"] = t_out / thr
        if not (t_out < 2 * thr):
            j = int(np.flatnonzero(mask)[np.argmax(a[mask])])
            fails.append(("C07.outside_supports", f"|impulse[{j}]| = {t_out!r} = {t_out/thr:.3f} x threshold outside supports {(lo, hi)} (mod {w}); allowed < 2 x"))
    # --- outside the frequency support --------------------------------------------------------------
    f = np.arange(w) * (rate / w)
    span = fhi - flo
    inside = np.mod(f - flo, rate) <= span
    if doc_real:
        inside |= np.mod(-f - flo, rate) <= span
    outside = ~inside
    if outside.any():
        a = np.abs(fr)
        f_out = float(a[outside].max())
        info["f_out_over_thr"] = f_out / thr
        if not (f_out < 2.5 * thr):
            j = int(np.flatnonzero(outside)[np.argmax(a[outside])])
            fails.append(("C07.outside_supports_hz", f"|freq[{j}]| = {f_out!r} = {f_out/thr:.3f} x threshold at {f[j]:.3f} Hz outside supports_hz {(flo, fhi)}; allowed < 2.5 x"))
    if not np.all(np.isfinite(imp)) or not np.all(np.isfinite(fr)):
        fails.append(("C07.idft_matches_impulse", "non-finite values in a response"))
    seen, out = set(), []
    for c, m in fails:
        if c not in seen:
            seen.add(c)
            out.append((c, m))
    return out, nontrivial, info


def _tri_branch(bank, k):
    """Which of the two code paths of the triangular impulse response filter k takes, decided here from the
    vertices the bank advertises: ("right", ratio) when right - mid > mid - left, else ("left", ratio) with
    ratio = (right - mid) / (mid - left)."""
    rate = float(bank.sampling_rate)
    l, r = (float(x) * 2 * math.pi / rate for x in bank.supports_hz[k])
    m = float(bank.centers_hz[k]) * 2 * math.pi / rate
    ratio = (r - m) / (m - l) if m > l else float("inf")
    return ("right" if r - m > m - l else "left"), ratio


def _same(a, b):
    a, b = np.asarray(a), np.asarray(b)
    return a.dtype == b.dtype and a.shape == b.shape and bool(np.array_equal(a, b))


def _request(bank, k, op, w):
    """One of the plain requests of a session; returns a tuple of arrays / ints."""
    with warnings.catch_warnings():
        warnings.simplefilter("ignore")
        if op == "half":
            return (np.asarray(bank.get_frequency_response(k, w, half=True)),)
        if op == "full":
            return (np.asarray(bank.get_frequency_response(k, w)),)
        if op == "imp":
            return (np.asarray(bank.get_impulse_response(k, w)),)
        if op == "trunc":
            st, tr = bank.get_truncated_response(k, w)
            return (np.asarray(int(st)), np.asarray(tr))
    raise ValueError(op)


def _check_session(F, S, spec, k, ops, thr):
    """The requests `ops` = [[op, width], ...] made in this order on ONE bank object.  Every `check` evaluates all
    clauses of the statement on the reused object's answers; every answer is also compared with that of a bank
    built freshly for this single request.  Returns (failures, nontrivial, info)."""
    bank = _build(F, S, spec)
    fails, info = [], {"ops": len(ops)}
    nontrivial = False
    held = []  # (description, array as returned, private copy)
    history = []

    def hist():
        return ", ".join(f"{o}({w})" for o, w in history[-6:]) or "none"

    def compare(op, w, got, fresh):
        for i, (a, b) in enumerate(zip(got, fresh)):
            if not _same(a, b):
                a, b = np.asarray(a), np.asarray(b)
                if a.shape == b.shape and a.shape:
                    j = int(np.argmax(np.abs(a - b)))
                    where = f"first/largest difference at index {j}: {a[j]!r} vs {b[j]!r}"
                else:
                    where = f"shape/dtype {a.shape}/{a.dtype} vs {b.shape}/{b.dtype}; values {a!r:.60} vs {b!r:.60}"
                fails.append(("C07.same_object", f"filter {k}: request #{len(history)} {op}({w}) on a bank that already answered [{hist()}] differs from a fresh bank's answer ({where})"))
                return

    def one(op, w, tag=""):
        nonlocal nontrivial
        try:
            if op == "check":
                keep = {}
                f, nt, inf = _check(bank, spec, k, w, thr, keep=keep)
                nontrivial = nontrivial or nt
                for c, m in f:
                    fails.append((c, f"[request #{len(history)}{tag} check({w}) after {hist()}] {m}"))
                for key in ("idft_over_thr", "t_out_over_thr", "f_out_over_thr"):
                    if key in inf:
                        info[key] = max(info.get(key, 0.0), inf[key])
                if "imp" in keep:
                    got = (keep["imp"], keep["full"])
                    fb = _build(F, S, spec)
                    with warnings.catch_warnings():
                        warnings.simplefilter("ignore")
                        fresh = (np.asarray(fb.get_impulse_response(k, w)), np.asarray(_build(F, S, spec).get_frequency_response(k, w)))
                    compare(op, w, got, fresh)
                else:
                    got = ()
            else:
                got = _request(bank, k, op, w)
                fresh = _request(_build(F, S, spec), k, op, w)
                compare(op, w, got, fresh)
                for a in got:
                    if not np.all(np.isfinite(a)):
                        fails.append(("C07.idft_matches_impulse", f"non-finite values in {op}({w})"))
        except Exception as e:
            fails.append(("C07.same_object", f"request #{len(history)} {op}({w}) after [{hist()}] raised {type(e).__name__}: {e}"))
            got = ()
        for a in got:
            if isinstance(a, np.ndarray) and a.ndim == 1:
                held.append((f"{op}({w}) #{len(history)}", a, a.copy()))
        history.append((op, w))

    for op, w in ops:
        one(str(op), int(w))
        if len(fails) > 6:
            break
    # arrays handed out earlier: unchanged by later calls, not sharing memory with each other
    for i, (d, a, c) in enumerate(held):
        if not _same(a, c):
            fails.append(("C07.same_object", f"the array returned by {d} was changed by a later call"))
            break
    for i in range(len(held)):
        for j in range(i + 1, len(held)):
            if np.may_share_memory(held[i][1], held[j][1]) and np.shares_memory(held[i][1], held[j][1]):
                fails.append(("C07.same_object", f"the arrays returned by {held[i][0]} and {held[j][0]} share memory"))
                break
        else:
            continue
        break
    # overwrite everything that was handed out, then ask again
    if len(fails) <= 6:
        for d, a, c in held:
            if a.flags.writeable:
                a[...] = np.nan
        seen = set()
        for op, w in ops:
            if op == "check" and w not in seen and len(seen) < 3:
                seen.add(w)
                one("check", int(w), tag=" (after the returned arrays were overwritten)")
    seen, out = set(), []
    for c, m in fails:
        if c not in seen:
            seen.add(c)
            out.append((c, m))
    return out, nontrivial, info


def _shrink_session(case, clause, run_case, budget_s=3.0):
    """Smallest request list (shortest failing prefix, then greedy removal of single requests) on which `clause`
    still fails; run_case(case) -> {clause: message}.  Returns (case, message) or (case, None) if not reproducible."""
    t0 = time.time()
    ops = list(case["ops"])

    def bad(o):
        return clause in run_case(dict(case, ops=o))

    lo, hi = 1, len(ops)
    while lo < hi and time.time() - t0 < budget_s:
        mid = (lo + hi) // 2
        if bad(ops[:mid]):
            hi = mid
        else:
            lo = mid + 1
    ops = ops[:hi]
    j = len(ops) - 2
    while j >= 0 and time.time() - t0 < budget_s:
        cand = ops[:j] + ops[j + 1 :]
        if bad(cand):
            ops = cand
        j -= 1
    small = dict(case, ops=ops)
    msg = run_case(small).get(clause)
    return (small, msg) if msg is not None else (case, None)


def _session_ops(w0, rng, wcap):
    """Requests for one filter: each buffer width w is asked for around half=True requests whose output has the
    same length w (DFT widths 2(w-1) and 2w-1), in both orders, repeated, with truncated / impulse requests in
    between, and the earlier requests again at the end in a seeded order."""
    a, b = w0, w0 + 1
    c = int(rng.integers(w0, 3 * w0 + 1))
    d = int(rng.integers(w0, 2 * w0 + 1))
    ops = []
    for w in (a, b, c):
        ops += [["half", 2 * (w - 1)], ["check", w], ["half", 2 * w - 1], ["check", w]]
    ops += [["check", d], ["half", 2 * (d - 1)], ["half", 2 * d - 1], ["trunc", d], ["imp", d], ["check", d]]
    tail = [["check", a], ["check", b], ["check", c], ["half", 2 * (a - 1)], ["full", a], ["imp", b], ["trunc", c], ["full", 2 * w0], ["half", 2 * w0]]
    ops += [tail[i] for i in rng.permutation(len(tail))]
    return [op for op in ops if 2 <= op[1] <= wcap]


def replay(case):
    F, S, config = _mods()
    thr = float(config.EFFECTIVE_SUPPORT_THRESHOLD)
    spec = case["bank"]
    if not (isinstance(spec, dict) and isinstance(spec.get("scale", {}), dict) and {"bank", "num_filts", "low_hz", "high_hz", "rate"} <= set(spec)):
        raise ValueError("malformed C07 case (bank specification)")  # harness problem, not a verdict on the real code
    try:
        bank = _build(F, S, case["bank"])
    except Exception as e:
        return False, f"C07.idft_matches_impulse: constructor raised {type(e).__name__}: {e}"
    k = int(case["filt"])
    if case.get("ops") is not None:
        fails, nontrivial, info = _check_session(F, S, case["bank"], k, [[str(o), int(w)] for o, w in case["ops"]], thr)
        if fails:
            return False, "; ".join(f"{c}: {m}" for c, m in fails)
        return True, f"holds ({'non-trivial' if nontrivial else 'outside the domain of the statement'}; {info})"
    w = case.get("width")
    if w is None:  # width given relative to w0: {"mult": 2, "plus": 0}
        w = _w0(bank, k) * int(case.get("mult", 1)) + int(case.get("plus", 0))
    fails, nontrivial, info = _check(bank, case["bank"], k, int(w), thr)
    if fails:
        return False, "; ".join(f"{c}: {m}" for c, m in fails)
    return True, f"holds ({'non-trivial' if nontrivial else 'outside the domain of the statement'}; {info})"


# ----------------------------------------------------------------------------------------------
# enumeration
# ----------------------------------------------------------------------------------------------

SCALES = [{"name": "mel"}, {"name": "bark"}, {"name": "linear", "low_hz": 0.0, "slope_hz": 1.0}, {"name": "octave", "low_hz": 20.0}]


def _flag_sets(bank):
    if bank in ("tri", "fbank"):
        return [{"analytic": False}, {"analytic": True}]
    if bank == "gabor":
        return [{"erb": e, "l2": l} for e in (False, True) for l in (False, True)]
    return [{"order": o, "max_centered": mc, "erb": e, "l2": False} for o in (6, 3, 4) for mc in (True, False) for e in (False, True)]


def _grid(tier):
    rates = [8000, 16000, 44100]
    nums = [6, 11, 2] if tier == "quick" else [1, 2, 6, 11, 40]
    for bank in ("gamma", "tri", "gabor", "fbank"):
        for scale in SCALES if bank != "fbank" else [{"name": "mel"}]:
            floor = scale["low_hz"] if scale["name"] == "octave" else 0.0
            for rate in rates:
                for n in nums:
                    for low, high in ((max(20.0, floor), None), (floor, None), (max(300.0, floor), 3400.0)):
                        for flags in _flag_sets(bank):
                            spec = {"bank": bank, "scale": scale, "num_filts": n, "rate": rate, "low_hz": low, "high_hz": high}
                            spec.update(flags)
                            yield spec


def _interleave(grid, perm):
    by = {}
    for i in perm:
        by.setdefault(grid[i]["bank"], []).append(int(i))
    out, j = [], 0
    lists = list(by.values())
    while any(j < len(l) for l in lists):
        for l in lists:
            if j < len(l):
                out.append(l[j])
        j += 1
    return out


def _random_spec(rng):
    bank = ["tri", "fbank", "gabor", "gamma"][int(rng.integers(4))]
    rate = [8000, 11025, 16000, 22050][int(rng.integers(4))]
    if bank == "fbank":
        scale = {"name": "mel"}
    else:
        scale = [
            {"name": "mel"},
            {"name": "bark"},
            {"name": "linear", "low_hz": float(np.round(rng.uniform(-200, 200), 3)), "slope_hz": float(np.round(10 ** rng.uniform(-2, 1), 4))},
            {"name": "octave", "low_hz": float(np.round(10 ** rng.uniform(0.7, 2), 3))},
        ][int(rng.integers(4))]
    floor = scale["low_hz"] if scale["name"] == "octave" else 0.0
    top = float(rate // 2)
    low = float(np.round(rng.uniform(floor, 0.3 * top), 3))
    high = float(np.round(rng.uniform(low + 0.4 * top, top), 3))
    spec = {"bank": bank, "scale": scale, "num_filts": int(rng.integers(1, 13)), "rate": rate, "low_hz": low, "high_hz": high}
    if bank in ("tri", "fbank"):
        spec["analytic"] = bool(rng.integers(2))
    else:
        spec.update(erb=bool(rng.integers(2)), l2=bool(rng.integers(2)) if bank == "gabor" else False)
        if bank == "gamma":
            spec.update(order=int(rng.integers(3, 9)), max_centered=bool(rng.integers(2)))
    return spec


def run(tier, seed):
    F, S, config = _mods()
    thr = float(config.EFFECTIVE_SUPPORT_THRESHOLD)
    quick = tier == "quick"
    col = _common.Collector(PROPERTY, tier, seed, budget_s=45 if quick else 560)
    rng = _common.make_rng(seed, "c07")
    wcap = 12000 if quick else 40000
    worst = {}
    dup = {}
    counts = {"banks": 0, "filters": 0, "capped": 0}

    def do(bank, spec, k, w):
        case = {"bank": spec, "filt": k, "width": w}
        fails, nontrivial, info = _check(bank, spec, k, w, thr)
        col.case(case, nontrivial=nontrivial, sample=case if (nontrivial and col.evaluations % 101 == 0) else None)
        for clause, msg in fails:
            key = (clause, spec["bank"])
            dup[key] = dup.get(key, 0) + 1
            if dup[key] <= 2:
                col.fail(clause, case, msg)
        for key in ("idft_over_thr", "t_out_over_thr", "f_out_over_thr"):
            if key in info:
                kk = f"{spec['bank']}.{key[:-9]}"
                worst[kk] = max(worst.get(kk, 0.0), info[key])

    grid = list(_grid(tier))
    order = _interleave(grid, rng.permutation(len(grid)))
    core = []
    for bank, flags in (
        ("gamma", {"order": 6, "max_centered": True, "erb": False, "l2": False}),
        ("gamma", {"order": 3, "max_centered": True, "erb": True, "l2": False}),
        ("tri", {"analytic": False}),
        ("gabor", {"erb": False, "l2": True}),
        ("fbank", {"analytic": True}),
        ("gamma", {"order": 4, "max_centered": False, "erb": True, "l2": False}),
        ("tri", {"analytic": True}),
        ("gabor", {"erb": True, "l2": False}),
        ("fbank", {"analytic": False}),
    ):
        spec = {"bank": bank, "scale": {"name": "mel"}, "num_filts": 6, "rate": 8000, "low_hz": 20.0, "high_hz": None}
        spec.update(flags)
        core.append(spec)
    # the very narrow Gabor filters whose temporal support is degenerate
    core.append({"bank": "gabor", "scale": {"name": "octave", "low_hz": 20.0}, "num_filts": 40, "rate": 16000, "low_hz": 20.0, "high_hz": None, "erb": False, "l2": False})
    # the library's default configuration (40 filters, 16 kHz, 20 Hz .. Nyquist) of every bank class on every scale
    defaults = []
    for bank, flag_list in (
        ("tri", [{"analytic": False}, {"analytic": True}]),
        ("fbank", [{"analytic": False}, {"analytic": True}]),
        ("gabor", [{"erb": False, "l2": False}]),
        ("gamma", [{"order": 4, "max_centered": False, "erb": False, "l2": False}]),
    ):
        for scale in SCALES if bank != "fbank" else [{"name": "mel"}]:
            for flags in flag_list:
                spec = {"bank": bank, "scale": scale, "num_filts": 40, "rate": 16000, "low_hz": 20.0, "high_hz": None}
                spec.update(flags)
                defaults.append(spec)

    branch = {}  # scale name -> {"right": n, "left": n, "min": smallest (right-mid)/(mid-left) on the left path}
    seen_tri = set()

    def tally(bank, spec, k):
        key = _common.jsonable((spec, k))
        key = repr(key)
        if key in seen_tri:
            return
        seen_tri.add(key)
        which, ratio = _tri_branch(bank, k)
        b = branch.setdefault(spec["scale"]["name"], {"right": 0, "left": 0, "min": 1.0, "material": 0})
        b[which] += 1
        if which == "left":
            b["min"] = min(b["min"], ratio)
            b["material"] += ratio < 1 - 1e-6

    def left_heavy(bank, n):
        """Filters of a triangular bank on the rarely taken path, most asymmetric first."""
        out = []
        for k in range(n):
            which, ratio = _tri_branch(bank, k)
            if which == "left":
                out.append((ratio, k))
        return [k for _, k in sorted(out)]

    def build(spec):
        try:
            return _build(F, S, spec)
        except Exception as e:
            col.case({"bank": spec, "filt": -1, "width": 0}, nontrivial=True)
            col.fail("C07.idft_matches_impulse", {"bank": spec, "filt": 0, "width": None, "mult": 1}, f"constructor raised {type(e).__name__}: {e}")
            return None

    def visit(bank, spec, filts, mults=((1, 0), (1, 1), (2, 0), (4, 0))):
        for k in filts:
            if col.out_of_time():
                break
            try:
                w0 = _w0(bank, k)
            except Exception as e:
                col.case({"bank": spec, "filt": k, "width": 0}, nontrivial=True)
                col.fail("C07.outside_supports_hz", {"bank": spec, "filt": k, "width": None, "mult": 1}, f"supports unusable: {type(e).__name__}: {e}")
                continue
            counts["filters"] += 1
            done = False
            for m, p in mults:
                w = m * w0 + p
                if w > wcap:
                    counts["capped"] += 1
                    continue
                do(bank, spec, k, w)
                done = True
            if done and spec["bank"] == "tri":
                tally(bank, spec, k)

    # --- A. default configurations, every filter ------------------------------------------------------
    phase_t = {}
    t_a = time.time()
    for spec in defaults:
        if col.out_of_time() or col.too_many_failures():
            break
        bank = build(spec)
        if bank is None:
            continue
        counts["banks"] += 1
        counts["defaults"] = counts.get("defaults", 0) + 1
        n = spec["num_filts"]
        visit(bank, spec, range(n), mults=((1, 0), (1, 1), (2, 0)))
        visit(bank, spec, sorted({0, 1, n // 2, n - 2, n - 1} | set(left_heavy(bank, n)[:3] if spec["bank"] == "tri" else [])), mults=((4, 0),))

    # --- B. Bark banks whose filters straddle a break point of the scale (rarely taken path of the triangular
    #        impulse response): num_filts 16..18 at 8 kHz with every filter, then a sweep over num_filts and
    #        seeded ranges with the filters on that path (and one neighbour on the usual path)
    phase_t['defaults'] = time.time() - t_a
    t_b = time.time()
    sweep = []
    for n in (16, 17, 18):
        for a in (False, True):
            sweep.append(({"bank": "tri", "scale": {"name": "bark"}, "num_filts": n, "rate": 8000, "low_hz": 20.0, "high_hz": None, "analytic": a}, True))
    ns = list(range(3, 61 if quick else 101))
    for n in ns:
        for rate in (8000, 16000):
            for a in (False, True):
                sweep.append(({"bank": "tri", "scale": {"name": "bark"}, "num_filts": n, "rate": rate, "low_hz": 20.0, "high_hz": None, "analytic": a}, False))
    for _ in range(40 if quick else 400):
        rate = [8000, 11025, 16000, 22050, 44100][int(rng.integers(5))]
        top = rate / 2.0
        low = float(np.round(rng.uniform(0.0, 150.0), 2))
        high = float(np.round(rng.uniform(0.8 * top, top), 2)) if rng.integers(2) else None
        sweep.append(({"bank": "tri", "scale": {"name": "bark"}, "num_filts": int(rng.integers(3, 64)), "rate": rate, "low_hz": low, "high_hz": high, "analytic": bool(rng.integers(2))}, False))
    for spec, everything in sweep:
        if col.out_of_time() or col.too_many_failures() or time.time() - t_b > (8 if quick else 90):
            break
        bank = build(spec)
        if bank is None:
            continue
        n = spec["num_filts"]
        lh = left_heavy(bank, n)
        counts["sweep_banks"] = counts.get("sweep_banks", 0) + 1
        counts["sweep_left"] = counts.get("sweep_left", 0) + len(lh)
        if everything:
            filts = list(range(n))
        else:
            filts = sorted(set(lh[:3]) | {min(n - 1, k + 1) for k in lh[:1]})
        if filts:
            counts["banks"] += 1
            visit(bank, spec, filts, mults=((1, 0), (1, 1), (2, 0), (4, 0)) if everything else ((1, 0), (1, 1), (2, 1)))

    # --- C. sessions: many requests on one bank object ------------------------------------------------------
    phase_t['bark sweep'] = time.time() - t_b
    t_c = time.time()
    n_sessions = 0
    sess_cap = 3000 if quick else 12000
    for spec in core + defaults + ([] if quick else [grid[i] for i in order[:200]]):
        if col.out_of_time() or col.too_many_failures() or time.time() - t_c > (6 if quick else 80):
            break
        if not _in_domain(spec):
            continue
        bank = build(spec)
        if bank is None:
            continue
        n = spec["num_filts"]
        ks = {int(rng.integers(0, n))}
        if spec["bank"] == "tri":
            ks.update(left_heavy(bank, n)[:1])
        for k in sorted(ks):
            try:
                w0 = _w0(bank, k)
            except Exception:
                continue  # reported by the grid walk
            if 3 * w0 > sess_cap:
                continue
            ops = _session_ops(w0, rng, sess_cap)
            case = {"bank": spec, "filt": k, "ops": ops}
            fails, nontrivial, info = _check_session(F, S, spec, k, ops, thr)
            n_sessions += 1
            counts["session_requests"] = counts.get("session_requests", 0) + len(ops)
            col.case(case, nontrivial=nontrivial, sample=case if n_sessions == 1 else None)
            for clause, msg in fails:
                key = (clause, spec["bank"])
                dup[key] = dup.get(key, 0) + 1
                if dup[key] <= 2:
                    small, m = _shrink_session(case, clause, lambda c: dict(_check_session(F, S, c["bank"], c["filt"], c["ops"], thr)[0]))
                    if m is not None and len(small["ops"]) == 1 and small["ops"][0][0] == "check":
                        # not a matter of history: report the plain (filter, width) case if it fails on its own
                        plain = {"bank": spec, "filt": k, "width": int(small["ops"][0][1])}
                        pf = dict(_check(_build(F, S, spec), spec, k, plain["width"], thr)[0])
                        if clause in pf:
                            small, m = plain, pf[clause]
                    col.fail(clause, small, m if m is not None else msg)

    phase_t['sessions'] = time.time() - t_c
    # --- D. the grid -----------------------------------------------------------------------------------------
    def _specs():
        for sp in core:
            yield sp
        for i in order:
            yield grid[i]
        # grid exhausted (thorough tier): seeded random configurations until the budget is used
        for _ in range(0 if quick else 4000):
            yield _random_spec(rng)

    for n_spec, spec in enumerate(_specs()):
        if col.out_of_time() or col.too_many_failures():
            break
        if n_spec >= len(core) and n_spec % 5 == 4:
            spec = _random_spec(rng)
        bank = build(spec)
        if bank is None:
            continue
        counts["banks"] += 1
        n = spec["num_filts"]
        if n <= 11:
            filts = list(range(n))
        else:
            extra_k = left_heavy(bank, n)[:3] if spec["bank"] == "tri" else []
            filts = sorted({0, 1, n // 2, n - 2, n - 1, int(rng.integers(0, n)), int(rng.integers(0, n))} | set(extra_k))
        visit(bank, spec, filts)
    extra = {k: v - 2 for k, v in dup.items() if v > 2}
    if extra:
        col.note("further failing cases not listed (same clause and bank class): " + ", ".join(f"{c}/{b}: {v}" for (c, b), v in sorted(extra.items())))
    col.note("measured worst value / threshold (allowed: idft 2, t_out 2, f_out 2.5): " + ", ".join(f"{k} {v:.3f}" for k, v in sorted(worst.items())))
    col.note(f"banks {counts['banks']}, filters {counts['filters']}, (filter, width) pairs skipped because width > {wcap}: {counts['capped']}")
    col.note(
        f"default configurations (40 filters, 16 kHz, 20 Hz..Nyquist, every bank class x scale, all filters): {counts.get('defaults', 0)}/{len(defaults)}; "
        f"Bark break-point sweep: {counts.get('sweep_banks', 0)}/{len(sweep)} banks, {counts.get('sweep_left', 0)} filters found on the left-heavy path; "
        f"sessions (one bank object, many requests): {n_sessions} with {counts.get('session_requests', 0)} requests; "
        + "wall per phase: " + ", ".join(f"{k} {v:.1f} s" for k, v in phase_t.items())
    )
    col.note(
        "triangular impulse response, distinct (bank, filter) checked per code path [right-heavy: right-mid > mid-left | else (of which the halves differ by > 1e-6, smallest (right-mid)/(mid-left))]: "
        + "; ".join(f"{sc} {b['right']} | {b['left']} ({b['material']}, {b['min']:.4f})" for sc, b in sorted(branch.items()))
        + "  (mel and octave are strictly concave: the else path is unreachable through the constructor)"
    )
    return col.result(
        rule="one case per (bank configuration, filter index, buffer width); widths w0, w0+1, 2 w0, 4 w0 with w0 = max(temporal support, ceil(2 rate / bandwidth)) read off the bank's supports / supports_hz; every case is inside the statement's domain and exercises all clauses (non-trivial)",
        bound=(
            f"BOUNDED ({tier}): zero-phase banks and gammatone order in {{3,4,6}} without L2 scaling; 4 scales x rates {{8k,16k,44.1k}} x num_filts "
            f"{'{2,6,11}' if quick else '{1,2,6,11,40}'} x 3 ranges x flags ({len(grid)} configurations, seeded class-interleaved order within the time budget, every 5th a seeded random "
            f"configuration with order 3..8{'' if quick else ', then random configurations until the budget is used'}); all filters of a bank (n <= 11), else ends, middle, 2 random and (triangular) up to 3 left-heavy ones; buffer widths <= {wcap}.  "
            f"Before the grid: the {len(defaults)} default configurations (40 filters, 16 kHz, 20 Hz..Nyquist; every bank class x scale; all filters at w0, w0+1, 2 w0, a subset at 4 w0), "
            f"triangular Bark banks (8 kHz with 16..18 filters: all filters; num_filts 3..{ns[-1]} at 8 / 16 kHz real and analytic plus seeded ranges / rates: the filters straddling a break point of the scale and a neighbour), "
            f"and sessions of ~27 requests on one bank object (buffer widths w0, w0+1 and two seeded ones <= 3 w0, each around half=True requests of the same output length) for the core and default banks with 3 w0 <= {sess_cap}"
        ),
        assumptions=ASSUMPTIONS,
    )


if __name__ == "__main__":
    import sys

    from rtc import _common

    _common.main(sys.modules[__name__])

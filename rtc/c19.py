"""Bounded stand-in for C19: scaling functions are strictly increasing and exactly invertible.

Clauses (ids):
  C19.inverse_hz      s2h(h2s(f)) == f         |err| <= 1e-9*|f| + 1e-12
  C19.inverse_scale   h2s(s2h(s)) == s         |err| <= 1e-9*|s| + 1e-12
  C19.monotone_h2s    f < g  =>  h2s(f) < h2s(g) on sorted distinct grids
  C19.monotone_s2h    s < t  =>  s2h(s) < s2h(t)
  C19.bark_continuity one-sided values next to the Bark break-points agree with the value at the
                      break-point (both directions of the map), 1e-9 relative
  C19.mel_formula     mel = 1127 ln(1 + f/700) and its inverse; 1000 Hz -> 1000 mel within 0.02
  C19.bark_formula    Traunmueller: z = 26.81 f/(1960+f) - 0.53, z<2: z+0.15(2-z), z>20.1: z+0.22(z-20.1)
  C19.octave_rejects  OctaveScaling(low_hz <= 0) raises ValueError; positive low_hz accepted
The oracles are written from the literature / the property text with mpmath (50 digits), never
with the functions under test.
"""
import math

import numpy as np

from rtc import _common

PROPERTY = "C19"
RTOL = 1e-9
ATOL = 1e-12  # absolute floor: the relative error is undefined at f = 0 / s = 0
F_MAX = 1e5
F_LOG_MIN = 1e-3

ASSUMPTIONS = ["A-REAL", "A-MATH"]


# ------------------------------------------------------------------------------------------
# independent oracles (mpmath, from the literature)


def _mp():
    import mpmath

    mpmath.mp.dps = 50
    return mpmath


def _o_h2s(kind, params, f):
    mp = _mp()
    f = mp.mpf(f)
    if kind == "mel":
        return 1127 * mp.log(1 + f / 700)
    if kind == "bark":
        z = mp.mpf("26.81") * f / (1960 + f) - mp.mpf("0.53")
        if z < 2:
            z = z + mp.mpf("0.15") * (2 - z)
        elif z > mp.mpf("20.1"):
            z = z + mp.mpf("0.22") * (z - mp.mpf("20.1"))
        return z
    if kind == "linear":
        return (f - mp.mpf(params["low_hz"])) * mp.mpf(params["slope_hz"])
    if kind == "octave":
        return mp.log(f / mp.mpf(params["low_hz"]), 2)
    raise ValueError(kind)


def _o_s2h(kind, params, s):
    mp = _mp()
    s = mp.mpf(s)
    if kind == "mel":
        return 700 * (mp.exp(s / 1127) - 1)
    if kind == "bark":
        # inverse of the corrections: s = 0.85 z + 0.3 (z < 2), s = 1.22 z - 0.22*20.1 (z > 20.1)
        if s < 2:
            z = (s - mp.mpf("0.3")) / mp.mpf("0.85")
        elif s > mp.mpf("20.1"):
            z = (s + mp.mpf("0.22") * mp.mpf("20.1")) / mp.mpf("1.22")
        else:
            z = s
        # z = 26.81 f/(1960+f) - 0.53  <=>  f = 1960 (z+0.53)/(26.81-0.53-z)
        return 1960 * (z + mp.mpf("0.53")) / (mp.mpf("26.81") - mp.mpf("0.53") - z)
    if kind == "linear":
        return s / mp.mpf(params["slope_hz"]) + mp.mpf(params["low_hz"])
    if kind == "octave":
        return mp.mpf(2) ** s * mp.mpf(params["low_hz"])
    raise ValueError(kind)


def _bark_breaks():
    """[(scale value, Hz)] of the two correction break-points, from the published formula."""
    mp = _mp()
    out = []
    for zb in ("2", "20.1"):
        z = mp.mpf(zb)
        fb = 1960 * (z + mp.mpf("0.53")) / (mp.mpf("26.81") - mp.mpf("0.53") - z)
        out.append((float(z), float(fb)))
    return out


# ------------------------------------------------------------------------------------------


def _make(kind, params):
    from pydrobert.speech import scales

    if kind == "mel":
        return scales.MelScaling()
    if kind == "bark":
        return scales.BarkScaling()
    if kind == "linear":
        return scales.LinearScaling(params["low_hz"], params["slope_hz"])
    if kind == "octave":
        return scales.OctaveScaling(params["low_hz"])
    raise ValueError(kind)


def _f_lo(kind, params):
    return float(params["low_hz"]) if kind == "octave" else 0.0


def _float_image(kind, params):
    lo = _f_lo(kind, params)
    return float(_o_h2s(kind, params, lo)), float(_o_h2s(kind, params, F_MAX))


def _grid(case):
    """Deterministic grid of the case (Hz for dir 'hz', scale values for dir 'scale')."""
    if case.get("points") is not None:
        return np.asarray(case["points"], dtype=np.float64)
    kind, params = case["scaling"], case.get("params") or {}
    n = int(case.get("n", 10000))
    lo = _f_lo(kind, params)
    g = case["grid"]
    if case["dir"] == "hz":
        if g == "log":
            x = np.geomspace(max(lo, F_LOG_MIN), F_MAX, n)
        elif g == "lin":
            x = np.linspace(lo, F_MAX, n)
        elif g == "rand":
            rng = _common.make_rng(case["seed"], "c19:" + case["salt"])
            x = np.sort(np.concatenate([rng.uniform(lo, F_MAX, n // 2), np.exp(rng.uniform(np.log(max(lo, F_LOG_MIN)), np.log(F_MAX), n - n // 2))]))
        elif g == "breaks":
            pts = []
            for _, fb in _bark_breaks():
                k = np.arange(-200, 201)
                pts.append(fb * (1 + k * 1e-9))
                pts.append(fb * (1 + k * 1e-4))
            x = np.sort(np.concatenate(pts))
        else:
            raise ValueError(g)
    else:
        s0, s1 = _float_image(kind, params)
        if g == "lin":
            x = np.linspace(s0, s1, n)
        elif g == "log":
            # image of the log-spaced Hz grid under the oracle: dense near the low end
            x = s0 + np.geomspace(1e-6 * (s1 - s0), (s1 - s0), n)
        elif g == "rand":
            rng = _common.make_rng(case["seed"], "c19s:" + case["salt"])
            x = np.sort(rng.uniform(s0, s1, n))
        elif g == "breaks":
            pts = []
            for sb, _ in _bark_breaks():
                k = np.arange(-200, 201)
                pts.append(sb * (1 + k * 1e-9))
                pts.append(sb * (1 + k * 1e-4))
            x = np.sort(np.concatenate(pts))
        else:
            raise ValueError(g)
        x = x[(x >= s0) & (x <= s1)]
    return np.unique(x)


def _minimal(case, pts):
    c = {k: v for k, v in case.items() if k not in ("points",)}
    c["points"] = [float(p) for p in pts]
    return c


def _check_case(case):
    """Run one case against the real code. Returns (failures, nontrivial, stats) where
    failures = [(clause, minimal_case, message)]."""
    _common.use_repo()
    chk = case["check"]
    fails = []
    stats = {}
    if chk == "octave_rejects":
        from pydrobert.speech import scales

        v = case["low_hz"]
        v = float(v)
        if case["expect"] == "ValueError":
            try:
                scales.OctaveScaling(v)
            except ValueError:
                pass
            except Exception as e:  # noqa
                fails.append(("C19.octave_rejects", case, f"OctaveScaling({v!r}) raised {type(e).__name__}, not ValueError"))
            else:
                fails.append(("C19.octave_rejects", case, f"OctaveScaling({v!r}) did not raise"))
        else:
            try:
                sc = scales.OctaveScaling(v)
                if sc.low_hz != v:
                    fails.append(("C19.octave_rejects", case, f"low_hz not stored: {sc.low_hz!r}"))
            except Exception as e:  # noqa
                fails.append(("C19.octave_rejects", case, f"OctaveScaling({v!r}) raised {type(e).__name__} for a positive low_hz"))
        return fails, True, stats

    kind, params = case["scaling"], case.get("params") or {}
    sc = _make(kind, params)
    h2s = lambda v: float(sc.hertz_to_scale(float(v)))
    s2h = lambda v: float(sc.scale_to_hertz(float(v)))

    if chk == "mel_1000":
        got = h2s(1000.0)
        if not abs(got - 1000.0) <= 0.02:
            fails.append(("C19.mel_formula", case, f"h2s(1000 Hz) = {got!r}, not within 0.02 of 1000 mel"))
        got = s2h(1000.0)
        want = float(_o_s2h("mel", {}, 1000.0))
        if not abs(got - want) <= RTOL * abs(want):
            fails.append(("C19.mel_formula", case, f"s2h(1000 mel) = {got!r}, published inverse gives {want!r}"))
        return fails, True, stats

    if chk == "bark_continuity":
        worst = 0.0
        for sb, fb in _bark_breaks():
            # forward map: left/right values next to the break-point against the value there
            deltas = [0.0] + [2.0 ** -k for k in range(40, 53)]
            for sign in (-1, 1):
                for d in deltas:
                    f = fb * (1 + sign * d)
                    for f_ in (f, float(np.nextafter(f, -np.inf)), float(np.nextafter(f, np.inf))):
                        got = h2s(f_)
                        err = abs(got - sb) / sb
                        worst = max(worst, err)
                        if not err <= RTOL:
                            fails.append(("C19.bark_continuity", _minimal(dict(case, dir="hz"), [f_]), f"h2s({f_!r}) = {got!r} but the break-point value is {sb} (rel {err:.3g})"))
                    s = sb * (1 + sign * d)
                    for s_ in (s, float(np.nextafter(s, -np.inf)), float(np.nextafter(s, np.inf))):
                        got = s2h(s_)
                        err = abs(got - fb) / fb
                        worst = max(worst, err)
                        if not err <= RTOL:
                            fails.append(("C19.bark_continuity", _minimal(dict(case, dir="scale"), [s_]), f"s2h({s_!r}) = {got!r} but the break-point value is {fb!r} Hz (rel {err:.3g})"))
            # one-sided limits compared with each other
            fl, fr = float(np.nextafter(fb, -np.inf)), float(np.nextafter(fb, np.inf))
            a, b = h2s(fl), h2s(fr)
            if not abs(a - b) <= RTOL * abs(sb):
                fails.append(("C19.bark_continuity", _minimal(dict(case, dir="hz"), [fl, fr]), f"jump of h2s across {fb!r} Hz: {a!r} vs {b!r}"))
            sl, sr = float(np.nextafter(sb, -np.inf)), float(np.nextafter(sb, np.inf))
            a, b = s2h(sl), s2h(sr)
            if not abs(a - b) <= RTOL * abs(fb):
                fails.append(("C19.bark_continuity", _minimal(dict(case, dir="scale"), [sl, sr]), f"jump of s2h across scale {sb!r}: {a!r} vs {b!r}"))
        stats["worst_rel"] = worst
        return fails[:6], True, stats

    x = _grid(case)
    n = len(x)
    nontrivial = n >= (2 if chk.startswith("monotone") else 1)
    if chk == "inverse":
        if case["dir"] == "hz":
            first, second, clause, nm = h2s, s2h, "C19.inverse_hz", "s2h(h2s(f))"
        else:
            first, second, clause, nm = s2h, h2s, "C19.inverse_scale", "h2s(s2h(s))"
        worst, wpt, wgot = -1.0, None, None
        worst_rel = worst_abs = 0.0
        for v in x:
            got = second(first(v))
            err = abs(got - v)
            if not math.isfinite(got):
                err = float("inf")
            slack = err - (RTOL * abs(v) + ATOL)
            if abs(v) >= 1e-3 and math.isfinite(err):
                worst_rel = max(worst_rel, err / abs(v))
            elif math.isfinite(err):
                worst_abs = max(worst_abs, err)
            if slack > worst:
                worst, wpt, wgot = slack, float(v), got
        stats["worst_rel"] = worst_rel
        stats["worst_abs"] = worst_abs
        if worst > 0:
            fails.append((clause, _minimal(case, [wpt]), f"{nm} = {wgot!r} for {wpt!r} (|err| = {abs(wgot - wpt):.3g} > 1e-9*|x| + 1e-12)"))
    elif chk == "monotone":
        fn = h2s if case["dir"] == "hz" else s2h
        clause = "C19.monotone_h2s" if case["dir"] == "hz" else "C19.monotone_s2h"
        y = np.array([fn(v) for v in x])
        if not np.all(np.isfinite(y)):
            i = int(np.flatnonzero(~np.isfinite(y))[0])
            fails.append((clause, _minimal(case, [x[i]]), f"non-finite value {y[i]!r} at {x[i]!r}"))
        else:
            d = np.diff(y)
            bad = np.flatnonzero(~(d > 0))
            if len(bad):
                i = int(bad[0])
                fails.append((clause, _minimal(case, [x[i], x[i + 1]]), f"not strictly increasing: f({x[i]!r}) = {y[i]!r} >= f({x[i+1]!r}) = {y[i+1]!r} ({len(bad)} such pairs)"))
    elif chk == "formula":
        if case["dir"] == "hz":
            fn, orc, nm = h2s, _o_h2s, "hertz_to_scale"
        else:
            fn, orc, nm = s2h, _o_s2h, "scale_to_hertz"
        clause = f"C19.{kind}_formula"
        worst, wpt, wgot, wwant = -1.0, None, None, None
        worst_rel = worst_abs = 0.0
        for v in x:
            got = fn(v)
            want = float(orc(kind, params, float(v)))
            err = abs(got - want) if math.isfinite(got) else float("inf")
            slack = err - (RTOL * abs(want) + ATOL)
            if abs(want) >= 1e-3 and math.isfinite(err):
                worst_rel = max(worst_rel, err / abs(want))
            elif math.isfinite(err):
                worst_abs = max(worst_abs, err)
            if slack > worst:
                worst, wpt, wgot, wwant = slack, float(v), got, want
        stats["worst_rel"] = worst_rel
        stats["worst_abs"] = worst_abs
        if worst > 0:
            fails.append((clause, _minimal(case, [wpt]), f"{nm}({wpt!r}) = {wgot!r}, published formula gives {wwant!r}"))
    else:
        raise ValueError(f"unknown check {chk!r}")
    stats["n"] = n
    return fails, nontrivial, stats


# ------------------------------------------------------------------------------------------


def _scalings(tier, seed):
    out = [("bark", {}), ("mel", {})]
    lin = [(0.0, 1.0), (20.0, 3.7), (-100.0, 1e-3), (1234.5, 1e3)]
    octv = [20.0, 1e-3, 440.0, 1e4, 1e-10, 5e-11]  # incl. values at / below the implementation's internal 1e-10 floor
    if tier == "thorough":
        rng = _common.make_rng(seed, "c19:params")
        lin += [(float(rng.uniform(-1e3, 2e3)), float(10 ** rng.uniform(-4, 4))) for _ in range(6)]
        octv += [float(10 ** rng.uniform(-3, 4.5)) for _ in range(6)]
    else:
        rng = _common.make_rng(seed, "c19:params")
        lin += [(float(rng.uniform(-1e3, 2e3)), float(10 ** rng.uniform(-4, 4)))]
        octv += [float(10 ** rng.uniform(-3, 4.5))]
    out += [("linear", {"low_hz": a, "slope_hz": b}) for a, b in lin]
    out += [("octave", {"low_hz": a}) for a in octv]
    return out


def _enumerate(tier, seed):
    n = 10000 if tier == "quick" else 50000
    n_formula = 2000 if tier == "quick" else 10000
    cases = []
    cases.append({"check": "bark_continuity", "scaling": "bark"})
    cases.append({"check": "mel_1000", "scaling": "mel"})
    for v in (0.0, -0.0, -1.0, -1e-300, -20.0, float("-inf")):
        cases.append({"check": "octave_rejects", "low_hz": v, "expect": "ValueError"})
    for v in (1e-3, 20.0, 1e5):
        cases.append({"check": "octave_rejects", "low_hz": v, "expect": "ok"})
    scs = _scalings(tier, seed)
    for kind, params in scs:
        grids = ["log", "lin", "rand"] + (["breaks"] if kind == "bark" else [])
        for d in ("hz", "scale"):
            for g in grids:
                base = {"scaling": kind, "params": params, "dir": d, "grid": g, "n": n}
                if g == "rand":
                    base.update(seed=seed, salt=f"{kind}:{sorted(params.items())}")
                cases.append(dict(base, check="inverse"))
                cases.append(dict(base, check="monotone"))
                if kind in ("mel", "bark"):
                    cases.append(dict(base, check="formula", n=n_formula if g != "breaks" else n))
    return cases


def run(tier: str, seed: int) -> dict:
    _common.use_repo()
    col = _common.Collector(PROPERTY, tier, seed, budget_s=50 if tier == "quick" else 500)
    worst = {}
    worst_abs = 0.0
    npts = 0
    for case in _enumerate(tier, seed):
        if col.out_of_time() or col.too_many_failures():
            col.note("stopped early (time or failure cap)")
            break
        try:
            fails, nontrivial, stats = _check_case(case)
        except Exception as e:  # noqa
            fails, nontrivial, stats = [("C19.exception", case, f"{type(e).__name__}: {e}")], False, {}
        col.case(case, nontrivial=nontrivial, sample=case if case["check"] in ("inverse", "bark_continuity") else None)
        npts += stats.get("n", 1)
        if "worst_rel" in stats:
            k = f"{case['check']}:{case.get('scaling')}:{case.get('dir', '')}"
            worst[k] = max(worst.get(k, 0.0), stats["worst_rel"])
            worst_abs = max(worst_abs, stats.get("worst_abs", 0.0))
        for clause, c, msg in fails:
            col.fail(clause, c, msg)
    col.note("worst relative round-off measured (tolerance 1e-9): " + ", ".join(f"{k}={v:.2e}" for k, v in sorted(worst.items())) + f"; worst absolute error where |x| < 1e-3 (floor 1e-12): {worst_abs:.2e}")
    col.note(f"points evaluated over all grids: {npts}; Bark break-points from the published formula: " + ", ".join(f"scale {s} <-> {f!r} Hz" for s, f in _bark_breaks()))
    return col.result(
        rule="one case = (scaling class + parameters, clause, direction, grid); grids are n = 1e4 (quick) / 5e4 (thorough) log-spaced (1e-3..1e5 Hz), n linear-spaced ([0 or low_hz, 1e5] Hz), n seeded random points, their scale images, and (Bark) +-200 steps of 1e-9 and 1e-4 relative around both break-points; non-trivial when the grid has >= 1 point (>= 2 for monotonicity)",
        bound="BOUNDED: finite grids on [0, 1e5] Hz (octave from low_hz); linear (low_hz in [-1e3,2e3], slope_hz in [1e-4,1e4], slope > 0) and octave (low_hz in [1e-3, 3e4]) parameter samples; round-trip tolerance 1e-9 relative + 1e-12 absolute",
        assumptions=ASSUMPTIONS,
    )


def replay(case: dict):
    _common.use_repo()
    try:
        fails, _, _ = _check_case(case)
    except Exception as e:  # noqa
        return False, f"C19.exception {type(e).__name__}: {e}"
    if fails:
        return False, "; ".join(f"{c}: {m}" for c, _, m in fails[:3])
    return True, f"C19 {case.get('check')} holds on the case"


if __name__ == "__main__":
    from rtc import _common
    import sys

    _common.main(sys.modules[__name__])

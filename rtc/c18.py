"""Bounded stand-in for C18: pre-processors apply the documented sample-wise transforms.

Clauses (ids):
  C18.preemph.values      y[0] = x[0], y[i] = x[i] - coeff*x[i-1] in float64 (old x[i-1]), cast to the input
                          dtype; oracle = explicit Python loop in float64 then astype; integers exact,
                          floats rtol 1e-9 (bit-equality is measured and reported)
  C18.preemph.dtype_shape result dtype / shape = input dtype / shape
  C18.preemph.input_untouched   in_place=False: the input (also read-only / strided views) is bit-identical after
  C18.preemph.in_place    in_place=True gives the same values; a float64 input is written through
  C18.dither.independent  same numpy seed, two different signals -> same noise (out - in in float64)
  C18.dither.linear       noise(c)/c is the same vector for every coeff c (same seed)
  C18.dither.identity0    coeff 0 is the identity
  C18.dither.reproducible same seed -> same output; another seed -> another output
  C18.dither.moments      mean 0 and standard deviation coeff within 4.5 standard errors on 1e5 samples
  C18.dither.dtype_values result dtype = input dtype, value = cast(x64 + noise)
  C18.dither.input_untouched / C18.dither.in_place   as for pre-emphasis

"for all signal lengths (0, 1, ...)": besides the short signals, every clause is also run on signals LONGER THAN ANY
PLAUSIBLE INTERNAL BLOCK of an implementation that works piecewise (2^16 + 2, 2^17 + 3 and 300007 samples, for every
dtype and in_place setting; 2^k + small and exact powers of two from 2^10 to 2^18 for two dtypes), right after the
tiny explicit signals.  They are compared SAMPLE BY SAMPLE with the same oracle (the recurrence uses the OLD x[i-1]
at every i, so a single sample computed from an already overwritten predecessor - one in 65536 - is a violation);
the message lists the first wrong indices so that a regular spacing is visible.  For the dither, "adds noise" is read
per sample: the noise read off a zero signal is non-zero at every sample (an exact 0.0 has probability zero).

ONE INSTANCE, SEVERAL CALLS (check "seq"): the statement speaks of `Preemphasize.apply` / `Dither.apply`, not of the
first call of a fresh object, so a pre-processor object is also driven through sequences of calls (equal and
different lengths, same and different dtypes, in_place False / True / default, contiguous / strided / read-only
inputs, a result or an input of an earlier call fed back in, the public `coeff` attribute re-assigned between calls).
After EVERY call: the value clause of that call against the same independent oracle (= what a fresh instance must
give), and every array the caller still holds - results "returned" earlier and inputs that the text says are left
"untouched unless in_place is set" - is compared bit by bit with what it was before the call; only the array handed in
with in_place=True may differ.
  C18.preemph.result_stable / C18.dither.result_stable   an array returned by an earlier call changed afterwards
  (an input changed -> .input_untouched, also when the input is an earlier result or belongs to an earlier call)

EXTREME SAMPLE VALUES (check "extreme"): "float and integer dtypes" ... "cast back to the input dtype": int8..int64,
uint8..uint64, float16/32/64 signals made of the rails of the dtype (min, max, min+1, max-1, 0, +-1, ...) in every
adjacency, and full-range random signals, through both pre-processors with coeff 0 (the identity, exact) and small
coefficients.  Only samples whose exact float64 value v (y = x[i] - coeff*x[i-1] resp. x[i] + noise[i], from operands
that are themselves exact in float64) truncates into the dtype's range / is finite in the float dtype are compared,
so no out-of-range cast behaviour is relied upon.
"""
import warnings

import numpy as np

from rtc import _common

PROPERTY = "C18"
ASSUMPTIONS = ["A-REAL", "A-NP-SLICE", "A-RNG"]
RTOL = 1e-9
N_SE = 4.5

DTYPES = ["float32", "float64", "int16", "int32"]
# "float and integer dtypes" / "cast back to the input dtype": everything numpy calls an integer or a real float that
# float64 arithmetic can be cast back to
INT_DTYPES = ["int8", "int16", "int32", "int64", "uint8", "uint16", "uint32", "uint64"]
ALL_DTYPES = ["float64", "int16", "int8", "int32", "float32", "uint8", "int64", "uint16", "float16", "uint32", "uint64"]


def _rails(dt):
    """The extreme values of the dtype and their neighbours (Python numbers)."""
    if dt.kind in "iu":
        ii = np.iinfo(dt)
        lo, hi = int(ii.min), int(ii.max)
        v = [lo, hi, lo + 1, hi - 1, 0, 1, hi // 2, hi // 2 + 1]
        if lo < 0:
            v += [-1, lo // 2, lo // 2 - 1]
        if dt.itemsize == 8:
            # 64-bit integers: the values next to the rails that float64 holds exactly (2^53 and the last float64
            # below the upper rail), so that samples comparable under the exactness rule exist at both ends
            top = int(np.nextafter(float(hi + 1), 0.0))
            v += [top, 2**53, 2**53 + 2, top - 2**20]
            if lo < 0:
                v += [-top, -(2**53), lo + 2**11]
        return v
    fi = np.finfo(dt)
    mx, tiny, eps, sub = float(fi.max), float(fi.tiny), float(fi.eps), float(fi.smallest_subnormal)
    return [-mx, mx, tiny, -tiny, 0.0, 1.0, -1.0, eps, sub, mx / 2, -mx / 2, 1.0 + eps, mx * (1 - eps)]


def _extreme_signal(case):
    """pattern 'rails': min, max, 0, ... in an order in which every ordered pair of (min, max, 0) and of their
    neighbours is adjacent somewhere (pre-emphasis looks at x[i-1]); pattern 'mix': n samples, a third drawn from
    the rails, the rest uniform over the WHOLE range of the dtype."""
    dt = np.dtype(case["dtype"])
    r = _rails(dt)
    if case.get("pattern", "rails") == "rails":
        lo, hi, z = r[0], r[1], (0 if dt.kind in "iu" else 0.0)
        seq = [lo, hi, z, lo, lo, z, hi, hi, lo, r[2], r[3], z, r[2], lo, r[3], hi, z] + r[4:] + [lo, z, hi]
        return np.array(seq, dtype=dt)
    n = int(case["n"])
    rng = _common.make_rng(case["seed"], "c18:ext:" + str(case.get("salt", "")))
    if dt.kind in "iu":
        ii = np.iinfo(dt)
        x = rng.integers(ii.min, ii.max, size=n, dtype=dt, endpoint=True)
    else:
        x = (rng.uniform(-1.0, 1.0, size=n) * float(np.finfo(dt).max)).astype(dt)
    pick = rng.random(n) < 1.0 / 3.0
    idx = rng.integers(0, len(r), size=n)
    railv = np.array(r, dtype=dt)
    x[pick] = railv[idx[pick]]
    return x


def _signal(case):
    """Deterministic signal of the case (dtype, n, seed, salt); small enough for every integer cast."""
    dt = np.dtype(case["dtype"])
    n = int(case["n"])
    if case.get("x") is not None:
        return np.asarray(case["x"], dtype=dt)
    if case.get("sig") in ("rails", "mix"):
        return _extreme_signal(dict(case, pattern=case["sig"]))
    rng = _common.make_rng(case["seed"], "c18:sig:" + str(case.get("salt", "")))
    if dt.kind == "i":
        x = rng.integers(-8000, 8001, size=n).astype(dt)
    else:
        x = (rng.standard_normal(n) * 100.0).astype(dt)
    return x


def _layout(x, layout):
    """Return (array handed to apply, base array owning the memory)."""
    if layout == "contig":
        a = x.copy()
        return a, a
    if layout == "readonly":
        a = x.copy()
        a.setflags(write=False)
        return a, a
    if layout == "strided":
        base = np.zeros(2 * len(x) + 1, dtype=x.dtype)
        base[1::2] = 77
        base[0 : 2 * len(x) : 2] = x
        return base[0 : 2 * len(x) : 2], base
    raise ValueError(layout)


LONG_FULL = [(1 << 16) + 2, (1 << 17) + 3, 300007]  # every dtype x in_place x layout
LONG_EXTRA = [(1 << 10) + 3, (1 << 12) + 3, (1 << 14) + 2, 1 << 16, (1 << 16) + 1, 1 << 18]  # two dtypes


def _oracle_preemph64(x, coeff):
    """y[0] = x[0], y[i] = x[i] - coeff*x[i-1], one sample at a time in Python floats (= float64), every x[i-1]
    taken from the untouched input list.  Returns the float64 values BEFORE the cast back."""
    x64 = [float(v) for v in x.tolist()]  # Python int/float -> float: exact (correctly rounded for 64-bit ints)
    out = [0.0] * len(x64)
    with np.errstate(all="ignore"):
        for i in range(len(x64)):
            out[i] = x64[i] if i == 0 else x64[i] - coeff * x64[i - 1]
    return np.array(out, dtype=np.float64)


def _oracle_preemph(x, coeff):
    with np.errstate(all="ignore"):
        return _oracle_preemph64(x, coeff).astype(x.dtype)


def _exact_in_f64(x):
    """Per sample: is x[i] exactly representable in float64 (always, except for 64-bit integers)."""
    if x.dtype.kind in "iu" and x.dtype.itemsize == 8:
        return np.array([int(float(t)) == t for t in x.tolist()], dtype=bool).reshape(x.shape)
    return np.ones(x.shape, dtype=bool)


def _cast_back(dt, v):
    """'cast back to the input dtype' of float64 values v: (want, comparable).  A sample is comparable when the
    cast is defined by the value alone: integers - v finite and trunc(v) inside [min, max]; floats - v finite and
    |v| <= the largest finite value of the dtype."""
    v = np.asarray(v, dtype=np.float64)
    with np.errstate(all="ignore"):
        if dt.kind in "iu":
            ii = np.iinfo(dt)
            t = np.trunc(v)
            # float(min) and float(max + 1) are exact for all eight integer dtypes (0 or powers of two)
            ok = np.isfinite(v) & (t >= float(int(ii.min))) & (t < float(int(ii.max) + 1))
            want = np.where(ok, t, 0.0).astype(dt)  # integral, in range: the conversion is exact
        else:
            ok = np.isfinite(v) & (np.abs(v) <= float(np.finfo(dt).max))
            want = np.where(ok, v, 0.0).astype(dt)
    return want, ok


def _mismatch(dt, got, want, ok, atol=0.0):
    """Indices of comparable samples that differ (integers exactly, floats rtol 1e-9)."""
    if dt.kind in "iu":
        bad = got != want
    else:
        with np.errstate(all="ignore"):
            bad = ~np.isclose(got.astype(np.float64), want.astype(np.float64), rtol=RTOL, atol=atol)
    return np.flatnonzero(bad & ok)


def _bits(a):
    return np.ascontiguousarray(a).view(np.uint8).tobytes()


def _apply(obj, a, in_place):
    with warnings.catch_warnings():
        warnings.simplefilter("ignore")
        if in_place is None:
            return obj.apply(a)
        return obj.apply(a, in_place=in_place)


def _check_preemph(case):
    from pydrobert.speech.pre import Preemphasize

    fails, stats = [], {}
    x = _signal(case)
    coeff = float(case["coeff"])
    in_place = case["in_place"]
    a, base = _layout(x, case.get("layout", "contig"))
    base_before = base.copy()
    want = _oracle_preemph(x, coeff)
    pre = Preemphasize(coeff)
    if pre.coeff != coeff:
        fails.append(("C18.preemph.values", case, f"coeff attribute {pre.coeff!r} != {coeff!r}"))
    try:
        got = _apply(pre, a, in_place)
    except Exception as e:  # noqa
        return [("C18.preemph.values", case, f"apply raised {type(e).__name__}: {e}")], False, stats
    if not isinstance(got, np.ndarray) or got.dtype != x.dtype or got.shape != x.shape:
        fails.append(("C18.preemph.dtype_shape", case, f"result dtype/shape {getattr(got, 'dtype', None)}/{getattr(got, 'shape', None)}, input {x.dtype}/{x.shape}"))
        return fails, len(x) >= 2, stats
    clause = "C18.preemph.in_place" if in_place else "C18.preemph.values"
    if x.dtype.kind == "i":
        bad = got != want
    else:
        bad = ~np.isclose(got, want, rtol=RTOL, atol=0.0)
    ok = not bool(np.any(bad))
    stats["bit_equal"] = bool(_bits(got) == _bits(want))
    if not ok:
        idx = np.flatnonzero(bad)
        i = int(idx[0])
        where = f"{len(idx)} of {len(x)} samples wrong, first wrong indices {[int(v) for v in idx[:4]]}; " if len(x) > 8 else ""
        fails.append((clause, case, f"{where}y[{i}] = {got[i]!r}, expected x[{i}] - coeff*x[{i-1}] = {want[i]!r} (x[{i}]={x[i]!r}, x[{i-1}]={x[i-1] if i else None!r}, coeff={coeff}, signal length {len(x)}, {x.dtype}, in_place={in_place})"))
    if not in_place:
        if _bits(base) != _bits(base_before):
            fails.append(("C18.preemph.input_untouched", case, "input array modified with in_place=False"))
        if len(x) and np.shares_memory(got, base):
            fails.append(("C18.preemph.input_untouched", case, "result shares memory with the input with in_place=False"))
    elif x.dtype == np.float64:
        # written through: the view handed in now holds the result and nothing else of the base moved
        if not np.allclose(a, want, rtol=RTOL, atol=0.0) or (len(x) and not np.shares_memory(got, base)):
            fails.append(("C18.preemph.in_place", case, "float64 input with in_place=True was not written through"))
        if case.get("layout") == "strided" and not np.array_equal(base[1::2], base_before[1::2]):
            fails.append(("C18.preemph.in_place", case, "in-place write touched samples outside the view"))
    return fails, len(x) >= 2, stats


class _Seeded:
    """np.random.seed(s) for the duration; restores the global state afterwards."""

    def __init__(self, s):
        self.s = s

    def __enter__(self):
        self.state = np.random.get_state()
        np.random.seed(self.s)

    def __exit__(self, *a):
        np.random.set_state(self.state)


def _dither_run(coeff, a, np_seed, in_place=None):
    from pydrobert.speech.pre import Dither

    with _Seeded(np_seed):
        return _apply(Dither(coeff), a, in_place)


def _check_dither(case):
    from pydrobert.speech.pre import Dither

    fails, stats = [], {}
    chk = case["check"]
    np_seed = int(case["np_seed"])
    if chk == "dither.moments":
        n, coeff = int(case["n"]), float(case["coeff"])
        x = np.zeros(n, dtype=np.float64) if case.get("signal", "zeros") == "zeros" else _signal(dict(case, dtype="float64"))
        out = _dither_run(coeff, x, np_seed)
        noise = out.astype(np.float64) - x
        m, s = float(noise.mean()), float(noise.std(ddof=0))
        se_m, se_s = coeff / np.sqrt(n), coeff / np.sqrt(2 * n)
        stats["z_mean"], stats["z_std"] = abs(m) / se_m, abs(s - coeff) / se_s
        if not abs(m) <= N_SE * se_m:
            fails.append(("C18.dither.moments", case, f"sample mean {m:.6g} is {abs(m)/se_m:.2f} standard errors from 0"))
        if not abs(s - coeff) <= N_SE * se_s:
            fails.append(("C18.dither.moments", case, f"sample std {s:.6g} is {abs(s-coeff)/se_s:.2f} standard errors from coeff {coeff}"))
        if case.get("signal", "zeros") == "zeros" and coeff > 0:
            # "Dither.apply adds noise ... [with] standard deviation coeff": to every sample; on a zero signal the
            # noise is read off exactly and a sample of a continuous N(0, coeff^2) is 0.0 with probability zero
            zero = np.flatnonzero(noise == 0.0)
            if len(zero):
                fails.append(("C18.dither.moments", case, f"{len(zero)} of {n} samples received no noise at all (first indices {[int(v) for v in zero[:4]]}, signal length {n})"))
        return fails, True, stats

    x = _signal(case)
    n = len(x)
    coeff = float(case.get("coeff", 1.0))
    nontrivial = n >= 1
    if Dither(coeff).coeff != coeff:
        fails.append((f"C18.{chk}", case, "coeff attribute not stored"))
    if chk == "dither.independent":
        # float64 signals: a zero signal (noise read off exactly) and two different non-zero signals
        z = np.zeros(n, dtype=np.float64)
        x1 = x.astype(np.float64)
        x2 = _signal(dict(case, salt=str(case.get("salt", "")) + ":other")).astype(np.float64) * 3.0 + 5.0
        nz = _dither_run(coeff, z, np_seed) - z
        n1 = _dither_run(coeff, x1, np_seed) - x1
        n2 = _dither_run(coeff, x2, np_seed) - x2
        tol = RTOL * coeff
        for nm, v in (("signal A", n1), ("signal B", n2)):
            if v.shape != nz.shape or not np.all(np.abs(v - nz) <= tol):
                i = int(np.argmax(np.abs(v - nz))) if v.shape == nz.shape and n else 0
                fails.append(("C18.dither.independent", case, f"noise added to {nm} differs from the noise added to the zero signal under the same seed (sample {i}: {v[i] if n else None!r} vs {nz[i] if n else None!r})"))
        nontrivial = n >= 1 and bool(np.any(nz != 0))
    elif chk == "dither.linear":
        z = np.zeros(n, dtype=np.float64)
        unit = _dither_run(1.0, z, np_seed)
        worst = 0.0
        for c in case["coeffs"]:
            v = _dither_run(float(c), z, np_seed) / float(c)
            err = float(np.max(np.abs(v - unit) / np.maximum(np.abs(unit), 1e-300))) if n else 0.0
            worst = max(worst, err)
            if not err <= RTOL:
                fails.append(("C18.dither.linear", case, f"noise(coeff={c})/coeff differs from noise(coeff=1) (rel {err:.3g})"))
        stats["worst_rel"] = worst
        nontrivial = n >= 1 and bool(np.any(unit != 0))
    elif chk == "dither.identity0":
        a, base = _layout(x, case.get("layout", "contig"))
        out = _dither_run(0.0, a, np_seed, case.get("in_place"))
        if out.dtype != x.dtype or out.shape != x.shape:
            fails.append(("C18.dither.dtype_values", case, f"result dtype/shape {out.dtype}/{out.shape}"))
        elif _bits(out) != _bits(x):
            fails.append(("C18.dither.identity0", case, "coeff 0 changed the signal"))
    elif chk == "dither.reproducible":
        a = _dither_run(coeff, x.copy(), np_seed)
        b = _dither_run(coeff, x.copy(), np_seed)
        c = _dither_run(coeff, x.copy(), np_seed + 1)
        if a.shape != x.shape or _bits(a) != _bits(b):
            fails.append(("C18.dither.reproducible", case, "two runs under the same numpy.random.seed differ"))
        diff = n >= 8 and x.dtype.kind == "f"
        if diff and _bits(a) == _bits(c):
            fails.append(("C18.dither.reproducible", case, "a different seed gave the same output (no noise drawn from numpy's global generator?)"))
        nontrivial = n >= 1
    elif chk == "dither.dtype_values":
        in_place = case.get("in_place")
        a, base = _layout(x, case.get("layout", "contig"))
        base_before = base.copy()
        z = np.zeros(n, dtype=np.float64)
        noise = _dither_run(coeff, z, np_seed)
        with np.errstate(all="ignore"):
            want = (x.astype(np.float64) + noise).astype(x.dtype)
        out = _dither_run(coeff, a, np_seed, in_place)
        if not isinstance(out, np.ndarray) or out.dtype != x.dtype or out.shape != x.shape:
            fails.append(("C18.dither.dtype_values", case, f"result dtype/shape {getattr(out, 'dtype', None)}/{getattr(out, 'shape', None)}, input {x.dtype}/{x.shape}"))
            return fails, nontrivial, stats
        if x.dtype.kind == "i":
            ok = np.array_equal(out, want)
        else:
            ok = np.allclose(out, want, rtol=RTOL, atol=RTOL * coeff)
        if not ok:
            idx = np.flatnonzero(out != want if x.dtype.kind == "i" else ~np.isclose(out, want, rtol=RTOL, atol=RTOL * coeff))
            i = int(idx[0])
            fails.append(("C18.dither.in_place" if in_place else "C18.dither.dtype_values", case, f"out[{i}] = {out[i]!r}, expected cast(x + noise) = {want[i]!r} ({len(idx)} of {n} samples wrong, first indices {[int(v) for v in idx[:4]]})"))
        if not in_place:
            if _bits(base) != _bits(base_before):
                fails.append(("C18.dither.input_untouched", case, "input array modified with in_place=False"))
            if n and np.shares_memory(out, base):
                fails.append(("C18.dither.input_untouched", case, "result shares memory with the input with in_place=False"))
        elif x.dtype == np.float64:
            if (n and not np.shares_memory(out, base)) or not np.allclose(a, want, rtol=RTOL, atol=RTOL * coeff):
                fails.append(("C18.dither.in_place", case, "float64 input with in_place=True was not written through"))
            if case.get("layout") == "strided" and not np.array_equal(base[1::2], base_before[1::2]):
                fails.append(("C18.dither.in_place", case, "in-place write touched samples outside the view"))
        nontrivial = n >= 1 and coeff > 0
    else:
        raise ValueError(chk)
    return fails, nontrivial, stats


def _expected(proc, xin, coeff, np_seed):
    """(want, comparable, v) for ONE call of `proc` on the values xin: the float64 values v of the statement
    (pre-emphasis: the loop oracle; dither: x + the noise a zero float64 signal receives from a fresh Dither(coeff)
    under the same numpy seed - "noise that does not depend on the signal"), cast back where the cast is defined."""
    ex = _exact_in_f64(xin)
    if proc == "preemph":
        v = _oracle_preemph64(xin, coeff)
        if len(xin) > 1:
            ex = ex.copy()
            ex[1:] &= ex[:-1] | (coeff == 0.0)
    else:
        noise = _dither_run(coeff, np.zeros(len(xin), dtype=np.float64), np_seed)
        with np.errstate(all="ignore"):
            v = np.array([float(t) for t in xin.tolist()], dtype=np.float64) + noise
    want, ok = _cast_back(xin.dtype, v)
    return want, ok & ex, v


def _check_extreme(case):
    """One call of a fresh instance on a signal made of the extreme values of its dtype."""
    from pydrobert.speech.pre import Preemphasize, Dither

    fails, stats = [], {}
    proc = case["proc"]
    coeff = float(case["coeff"])
    np_seed = int(case.get("np_seed", 0))
    x = _extreme_signal(case)
    dt = x.dtype
    in_place = case.get("in_place", False)
    a, base = _layout(x, case.get("layout", "contig"))
    base_before = base.copy()
    want, ok, v = _expected(proc, x, coeff, np_seed)
    if proc == "preemph":
        clause = "C18.preemph.values"
        name = f"Preemphasize({coeff})"
    else:
        clause = "C18.dither.identity0" if coeff == 0 else "C18.dither.dtype_values"
        name = f"Dither({coeff})"
    try:
        with _Seeded(np_seed):
            got = _apply(Preemphasize(coeff) if proc == "preemph" else Dither(coeff), a, in_place)
    except Exception as e:  # noqa
        return [(clause, case, f"{name}.apply raised {type(e).__name__}: {e} on a {dt} signal holding the extreme values of the dtype")], False, stats
    if not isinstance(got, np.ndarray) or got.dtype != dt or got.shape != x.shape:
        return [(f"C18.{'preemph.dtype_shape' if proc == 'preemph' else 'dither.dtype_values'}", case, f"result dtype/shape {getattr(got, 'dtype', None)}/{getattr(got, 'shape', None)}, input {dt}/{x.shape}")], False, stats
    atol = RTOL * coeff if proc == "dither" else 0.0
    idx = _mismatch(dt, got, want, ok, atol)
    if len(idx):
        i = int(idx[0])
        what = "x[i] (coeff 0 is the identity)" if coeff == 0 else ("cast(x[i] - coeff*x[i-1])" if proc == "preemph" else "cast(x[i] + noise[i])")
        prev = f", x[{i-1}]={x[i-1]!r}" if proc == "preemph" and i else ""
        fails.append((clause, case, f"{name}.apply on {dt}: out[{i}] = {got[i]!r}, expected {what} = {want[i]!r} (x[{i}]={x[i]!r}{prev}, float64 value before the cast back {float(v[i])!r}, {dt} holds {_range_txt(dt)}); {len(idx)} of {int(ok.sum())} well-defined samples wrong, first indices {[int(t) for t in idx[:4]]}, in_place={in_place}"))
    if not in_place:
        if _bits(base) != _bits(base_before):
            fails.append((f"C18.{proc}.input_untouched", case, "input array modified with in_place=False"))
        if len(x) and np.shares_memory(got, base):
            fails.append((f"C18.{proc}.input_untouched", case, "result shares memory with the input with in_place=False"))
    rails = set(_rails(dt)[:2])
    stats["compared"] = int(ok.sum())
    stats["at_rail"] = int(np.sum(ok & np.isin(x, list(rails))))
    return fails, stats["at_rail"] > 0, stats


def _range_txt(dt):
    if dt.kind in "iu":
        return f"[{np.iinfo(dt).min}, {np.iinfo(dt).max}]"
    return f"+-{float(np.finfo(dt).max)!r}"


def _first_diff(old, new):
    o, n = np.ascontiguousarray(old).reshape(-1), np.ascontiguousarray(new).reshape(-1)
    if not len(o):
        return "bit pattern changed"
    d = np.flatnonzero((o.view(np.uint8).reshape(len(o), -1) != n.view(np.uint8).reshape(len(n), -1)).any(axis=1))
    i = int(d[0])
    return f"{len(d)} of {len(o)} samples differ, first at [{i}]: was {o[i]!r}, is now {n[i]!r}"


def _check_sequence(case):
    """ONE pre-processor object, several calls.  Statement clauses, each after every call:
      * "Preemphasize.apply returns y[0] = x[0], y[i] = x[i] - coeff*x[i-1] ... cast back to the input dtype" /
        "Dither.apply adds noise that does not depend on the signal ..., is reproducible under numpy.random.seed":
        the call's result equals the oracle's (which knows nothing of earlier calls = what a fresh instance gives);
      * "returns": an array returned earlier still holds what was returned (nobody but the caller owns it);
      * "Both leave their input untouched unless in_place is set": every array handed in with in_place False - in
        this call or an earlier one, a fresh signal or an earlier result fed back in - is bit-identical afterwards;
        only the array of THIS call with in_place=True may change;
      * "in which case the same values are produced" (float64 written through)."""
    from pydrobert.speech.pre import Preemphasize, Dither

    fails, stats = [], {}
    proc = case["proc"]
    coeff = float(case["coeff"])
    obj = Preemphasize(coeff) if proc == "preemph" else Dither(coeff)
    cname = "Preemphasize" if proc == "preemph" else "Dither"
    val_clause = "C18.preemph.values" if proc == "preemph" else "C18.dither.dtype_values"
    held = []  # arrays the caller holds: {"what", "base", "snap", "kind"}
    results, inputs = [], []
    nontrivial = False
    for j, st in enumerate(case["steps"]):
        if "coeff" in st:
            # `coeff` is the documented public attribute the formula's coeff is read from
            coeff = float(st["coeff"])
            obj.coeff = coeff
        src = st.get("src", "new")
        if src == "new":
            x = _signal({"dtype": st["dtype"], "n": st["n"], "seed": case["seed"], "salt": f"{case.get('salt', '')}:s{j}", "sig": st.get("sig")})
            a, base = _layout(x, st.get("layout", "contig"))
            origin = "a new signal" + ("" if st.get("layout", "contig") == "contig" else f" ({st['layout']} view)")
            held.append({"what": f"the input of call {j}", "base": base, "snap": base.copy(), "kind": "input"})
        elif src == "res":
            a = base = results[int(st["k"])]
            origin = f"the array returned by call {st['k']}"
        else:
            a, base = inputs[int(st["k"])]
            origin = f"the input array of call {st['k']} again"
        in_place = st.get("in_place", False)
        if in_place and not a.flags.writeable:
            in_place = False
        xin = np.array(a, copy=True)
        dt = xin.dtype
        np_seed = int(case.get("np_seed", 0)) + j
        want, ok, v = _expected(proc, xin, coeff, np_seed)
        desc = f"call {j} of one {cname} instance ({origin}, {dt}, length {len(xin)}, coeff={coeff}, in_place={in_place})"
        try:
            with _Seeded(np_seed):
                got = _apply(obj, a, in_place)
        except Exception as e:  # noqa
            fails.append((val_clause, case, f"{desc}: apply raised {type(e).__name__}: {e}"))
            break
        if not isinstance(got, np.ndarray) or got.dtype != dt or got.shape != xin.shape:
            fails.append((f"C18.{'preemph.dtype_shape' if proc == 'preemph' else 'dither.dtype_values'}", case, f"{desc}: result dtype/shape {getattr(got, 'dtype', None)}/{getattr(got, 'shape', None)}"))
            break
        atol = RTOL * coeff if proc == "dither" else 0.0
        idx = _mismatch(dt, got, want, ok, atol)
        if len(idx):
            i = int(idx[0])
            fails.append((f"C18.{proc}.in_place" if in_place else val_clause, case, f"{desc}: out[{i}] = {got[i]!r}, expected {want[i]!r} (what a fresh instance gives; x[{i}]={xin[i]!r}); {len(idx)} of {int(ok.sum())} samples wrong, first indices {[int(t) for t in idx[:4]]}"))
        # everything the caller holds
        for r in held:
            if _bits(r["base"]) == _bits(r["snap"]):
                continue
            mine = r["base"] is base or np.shares_memory(r["base"], base)
            if mine and in_place:
                r["snap"] = r["base"].copy()  # permitted: this call was allowed to modify its signal
                continue
            diff = _first_diff(r["snap"], r["base"])
            if mine:
                fails.append((f"C18.{proc}.input_untouched", case, f"{desc}: the input array was modified although in_place=False ({diff})"))
            elif r["kind"] == "input":
                fails.append((f"C18.{proc}.input_untouched", case, f"{desc}: {r['what']} (a different array, not handed to this call) was modified ({diff})"))
            else:
                fails.append((f"C18.{proc}.result_stable", case, f"{desc}: {r['what']} - still held by the caller and not handed to this call - changed ({diff}); it no longer holds the values apply returned"))
            r["snap"] = r["base"].copy()
        if len(xin):
            shares = np.shares_memory(got, base)
            if not in_place and shares:
                fails.append((f"C18.{proc}.input_untouched", case, f"{desc}: the result shares memory with the input although in_place=False"))
            if in_place and dt == np.float64:
                if not shares or len(_mismatch(dt, np.asarray(a), want, ok, atol)):
                    fails.append((f"C18.{proc}.in_place", case, f"{desc}: float64 input with in_place=True was not written through"))
        if not any(r["base"] is got for r in held):
            held.append({"what": f"the array returned by call {j}", "base": got, "snap": got.copy(), "kind": "result"})
        results.append(got)
        inputs.append((a, base))
        nontrivial = nontrivial or (j >= 1 and len(xin) >= 2)
        stats["calls"] = j + 1
        if len(fails) >= 4:
            break
    return fails, nontrivial, stats


def _check_case(case):
    _common.use_repo()
    if case["check"] == "preemph":
        return _check_preemph(case)
    if case["check"] == "seq":
        return _check_sequence(case)
    if case["check"] == "extreme":
        return _check_extreme(case)
    return _check_dither(case)


# ------------------------------------------------------------------------------------------


def _enumerate_reuse_and_extremes(tier, seed):
    """The cases of the checks "seq" (one instance, several calls) and "extreme" (rails of every dtype)."""
    cases = []
    rng = _common.make_rng(seed, "c18:seq")
    nps = lambda: int(rng.integers(0, 2**31 - 100))  # noqa: E731
    procs = (("preemph", 0.97), ("dither", 1.5))
    # (a) call A, call B, then a probe call (new float64 signal of A's length): every A x B of a small alphabet.
    firsts = [("float64", False), ("float64", True), ("float64", None), ("float32", False), ("int16", False), ("int16", True), ("float32", True)]
    seconds = [{"src": "new", "dtype": "float64", "n": 6, "in_place": False}, {"src": "res", "k": 0, "in_place": False}]
    seconds += [{"src": "res", "k": 0, "in_place": True}, {"src": "inp", "k": 0, "in_place": False}, {"src": "inp", "k": 0, "in_place": True}]
    seconds += [{"src": "new", "dtype": dt, "n": n, "in_place": ip} for dt in ("float64", "float32", "int16") for n in (6, 9) for ip in (False, True) if not (dt == "float64" and n == 6 and ip is False)]
    k = 0
    for dt, ip in firsts:
        for b in seconds:
            for proc, coeff in procs:
                steps = [{"src": "new", "dtype": dt, "n": 6, "in_place": ip}, dict(b), {"src": "new", "dtype": "float64", "n": 6, "in_place": False}]
                cases.append({"check": "seq", "proc": proc, "coeff": coeff, "seed": seed, "salt": f"ab{k}", "np_seed": nps(), "steps": steps})
                k += 1
    # (b) chains: every result fed back in (higher-order pre-emphasis / repeated dithering), lengths 0..5, 1000 and
    # longer than any plausible block; the same length twice, another length, the first length again
    for proc, coeff in procs:
        for dt in ("float64", "float32", "int32"):
            for n in (3, 1000, 5, 2, 1, 0, (1 << 16) + 2):
                if n > 1000 and dt != "float64":
                    continue
                steps = [{"src": "new", "dtype": dt, "n": n, "in_place": False}] + [{"src": "res", "k": i, "in_place": None if i == 1 else False} for i in range(3)]
                cases.append({"check": "seq", "proc": proc, "coeff": coeff, "seed": seed, "salt": f"ch{dt}{n}", "np_seed": nps(), "steps": steps})
                m = n + 1 if n < 1000 else n // 2
                steps = [{"src": "new", "dtype": dt, "n": q, "in_place": False, "layout": lay} for q, lay in ((n, "contig"), (n, "readonly"), (m, "contig"), (n, "strided"), (m, "contig"), (n, "contig"))]
                cases.append({"check": "seq", "proc": proc, "coeff": coeff, "seed": seed, "salt": f"ln{dt}{n}", "np_seed": nps(), "steps": steps})
    # (c) extreme values: rails of every integer / float dtype, coeff 0 (identity) and small coefficients
    ext_coeffs = {"preemph": (0.0, 0.5, -0.25, 2.0**-10), "dither": (0.0, 0.4, 1e-3)}
    for dt in ALL_DTYPES:
        for proc in ("dither", "preemph"):
            for coeff in ext_coeffs[proc]:
                for ip in (False, True):
                    cases.append({"check": "extreme", "proc": proc, "dtype": dt, "coeff": coeff, "pattern": "rails", "seed": seed, "np_seed": nps(), "in_place": ip, "layout": "contig"})
                cases.append({"check": "extreme", "proc": proc, "dtype": dt, "coeff": coeff, "pattern": "mix", "n": 400, "salt": f"m{dt}", "seed": seed, "np_seed": nps(), "in_place": False, "layout": "strided" if coeff else "readonly"})
    # (d) random call sequences of one instance over every dtype, length, layout, in_place setting, feedback of any
    # earlier result / input, rails in the signals, and the coeff attribute re-assigned between calls
    n_rand = 120 if tier == "quick" else 2500
    lens = [6, 6, 6, 9, 3, 2, 1, 0, 5, 64, 1000]
    for q in range(n_rand):
        for proc, coeffs in (("preemph", (0.97, 0.5, -0.5, 0.0, 1.0)), ("dither", (1.5, 0.3, 0.0, 20.0))):
            nsteps = int(rng.integers(3, 9))
            steps = []
            for j in range(nsteps):
                u = rng.random()
                if j and u < 0.25:
                    st = {"src": "res", "k": int(rng.integers(0, j))}
                elif j and u < 0.35:
                    st = {"src": "inp", "k": int(rng.integers(0, j))}
                else:
                    dt = ALL_DTYPES[int(rng.integers(0, len(ALL_DTYPES)))] if rng.random() < 0.5 else "float64"
                    st = {"src": "new", "dtype": dt, "n": lens[int(rng.integers(0, len(lens)))], "layout": ("contig", "contig", "strided", "readonly")[int(rng.integers(0, 4))]}
                    if dt not in DTYPES or rng.random() < 0.2:
                        st["sig"] = "mix"
                st["in_place"] = (False, False, True, None)[int(rng.integers(0, 4))]
                if st.get("layout") == "readonly" and st["in_place"]:
                    st["in_place"] = False
                if j and rng.random() < 0.1:
                    st["coeff"] = coeffs[int(rng.integers(0, len(coeffs)))]
                steps.append(st)
            cases.append({"check": "seq", "proc": proc, "coeff": coeffs[int(rng.integers(0, len(coeffs)))], "seed": seed, "salt": f"rs{q}", "np_seed": nps(), "steps": steps})
    return cases


def _enumerate(tier, seed):
    cases = []
    lengths = [3, 2, 1000, 5, 4, 1, 0]
    coeffs = [0.97, 1.0, -0.5, 0.0, 0.9375, 0.1]
    # tiny explicit signals first (aliasing shows from length 3 on)
    for dt in DTYPES:
        for in_place in (False, True):
            cases.append({"check": "preemph", "dtype": dt, "n": 4, "x": [1000, 2000, -3000, 500], "coeff": 0.97, "in_place": in_place, "layout": "contig"})
    # one instance used for several calls; extreme values of every dtype (cheap and discriminating: early)
    cases += _enumerate_reuse_and_extremes(tier, seed)
    # "for all signal lengths": signals longer than any plausible internal block size, every dtype / in_place / layout
    rng_np = _common.make_rng(seed, "c18:npseeds-long")
    for n in LONG_FULL:
        for dt in DTYPES:
            for in_place, layout in ((False, "contig"), (True, "contig"), (True, "strided"), (False, "readonly"), (None, "contig")):
                cases.append({"check": "preemph", "dtype": dt, "n": n, "seed": seed, "salt": f"pL{dt}{n}", "coeff": 0.97 if layout != "readonly" else -0.5, "in_place": in_place, "layout": layout})
            for in_place, layout in ((False, "contig"), (True, "contig"), (True, "strided")):
                cases.append({"check": "dither.dtype_values", "dtype": dt, "n": n, "seed": seed, "salt": f"dvL{dt}{n}", "coeff": 20.0, "np_seed": int(rng_np.integers(0, 2**31 - 2)), "in_place": in_place, "layout": layout})
            cases.append({"check": "dither.identity0", "dtype": dt, "n": n, "seed": seed, "salt": f"d0L{dt}{n}", "np_seed": int(rng_np.integers(0, 2**31 - 2)), "in_place": True, "layout": "contig"})
        cases.append({"check": "dither.independent", "dtype": "float64", "n": n, "seed": seed, "salt": f"diL{n}", "coeff": 2.0, "np_seed": int(rng_np.integers(0, 2**31 - 2))})
        cases.append({"check": "dither.linear", "dtype": "float64", "n": n, "seed": seed, "salt": f"dlL{n}", "coeffs": [0.5, 10.0], "np_seed": int(rng_np.integers(0, 2**31 - 2))})
        cases.append({"check": "dither.reproducible", "dtype": "float32", "n": n, "seed": seed, "salt": f"drL{n}", "coeff": 3.0, "np_seed": int(rng_np.integers(0, 2**31 - 2))})
        for coeff in (1.0, 30.0):
            cases.append({"check": "dither.moments", "n": n, "coeff": coeff, "np_seed": int(rng_np.integers(0, 2**31 - 2)), "signal": "zeros", "seed": seed, "salt": f"dmL{n}"})
    for n in LONG_EXTRA:
        for dt in ("float64", "int16"):
            for in_place in (False, True):
                cases.append({"check": "preemph", "dtype": dt, "n": n, "seed": seed, "salt": f"pX{dt}{n}", "coeff": 0.97, "in_place": in_place, "layout": "contig"})
    for dt in DTYPES:
        for n in lengths:
            for ci, coeff in enumerate(coeffs):
                for in_place, layout in ((False, "contig"), (False, "readonly"), (True, "contig"), (False, "strided"), (True, "strided"), (None, "contig")):
                    if tier == "quick" and layout == "strided" and ci >= 2:
                        continue
                    cases.append({"check": "preemph", "dtype": dt, "n": n, "seed": seed, "salt": f"p{dt}{n}", "coeff": coeff, "in_place": in_place, "layout": layout})
    if tier == "thorough":
        rng = _common.make_rng(seed, "c18:extra")
        for k in range(400):
            cases.append({"check": "preemph", "dtype": DTYPES[k % 4], "n": int(rng.integers(0, 300)), "seed": seed, "salt": f"r{k}", "coeff": float(np.round(rng.uniform(-1.5, 1.5), 4)), "in_place": bool(rng.integers(0, 2)), "layout": ["contig", "strided"][int(rng.integers(0, 2))]})
    # dither
    rng = _common.make_rng(seed, "c18:npseeds")
    nps = [int(v) for v in rng.integers(0, 2**31 - 2, size=64)]
    k = 0
    for n in (1000, 5, 1, 0):
        for coeff in (1.0, 0.01, 25.0):
            cases.append({"check": "dither.independent", "dtype": "float64", "n": n, "seed": seed, "salt": f"di{n}", "coeff": coeff, "np_seed": nps[k % 64]})
            k += 1
        cases.append({"check": "dither.linear", "dtype": "float64", "n": n, "seed": seed, "salt": f"dl{n}", "coeffs": [0.5, 2.0, 10.0, 1e-3, 3.3], "np_seed": nps[k % 64]})
        k += 1
        for dt in DTYPES:
            for in_place, layout in ((False, "contig"), (False, "readonly"), (True, "contig"), (False, "strided"), (True, "strided"), (None, "contig")):
                cases.append({"check": "dither.identity0", "dtype": dt, "n": n, "seed": seed, "salt": f"d0{dt}{n}", "np_seed": nps[k % 64], "in_place": in_place, "layout": layout})
                for coeff in (1.0, 20.0):
                    cases.append({"check": "dither.dtype_values", "dtype": dt, "n": n, "seed": seed, "salt": f"dv{dt}{n}", "coeff": coeff, "np_seed": nps[k % 64], "in_place": in_place, "layout": layout})
                k += 1
            cases.append({"check": "dither.reproducible", "dtype": dt, "n": n, "seed": seed, "salt": f"dr{dt}{n}", "coeff": 3.0, "np_seed": nps[k % 64]})
            k += 1
    n_seeds = 5 if tier == "quick" else 40
    for i in range(n_seeds):
        for coeff in (1.0, 0.05, 30.0):
            cases.append({"check": "dither.moments", "n": 100000, "coeff": coeff, "np_seed": nps[(k + i) % 64], "signal": "zeros" if i % 2 == 0 else "random", "seed": seed, "salt": f"dm{i}"})
    return cases


def run(tier: str, seed: int) -> dict:
    _common.use_repo()
    col = _common.Collector(PROPERTY, tier, seed, budget_s=50 if tier == "quick" else 500)
    n_float = n_biteq = 0
    zmax = 0.0
    lin_worst = 0.0
    n_seq = n_calls = n_ext = n_ext_cmp = n_ext_rail = 0
    seen_kind = set()
    for case in _enumerate(tier, seed):
        if col.out_of_time() or col.too_many_failures():
            col.note("stopped early (time or failure cap)")
            break
        try:
            fails, nontrivial, stats = _check_case(case)
        except Exception as e:  # noqa
            fails, nontrivial, stats = [("C18.exception", case, f"{type(e).__name__}: {e}")], False, {}
        is_sample = (case.get("n") in (3, 5) and case.get("layout") in (None, "strided")) or (case.get("n") == LONG_FULL[0] and case.get("layout") == "strided" and case.get("dtype") == "int16")
        is_sample = (is_sample and case["check"] not in ("seq", "extreme")) or (case["check"] in ("seq", "extreme") and case["check"] not in seen_kind)
        seen_kind.add(case["check"])
        col.case(case, nontrivial=nontrivial, sample=case if is_sample else None)
        n_seq += int(case["check"] == "seq")
        n_calls += stats.get("calls", 0)
        n_ext += int(case["check"] == "extreme")
        n_ext_cmp += stats.get("compared", 0)
        n_ext_rail += stats.get("at_rail", 0)
        if "bit_equal" in stats and case["dtype"].startswith("float"):
            n_float += 1
            n_biteq += int(stats["bit_equal"])
        zmax = max(zmax, stats.get("z_mean", 0.0), stats.get("z_std", 0.0))
        lin_worst = max(lin_worst, stats.get("worst_rel", 0.0))
        for clause, c, msg in fails:
            col.fail(clause, c, msg)
    col.note(f"pre-emphasis float cases bit-identical to the float64 loop oracle: {n_biteq}/{n_float} (tolerance allowed rtol 1e-9)")
    col.note(f"dither: largest |z| over the moment tests = {zmax:.2f} standard errors (limit {N_SE}); worst relative deviation of noise(c)/c from noise(1) = {lin_worst:.2e}")
    col.note(f"one instance, several calls: {n_seq} call sequences, {n_calls} calls in all; after every call the result is compared with the oracle and every array the caller holds (earlier results, inputs) with its previous bit pattern")
    col.note(f"extreme values: {n_ext} signals over {len(ALL_DTYPES)} dtypes ({', '.join(ALL_DTYPES)}); {n_ext_cmp} samples with a well-defined cast compared, {n_ext_rail} of them with x[i] = min or max of the dtype")
    return col.result(
        rule="one case = (transform, dtype, length, coeff, in_place / default, memory layout contiguous|read-only|strided view) or one dither clause instance (numpy seed, length, coeff) or one call sequence of a single instance (3..8 calls; per call: new signal / earlier result / earlier input, dtype, length, layout, in_place, optional new coeff) or one extreme-value signal (transform, dtype, coeff, rails|mix, in_place); non-trivial when the signal has >= 2 samples (pre-emphasis) / >= 1 sample and non-zero noise (dither) / a second or later call on >= 2 samples (sequence) / >= 1 compared sample sits at the min or max of the dtype (extreme)",
        bound="BOUNDED: 1-D signals of lengths 0..5 and 1000 (thorough: + 400 random lengths < 300) and, for both transforms, every dtype, in_place False/True/default and contiguous/strided/read-only layouts, the long lengths 2^16+2, 2^17+3 and 300007 (pre-emphasis also 2^10+3, 2^12+3, 2^14+2, 2^16, 2^16+1, 2^18 for float64/int16) compared sample by sample, dtypes f32/f64/i16/i32, |x| <= 8000 (ints) / ~N(0,100^2) (floats), coefficients {0.97,1,-0.5,0,0.9375,0.1} (+ random in [-1.5,1.5]); dither moments on 1e5 samples for 5 (quick) / 40 (thorough) numpy seeds x 3 coeffs at 4.5 standard errors (statistical); ONE INSTANCE REUSED: all (call A, call B, probe) triples over A in {f64,f32,i16} x in_place, B in {new signal of equal / other length and dtype, A's result fed back, A's input again} x in_place, result-feedback chains and equal/other/equal-length chains at lengths 0..5, 1000, 2^16+2, and 120 (thorough 2500) random sequences of 3..8 calls per transform over 11 dtypes, lengths 0..1000, three layouts, coeff re-assigned between calls; EXTREME VALUES: int8..int64, uint8..uint64, float16/32/64 signals of the dtype's rails in every adjacency (34 samples or fewer) and 400 full-range samples, coeff 0 and {0.5,-0.25,2^-10} (pre-emphasis) / {0.4,1e-3} (dither), only samples with a value-defined cast compared (64-bit integers: only samples exact in float64)",
        assumptions=ASSUMPTIONS,
    )


def replay(case: dict):
    _common.use_repo()
    try:
        fails, _, _ = _check_case(case)
    except Exception as e:  # noqa
        return False, f"C18.exception {type(e).__name__}: {e}"
    if fails:
        return False, "; ".join(f"{c}: {m}" for c, _, m in fails[:3])
    return True, f"C18 {case.get('check')} holds on the case"


if __name__ == "__main__":
    from rtc import _common
    import sys

    _common.main(sys.modules[__name__])

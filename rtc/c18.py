"""Bounded stand-in for C18: pre-processors apply the documented sample-wise transforms.

Clauses (ids):
  C18.preemph.values      y[0] = x[0], y[i] = x[i] - coeff*x[i-1] in float64 (old x[i-1]), cast to the input
                          dtype; oracle = explicit Python loop in float64 then astype; integers exact,
                          floats rtol 1e-9 (bit-equality is measured and reported)
  C18.preemph.dtype_shape result dtype / shape = input dtype / shape
  C18.preemph.input_untouched   in_place=False: the input (also read-only / strided views) is bit-identical after
  C18.preemph.in_place    in_place=True gives the same values; a float64 input is written through
  C18.dither.independent  same numpy seed, two different signals -> same noise (out - in in float64)
  C18.dither.linear       noise(c)/c is the same vector for every coeff c (same seed)
  C18.dither.identity0    coeff 0 is the identity
  C18.dither.reproducible same seed -> same output; another seed -> another output
  C18.dither.moments      mean 0 and standard deviation coeff within 4.5 standard errors on 1e5 samples
  C18.dither.dtype_values result dtype = input dtype, value = cast(x64 + noise)
  C18.dither.input_untouched / C18.dither.in_place   as for pre-emphasis

"for all signal lengths (0, 1, ...)": besides the short signals, every clause is also run on signals LONGER THAN ANY
PLAUSIBLE INTERNAL BLOCK of an implementation that works piecewise (2^16 + 2, 2^17 + 3 and 300007 samples, for every
dtype and in_place setting; 2^k + small and exact powers of two from 2^10 to 2^18 for two dtypes), right after the
tiny explicit signals.  They are compared SAMPLE BY SAMPLE with the same oracle (the recurrence uses the OLD x[i-1]
at every i, so a single sample computed from an already overwritten predecessor - one in 65536 - is a violation);
the message lists the first wrong indices so that a regular spacing is visible.  For the dither, "adds noise" is read
per sample: the noise read off a zero signal is non-zero at every sample (an exact 0.0 has probability zero).
"""
import warnings

import numpy as np

from rtc import _common

PROPERTY = "C18"
ASSUMPTIONS = ["A-REAL", "A-NP-SLICE", "A-RNG"]
RTOL = 1e-9
N_SE = 4.5

DTYPES = ["float32", "float64", "int16", "int32"]


def _signal(case):
    """Deterministic signal of the case (dtype, n, seed, salt); small enough for every integer cast."""
    dt = np.dtype(case["dtype"])
    n = int(case["n"])
    if case.get("x") is not None:
        return np.asarray(case["x"], dtype=dt)
    rng = _common.make_rng(case["seed"], "c18:sig:" + str(case.get("salt", "")))
    if dt.kind == "i":
        x = rng.integers(-8000, 8001, size=n).astype(dt)
    else:
        x = (rng.standard_normal(n) * 100.0).astype(dt)
    return x


def _layout(x, layout):
    """Return (array handed to apply, base array owning the memory)."""
    if layout == "contig":
        a = x.copy()
        return a, a
    if layout == "readonly":
        a = x.copy()
        a.setflags(write=False)
        return a, a
    if layout == "strided":
        base = np.zeros(2 * len(x) + 1, dtype=x.dtype)
        base[1::2] = 77
        base[0 : 2 * len(x) : 2] = x
        return base[0 : 2 * len(x) : 2], base
    raise ValueError(layout)


LONG_FULL = [(1 << 16) + 2, (1 << 17) + 3, 300007]  # every dtype x in_place x layout
LONG_EXTRA = [(1 << 10) + 3, (1 << 12) + 3, (1 << 14) + 2, 1 << 16, (1 << 16) + 1, 1 << 18]  # two dtypes


def _oracle_preemph(x, coeff):
    """y[0] = x[0], y[i] = x[i] - coeff*x[i-1], one sample at a time in Python floats (= float64), every x[i-1]
    taken from the untouched input list."""
    x64 = [float(v) for v in x.astype(np.float64).tolist()]  # exact widening; the arithmetic below is the oracle
    out = [0.0] * len(x64)
    for i in range(len(x64)):
        out[i] = x64[i] if i == 0 else x64[i] - coeff * x64[i - 1]
    with np.errstate(all="ignore"):
        return np.array(out, dtype=np.float64).astype(x.dtype)


def _bits(a):
    return np.ascontiguousarray(a).view(np.uint8).tobytes()


def _apply(obj, a, in_place):
    with warnings.catch_warnings():
        warnings.simplefilter("ignore")
        if in_place is None:
            return obj.apply(a)
        return obj.apply(a, in_place=in_place)


def _check_preemph(case):
    from pydrobert.speech.pre import Preemphasize

    fails, stats = [], {}
    x = _signal(case)
    coeff = float(case["coeff"])
    in_place = case["in_place"]
    a, base = _layout(x, case.get("layout", "contig"))
    base_before = base.copy()
    want = _oracle_preemph(x, coeff)
    pre = Preemphasize(coeff)
    if pre.coeff != coeff:
        fails.append(("C18.preemph.values", case, f"coeff attribute {pre.coeff!r} != {coeff!r}"))
    try:
        got = _apply(pre, a, in_place)
    except Exception as e:  # noqa
        return [("C18.preemph.values", case, f"apply raised {type(e).__name__}: {e}")], False, stats
    if not isinstance(got, np.ndarray) or got.dtype != x.dtype or got.shape != x.shape:
        fails.append(("C18.preemph.dtype_shape", case, f"result dtype/shape {getattr(got, 'dtype', None)}/{getattr(got, 'shape', None)}, input {x.dtype}/{x.shape}"))
        return fails, len(x) >= 2, stats
    clause = "C18.preemph.in_place" if in_place else "C18.preemph.values"
    if x.dtype.kind == "i":
        bad = got != want
    else:
        bad = ~np.isclose(got, want, rtol=RTOL, atol=0.0)
    ok = not bool(np.any(bad))
    stats["bit_equal"] = bool(_bits(got) == _bits(want))
    if not ok:
        idx = np.flatnonzero(bad)
        i = int(idx[0])
        where = f"{len(idx)} of {len(x)} samples wrong, first wrong indices {[int(v) for v in idx[:4]]}; " if len(x) > 8 else ""
        fails.append((clause, case, f"{where}y[{i}] = {got[i]!r}, expected x[{i}] - coeff*x[{i-1}] = {want[i]!r} (x[{i}]={x[i]!r}, x[{i-1}]={x[i-1] if i else None!r}, coeff={coeff}, signal length {len(x)}, {x.dtype}, in_place={in_place})"))
    if not in_place:
        if _bits(base) != _bits(base_before):
            fails.append(("C18.preemph.input_untouched", case, "input array modified with in_place=False"))
        if len(x) and np.shares_memory(got, base):
            fails.append(("C18.preemph.input_untouched", case, "result shares memory with the input with in_place=False"))
    elif x.dtype == np.float64:
        # written through: the view handed in now holds the result and nothing else of the base moved
        if not np.allclose(a, want, rtol=RTOL, atol=0.0) or (len(x) and not np.shares_memory(got, base)):
            fails.append(("C18.preemph.in_place", case, "float64 input with in_place=True was not written through"))
        if case.get("layout") == "strided" and not np.array_equal(base[1::2], base_before[1::2]):
            fails.append(("C18.preemph.in_place", case, "in-place write touched samples outside the view"))
    return fails, len(x) >= 2, stats


class _Seeded:
    """np.random.seed(s) for the duration; restores the global state afterwards."""

    def __init__(self, s):
        self.s = s

    def __enter__(self):
        self.state = np.random.get_state()
        np.random.seed(self.s)

    def __exit__(self, *a):
        np.random.set_state(self.state)


def _dither_run(coeff, a, np_seed, in_place=None):
    from pydrobert.speech.pre import Dither

    with _Seeded(np_seed):
        return _apply(Dither(coeff), a, in_place)


def _check_dither(case):
    from pydrobert.speech.pre import Dither

    fails, stats = [], {}
    chk = case["check"]
    np_seed = int(case["np_seed"])
    if chk == "dither.moments":
        n, coeff = int(case["n"]), float(case["coeff"])
        x = np.zeros(n, dtype=np.float64) if case.get("signal", "zeros") == "zeros" else _signal(dict(case, dtype="float64"))
        out = _dither_run(coeff, x, np_seed)
        noise = out.astype(np.float64) - x
        m, s = float(noise.mean()), float(noise.std(ddof=0))
        se_m, se_s = coeff / np.sqrt(n), coeff / np.sqrt(2 * n)
        stats["z_mean"], stats["z_std"] = abs(m) / se_m, abs(s - coeff) / se_s
        if not abs(m) <= N_SE * se_m:
            fails.append(("C18.dither.moments", case, f"sample mean {m:.6g} is {abs(m)/se_m:.2f} standard errors from 0"))
        if not abs(s - coeff) <= N_SE * se_s:
            fails.append(("C18.dither.moments", case, f"sample std {s:.6g} is {abs(s-coeff)/se_s:.2f} standard errors from coeff {coeff}"))
        if case.get("signal", "zeros") == "zeros" and coeff > 0:
            # "Dither.apply adds noise ... [with] standard deviation coeff": to every sample; on a zero signal the
            # noise is read off exactly and a sample of a continuous N(0, coeff^2) is 0.0 with probability zero
            zero = np.flatnonzero(noise == 0.0)
            if len(zero):
                fails.append(("C18.dither.moments", case, f"{len(zero)} of {n} samples received no noise at all (first indices {[int(v) for v in zero[:4]]}, signal length {n})"))
        return fails, True, stats

    x = _signal(case)
    n = len(x)
    coeff = float(case.get("coeff", 1.0))
    nontrivial = n >= 1
    if Dither(coeff).coeff != coeff:
        fails.append((f"C18.{chk}", case, "coeff attribute not stored"))
    if chk == "dither.independent":
        # float64 signals: a zero signal (noise read off exactly) and two different non-zero signals
        z = np.zeros(n, dtype=np.float64)
        x1 = x.astype(np.float64)
        x2 = _signal(dict(case, salt=str(case.get("salt", "")) + ":other")).astype(np.float64) * 3.0 + 5.0
        nz = _dither_run(coeff, z, np_seed) - z
        n1 = _dither_run(coeff, x1, np_seed) - x1
        n2 = _dither_run(coeff, x2, np_seed) - x2
        tol = RTOL * coeff
        for nm, v in (("signal A", n1), ("signal B", n2)):
            if v.shape != nz.shape or not np.all(np.abs(v - nz) <= tol):
                i = int(np.argmax(np.abs(v - nz))) if v.shape == nz.shape and n else 0
                fails.append(("C18.dither.independent", case, f"noise added to {nm} differs from the noise added to the zero signal under the same seed (sample {i}: {v[i] if n else None!r} vs {nz[i] if n else None!r})"))
        nontrivial = n >= 1 and bool(np.any(nz != 0))
    elif chk == "dither.linear":
        z = np.zeros(n, dtype=np.float64)
        unit = _dither_run(1.0, z, np_seed)
        worst = 0.0
        for c in case["coeffs"]:
            v = _dither_run(float(c), z, np_seed) / float(c)
            err = float(np.max(np.abs(v - unit) / np.maximum(np.abs(unit), 1e-300))) if n else 0.0
            worst = max(worst, err)
            if not err <= RTOL:
                fails.append(("C18.dither.linear", case, f"noise(coeff={c})/coeff differs from noise(coeff=1) (rel {err:.3g})"))
        stats["worst_rel"] = worst
        nontrivial = n >= 1 and bool(np.any(unit != 0))
    elif chk == "dither.identity0":
        a, base = _layout(x, case.get("layout", "contig"))
        out = _dither_run(0.0, a, np_seed, case.get("in_place"))
        if out.dtype != x.dtype or out.shape != x.shape:
            fails.append(("C18.dither.dtype_values", case, f"result dtype/shape {out.dtype}/{out.shape}"))
        elif _bits(out) != _bits(x):
            fails.append(("C18.dither.identity0", case, "coeff 0 changed the signal"))
    elif chk == "dither.reproducible":
        a = _dither_run(coeff, x.copy(), np_seed)
        b = _dither_run(coeff, x.copy(), np_seed)
        c = _dither_run(coeff, x.copy(), np_seed + 1)
        if a.shape != x.shape or _bits(a) != _bits(b):
            fails.append(("C18.dither.reproducible", case, "two runs under the same numpy.random.seed differ"))
        diff = n >= 8 and x.dtype.kind == "f"
        if diff and _bits(a) == _bits(c):
            fails.append(("C18.dither.reproducible", case, "a different seed gave the same output (no noise drawn from numpy's global generator?)"))
        nontrivial = n >= 1
    elif chk == "dither.dtype_values":
        in_place = case.get("in_place")
        a, base = _layout(x, case.get("layout", "contig"))
        base_before = base.copy()
        z = np.zeros(n, dtype=np.float64)
        noise = _dither_run(coeff, z, np_seed)
        with np.errstate(all="ignore"):
            want = (x.astype(np.float64) + noise).astype(x.dtype)
        out = _dither_run(coeff, a, np_seed, in_place)
        if not isinstance(out, np.ndarray) or out.dtype != x.dtype or out.shape != x.shape:
            fails.append(("C18.dither.dtype_values", case, f"result dtype/shape {getattr(out, 'dtype', None)}/{getattr(out, 'shape', None)}, input {x.dtype}/{x.shape}"))
            return fails, nontrivial, stats
        if x.dtype.kind == "i":
            ok = np.array_equal(out, want)
        else:
            ok = np.allclose(out, want, rtol=RTOL, atol=RTOL * coeff)
        if not ok:
            idx = np.flatnonzero(out != want if x.dtype.kind == "i" else ~np.isclose(out, want, rtol=RTOL, atol=RTOL * coeff))
            i = int(idx[0])
            fails.append(("C18.dither.in_place" if in_place else "C18.dither.dtype_values", case, f"out[{i}] = {out[i]!r}, expected cast(x + noise) = {want[i]!r} ({len(idx)} of {n} samples wrong, first indices {[int(v) for v in idx[:4]]})"))
        if not in_place:
            if _bits(base) != _bits(base_before):
                fails.append(("C18.dither.input_untouched", case, "input array modified with in_place=False"))
            if n and np.shares_memory(out, base):
                fails.append(("C18.dither.input_untouched", case, "result shares memory with the input with in_place=False"))
        elif x.dtype == np.float64:
            if (n and not np.shares_memory(out, base)) or not np.allclose(a, want, rtol=RTOL, atol=RTOL * coeff):
                fails.append(("C18.dither.in_place", case, "float64 input with in_place=True was not written through"))
            if case.get("layout") == "strided" and not np.array_equal(base[1::2], base_before[1::2]):
                fails.append(("C18.dither.in_place", case, "in-place write touched samples outside the view"))
        nontrivial = n >= 1 and coeff > 0
    else:
        raise ValueError(chk)
    return fails, nontrivial, stats


def _check_case(case):
    _common.use_repo()
    if case["check"] == "preemph":
        return _check_preemph(case)
    return _check_dither(case)


# ------------------------------------------------------------------------------------------


def _enumerate(tier, seed):
    cases = []
    lengths = [3, 2, 1000, 5, 4, 1, 0]
    coeffs = [0.97, 1.0, -0.5, 0.0, 0.9375, 0.1]
    # tiny explicit signals first (aliasing shows from length 3 on)
    for dt in DTYPES:
        for in_place in (False, True):
            cases.append({"check": "preemph", "dtype": dt, "n": 4, "x": [1000, 2000, -3000, 500], "coeff": 0.97, "in_place": in_place, "layout": "contig"})
    # "for all signal lengths": signals longer than any plausible internal block size, every dtype / in_place / layout
    rng_np = _common.make_rng(seed, "c18:npseeds-long")
    for n in LONG_FULL:
        for dt in DTYPES:
            for in_place, layout in ((False, "contig"), (True, "contig"), (True, "strided"), (False, "readonly"), (None, "contig")):
                cases.append({"check": "preemph", "dtype": dt, "n": n, "seed": seed, "salt": f"pL{dt}{n}", "coeff": 0.97 if layout != "readonly" else -0.5, "in_place": in_place, "layout": layout})
            for in_place, layout in ((False, "contig"), (True, "contig"), (True, "strided")):
                cases.append({"check": "dither.dtype_values", "dtype": dt, "n": n, "seed": seed, "salt": f"dvL{dt}{n}", "coeff": 20.0, "np_seed": int(rng_np.integers(0, 2**31 - 2)), "in_place": in_place, "layout": layout})
            cases.append({"check": "dither.identity0", "dtype": dt, "n": n, "seed": seed, "salt": f"d0L{dt}{n}", "np_seed": int(rng_np.integers(0, 2**31 - 2)), "in_place": True, "layout": "contig"})
        cases.append({"check": "dither.independent", "dtype": "float64", "n": n, "seed": seed, "salt": f"diL{n}", "coeff": 2.0, "np_seed": int(rng_np.integers(0, 2**31 - 2))})
        cases.append({"check": "dither.linear", "dtype": "float64", "n": n, "seed": seed, "salt": f"dlL{n}", "coeffs": [0.5, 10.0], "np_seed": int(rng_np.integers(0, 2**31 - 2))})
        cases.append({"check": "dither.reproducible", "dtype": "float32", "n": n, "seed": seed, "salt": f"drL{n}", "coeff": 3.0, "np_seed": int(rng_np.integers(0, 2**31 - 2))})
        for coeff in (1.0, 30.0):
            cases.append({"check": "dither.moments", "n": n, "coeff": coeff, "np_seed": int(rng_np.integers(0, 2**31 - 2)), "signal": "zeros", "seed": seed, "salt": f"dmL{n}"})
    for n in LONG_EXTRA:
        for dt in ("float64", "int16"):
            for in_place in (False, True):
                cases.append({"check": "preemph", "dtype": dt, "n": n, "seed": seed, "salt": f"pX{dt}{n}", "coeff": 0.97, "in_place": in_place, "layout": "contig"})
    for dt in DTYPES:
        for n in lengths:
            for ci, coeff in enumerate(coeffs):
                for in_place, layout in ((False, "contig"), (False, "readonly"), (True, "contig"), (False, "strided"), (True, "strided"), (None, "contig")):
                    if tier == "quick" and layout == "strided" and ci >= 2:
                        continue
                    cases.append({"check": "preemph", "dtype": dt, "n": n, "seed": seed, "salt": f"p{dt}{n}", "coeff": coeff, "in_place": in_place, "layout": layout})
    if tier == "thorough":
        rng = _common.make_rng(seed, "c18:extra")
        for k in range(400):
            cases.append({"check": "preemph", "dtype": DTYPES[k % 4], "n": int(rng.integers(0, 300)), "seed": seed, "salt": f"r{k}", "coeff": float(np.round(rng.uniform(-1.5, 1.5), 4)), "in_place": bool(rng.integers(0, 2)), "layout": ["contig", "strided"][int(rng.integers(0, 2))]})
    # dither
    rng = _common.make_rng(seed, "c18:npseeds")
    nps = [int(v) for v in rng.integers(0, 2**31 - 2, size=64)]
    k = 0
    for n in (1000, 5, 1, 0):
        for coeff in (1.0, 0.01, 25.0):
            cases.append({"check": "dither.independent", "dtype": "float64", "n": n, "seed": seed, "salt": f"di{n}", "coeff": coeff, "np_seed": nps[k % 64]})
            k += 1
        cases.append({"check": "dither.linear", "dtype": "float64", "n": n, "seed": seed, "salt": f"dl{n}", "coeffs": [0.5, 2.0, 10.0, 1e-3, 3.3], "np_seed": nps[k % 64]})
        k += 1
        for dt in DTYPES:
            for in_place, layout in ((False, "contig"), (False, "readonly"), (True, "contig"), (False, "strided"), (True, "strided"), (None, "contig")):
                cases.append({"check": "dither.identity0", "dtype": dt, "n": n, "seed": seed, "salt": f"d0{dt}{n}", "np_seed": nps[k % 64], "in_place": in_place, "layout": layout})
                for coeff in (1.0, 20.0):
                    cases.append({"check": "dither.dtype_values", "dtype": dt, "n": n, "seed": seed, "salt": f"dv{dt}{n}", "coeff": coeff, "np_seed": nps[k % 64], "in_place": in_place, "layout": layout})
                k += 1
            cases.append({"check": "dither.reproducible", "dtype": dt, "n": n, "seed": seed, "salt": f"dr{dt}{n}", "coeff": 3.0, "np_seed": nps[k % 64]})
            k += 1
    n_seeds = 5 if tier == "quick" else 40
    for i in range(n_seeds):
        for coeff in (1.0, 0.05, 30.0):
            cases.append({"check": "dither.moments", "n": 100000, "coeff": coeff, "np_seed": nps[(k + i) % 64], "signal": "zeros" if i % 2 == 0 else "random", "seed": seed, "salt": f"dm{i}"})
    return cases


def run(tier: str, seed: int) -> dict:
    _common.use_repo()
    col = _common.Collector(PROPERTY, tier, seed, budget_s=50 if tier == "quick" else 500)
    n_float = n_biteq = 0
    zmax = 0.0
    lin_worst = 0.0
    for case in _enumerate(tier, seed):
        if col.out_of_time() or col.too_many_failures():
            col.note("stopped early (time or failure cap)")
            break
        try:
            fails, nontrivial, stats = _check_case(case)
        except Exception as e:  # noqa
            fails, nontrivial, stats = [("C18.exception", case, f"{type(e).__name__}: {e}")], False, {}
        col.case(case, nontrivial=nontrivial, sample=case if (case.get("n") in (3, 5) and case.get("layout") in (None, "strided")) or (case.get("n") == LONG_FULL[0] and case.get("layout") == "strided" and case.get("dtype") == "int16") else None)
        if "bit_equal" in stats and case["dtype"].startswith("float"):
            n_float += 1
            n_biteq += int(stats["bit_equal"])
        zmax = max(zmax, stats.get("z_mean", 0.0), stats.get("z_std", 0.0))
        lin_worst = max(lin_worst, stats.get("worst_rel", 0.0))
        for clause, c, msg in fails:
            col.fail(clause, c, msg)
    col.note(f"pre-emphasis float cases bit-identical to the float64 loop oracle: {n_biteq}/{n_float} (tolerance allowed rtol 1e-9)")
    col.note(f"dither: largest |z| over the moment tests = {zmax:.2f} standard errors (limit {N_SE}); worst relative deviation of noise(c)/c from noise(1) = {lin_worst:.2e}")
    return col.result(
        rule="one case = (transform, dtype, length, coeff, in_place / default, memory layout contiguous|read-only|strided view) or one dither clause instance (numpy seed, length, coeff); non-trivial when the signal has >= 2 samples (pre-emphasis) / >= 1 sample and non-zero noise (dither)",
        bound="BOUNDED: 1-D signals of lengths 0..5 and 1000 (thorough: + 400 random lengths < 300) and, for both transforms, every dtype, in_place False/True/default and contiguous/strided/read-only layouts, the long lengths 2^16+2, 2^17+3 and 300007 (pre-emphasis also 2^10+3, 2^12+3, 2^14+2, 2^16, 2^16+1, 2^18 for float64/int16) compared sample by sample, dtypes f32/f64/i16/i32, |x| <= 8000 (ints) / ~N(0,100^2) (floats), coefficients {0.97,1,-0.5,0,0.9375,0.1} (+ random in [-1.5,1.5]); dither moments on 1e5 samples for 5 (quick) / 40 (thorough) numpy seeds x 3 coeffs at 4.5 standard errors (statistical)",
        assumptions=ASSUMPTIONS,
    )


def replay(case: dict):
    _common.use_repo()
    try:
        fails, _, _ = _check_case(case)
    except Exception as e:  # noqa
        return False, f"C18.exception {type(e).__name__}: {e}"
    if fails:
        return False, "; ".join(f"{c}: {m}" for c, _, m in fails[:3])
    return True, f"C18 {case.get('check')} holds on the case"


if __name__ == "__main__":
    from rtc import _common
    import sys

    _common.main(sys.modules[__name__])

"""Bounded stand-in for C15: Deltas and Stack produce the documented layout and values.

Clauses (all taken from the property statement)
  C15.deltas_shape / C15.deltas_dtype      result shape for concatenate / new-axis mode; dtype == input dtype
  C15.deltas_block0                        block 0 along target_axis is the input, bit for bit
  C15.deltas_values                        block d (1..num_deltas) = Kaldi composite regression filter of order d
                                           applied along `axis` to the input whose edges are extended by the pad mode
                                           -- EACH order sees the input extended by ITS OWN half-width d*context_window
                                           in the chosen mode (modes whose fill depends on the pad width -- linear_ramp,
                                           callables -- and modes with keyword arguments passed through Deltas(**kwargs)
                                           -- end_values, stat_length -- are part of the grid)
  C15.stack_shape / C15.stack_dtype / C15.stack_values
                                           result[.., t, .., v*F+f] = padded[.., t*V+v, .., f]   (exact)
  C15.stack_2d_nd_agree                    a 2-D input and the same data with a singleton third axis agree exactly
  C15.*_input_unmodified                   input bytes unchanged when in_place is False (input is made read-only)
  C15.*_no_alias                           with in_place False the result does not share memory with the input
                                           ("a copy should be made", PostProcessor.apply docstring)
  C15.*_raises                             the real call raised on an input inside the quantifier
  C15.*_reuse_values / _reuse_shape / ...  ONE Deltas / Stack instance applied to a SEQUENCE of inputs of different rank,
                                           shape, dtype, layout, axis and in_place: every call of the sequence must satisfy
                                           the clauses above (the statement speaks of what "Deltas.apply returns" / where
                                           "Stack.apply places" frames for the instance's num_deltas / target_axis /
                                           time_axis ... - for every call, not only the first one on a new object; the
                                           quantifier ranges over "all tensor shapes ..., dtypes, axis / target_axis /
                                           time_axis values (negative too)" with the configuration held fixed)
  C15.*_reuse_fresh                        ... and equals, bit for bit, what a freshly built instance of the same
                                           configuration returns for that input
  C15.*_reuse_attrs                        ... and leaves the instance's public attributes (the configuration the statement
                                           refers to: num_vectors, time_axis, num_deltas, concatenate, ...) as constructed

Oracles are written from the statement: the Kaldi recursion for the filter coefficients by plain loops
(scales_[i] from scales_[i-1]), an explicit index map for the edge extension (cross-checked against np.pad of an
index vector = assumption A-NP-PAD), closed forms for the value-generating modes (linear ramp towards end_values,
mean / median / minimum / maximum of the first / last stat_length samples, and two width-dependent callables whose
fill is written down separately from the callable handed to the library) and explicit per-frame sums / per-(t,v)
block assignments.  Nothing of
np.correlate / np.convolve / np.concatenate / np.stack / reshape is used to build an expected value.
"""
import json
import warnings

import numpy as np

from rtc import _common

PROPERTY = "C15"

ASSUMPTIONS = ["A-REAL", "A-NP-PAD", "A-NP-CAT", "A-NP-SLICE", "A-NP-CORR"]
DTYPES = ("float64", "float32", "int16")
LAYOUTS = ("C", "F", "strided")
# (pad_mode, constant_values)
DELTA_PADS = (("edge", None), ("constant", None), ("reflect", None), ("constant", 3))
# (pad_mode, keyword arguments handed through Deltas(**kwargs) to numpy.pad).  The first group's fill VALUES depend on
# the pad width (so padding once for the longest filter and cropping is NOT the same thing), the second group's only
# through keyword arguments / statistics, the third are further index-map modes.
DELTA_PADS_X = (
    ("linear_ramp", {}),
    ("linear_ramp", {"end_values": -2.0}),
    ("callable:width_ramp", {}),
    ("callable:width_level", {"scale": 0.5}),
    ("mean", {}),
    ("mean", {"stat_length": 2}),
    ("median", {"stat_length": 3}),
    ("maximum", {"stat_length": 2}),
    ("minimum", {}),
    ("symmetric", {}),
    ("wrap", {}),
)
INDEX_MODES = ("edge", "constant", "reflect", "symmetric", "wrap")
STACK_PADS = ((None, None), ("edge", None), ("constant", None), ("reflect", None), ("constant", 3))
RTOL = 1e-9
ULP32 = 2.0 ** -23


# --------------------------------------------------------------------------- inputs
def _make_input(case):
    """Deterministic input of the case: (array as handed to the library, pristine copy)."""
    rng = _common.make_rng(int(case["seed"]), "c15-data")
    shape = tuple(int(s) for s in case["shape"])
    dtype = np.dtype(case["dtype"])
    n = int(np.prod(shape)) if shape else 1
    if dtype.kind == "i":
        flat = rng.integers(-300, 301, size=n).astype(dtype)
    else:
        flat = (rng.standard_normal(n) * float(rng.choice([0.01, 1.0, 50.0])) + float(rng.choice([0.0, 5.0, -20.0]))).astype(dtype)
    base = flat.reshape(shape)
    layout = case.get("layout", "C")
    if layout == "F":
        x = np.asfortranarray(base)
    elif layout == "strided":
        big = np.zeros(tuple(2 * s for s in shape), dtype=dtype)
        sl = tuple(slice(None, None, 2) for _ in shape)
        big[sl] = base
        big[tuple(slice(1, None, 2) for _ in shape)] = 77
        x = big[sl]
    else:
        x = np.ascontiguousarray(base)
    pristine = np.array(base, copy=True, order="C")
    if not case.get("in_place", False):
        x.flags.writeable = False
    return x, pristine


def _index_map(T, left, right, mode):
    """Source index in 0..T-1 for every position of the extended time axis (-1: constant fill)."""
    out = []
    for p in range(-left, T + right):
        if 0 <= p < T:
            out.append(p)
        elif mode == "edge":
            out.append(0 if p < 0 else T - 1)
        elif mode == "constant":
            out.append(-1)
        elif mode == "reflect":
            if T == 1:
                out.append(0)
            else:
                period = 2 * (T - 1)
                m = p % period
                out.append(m if m <= T - 1 else period - m)
        elif mode == "symmetric":
            m = p % (2 * T)
            out.append(m if m < T else 2 * T - 1 - m)
        elif mode == "wrap":
            out.append(p % T)
        else:
            raise ValueError(mode)
    # A-NP-PAD conformance: np.pad on a plain index vector follows the same map
    if T > 0 and mode in ("edge", "reflect", "symmetric", "wrap"):
        ref = np.pad(np.arange(T), (left, right), mode)
        if list(ref) != out:
            raise AssertionError(f"oracle index map disagrees with np.pad: T={T} l={left} r={right} {mode}")
    return out


def _extended(X, idx, cval):
    """X has the time axis first; returns the list of extended frames (each an array over the other axes)."""
    frames = []
    for i in idx:
        if i < 0:
            frames.append(np.full(X.shape[1:], cval, dtype=X.dtype))
        else:
            frames.append(X[i])
    return frames


def _pad_callable(name):
    """The callables handed to the library as pad_mode (numpy.pad protocol: fill `vector` in place).  Their fill
    depends on the pad WIDTH; the oracle (_extended_values) writes the same fill down as a closed form."""

    def width_ramp(vector, pad_width, iaxis, kwargs):
        l, r = int(pad_width[0]), int(pad_width[1])
        n = len(vector)
        if l:
            vector[:l] = vector[l] * (np.arange(1, l + 1) / (l + 1.0))
        if r:
            vector[n - r :] = vector[n - r - 1] * (np.arange(r, 0, -1) / (r + 1.0))

    def width_level(vector, pad_width, iaxis, kwargs):
        l, r = int(pad_width[0]), int(pad_width[1])
        sc = float(kwargs.get("scale", 1.0))
        if l:
            vector[:l] = sc * l
        if r:
            vector[len(vector) - r :] = -sc * r

    return {"width_ramp": width_ramp, "width_level": width_level}[name]


def _extended_values(X, w, mode, kw, fill):
    """X (float64) has the time axis first.  The list of T + 2w frames of X extended by w on both sides in `mode`
    with keyword arguments `kw`, written from the documentation of the modes (numpy.pad) / of the callables."""
    T = X.shape[0]
    if mode in INDEX_MODES:
        return _extended(X, _index_map(T, w, w, mode), fill)
    first, last = X[0], X[T - 1]
    if mode == "linear_ramp":
        e = float(kw.get("end_values", 0.0))
        left = [e + (first - e) * (i / float(w)) for i in range(w)]
        right = [e + (last - e) * ((w - 1 - j) / float(w)) for j in range(w)]
    elif mode in ("mean", "median", "minimum", "maximum"):
        s = kw.get("stat_length")
        s = T if s is None else min(int(s), T)
        f = {"mean": np.mean, "median": np.median, "minimum": np.min, "maximum": np.max}[mode]
        lv, rv = f(X[:s], axis=0), f(X[T - s :], axis=0)
        left, right = [lv] * w, [rv] * w
    elif mode == "callable:width_ramp":
        left = [first * ((i + 1) / (w + 1.0)) for i in range(w)]
        right = [last * ((w - j) / (w + 1.0)) for j in range(w)]
    elif mode == "callable:width_level":
        sc = float(kw.get("scale", 1.0))
        left = [np.full(X.shape[1:], sc * w)] * w
        right = [np.full(X.shape[1:], -sc * w)] * w
    else:
        raise ValueError(mode)
    return [np.asarray(v, dtype=np.float64) for v in left] + [X[i] for i in range(T)] + [np.asarray(v, dtype=np.float64) for v in right]


def _kaldi_scales(order, window):
    """DeltaFeatures::DeltaFeatures of Kaldi, feature-functions.cc, by plain loops."""
    scales = [[1.0]]
    for _ in range(order):
        prev = scales[-1]
        cur = [0.0] * (len(prev) + 2 * window)
        normalizer = 0.0
        for j in range(-window, window + 1):
            normalizer += j * j
            for k in range(len(prev)):
                cur[j + window + k] += j * prev[k]
        scales.append([c / normalizer for c in cur])
    return scales


# --------------------------------------------------------------------------- Deltas
def _new_deltas(case):
    from pydrobert.speech.post import Deltas

    mode, cval = case["pad_mode"], case.get("constant_values")
    kwargs = dict(case.get("pad_kwargs") or {})
    if cval is not None:
        kwargs["constant_values"] = cval
    lib_mode = _pad_callable(mode.split(":", 1)[1]) if mode.startswith("callable:") else mode
    with warnings.catch_warnings():
        warnings.simplefilter("ignore")
        return Deltas(int(case["num_deltas"]), target_axis=int(case["target_axis"]), concatenate=bool(case["concatenate"]),
                      context_window=int(case["context_window"]), pad_mode=lib_mode, **kwargs)


def _check_deltas(case, op=None, out=None):
    """Returns (failures [(clause, msg)], nontrivial, slack).  `op`: an existing instance to use instead of a new
    one (reuse sequences); `out`: dict that receives the raw result under "res"."""

    fails = []
    x, x0 = _make_input(case)
    ndim = x.ndim
    axis, target = int(case["axis"]), int(case["target_axis"])
    nd, W = int(case["num_deltas"]), int(case["context_window"])
    concat = bool(case["concatenate"])
    mode, cval = case["pad_mode"], case.get("constant_values")
    in_place = bool(case.get("in_place", False))
    pad_kw = dict(case.get("pad_kwargs") or {})
    try:
        with warnings.catch_warnings():
            warnings.simplefilter("ignore")
            if op is None:
                op = _new_deltas(case)
            res = op.apply(x, axis=axis, in_place=in_place)
        if out is not None:
            out["res"] = res
    except Exception as e:  # noqa
        clause = "C15.deltas_input_unmodified" if "read-only" in str(e) else "C15.deltas_raises"
        return [(clause, f"{type(e).__name__}: {e}")], False, 0.0
    a = axis % ndim
    T = x0.shape[a]
    # ---- expected shape and the slot of block d
    if concat:
        tp = target % ndim
        exp_shape = list(x0.shape)
        exp_shape[tp] *= nd + 1
        size = x0.shape[tp]

        def slot(d):
            s = [slice(None)] * ndim
            s[tp] = slice(d * size, (d + 1) * size)
            return tuple(s)

    else:
        tp = target % (ndim + 1)
        exp_shape = list(x0.shape)
        exp_shape.insert(tp, nd + 1)

        def slot(d):
            s = [slice(None)] * (ndim + 1)
            s[tp] = d
            return tuple(s)

    exp_shape = tuple(exp_shape)
    if not isinstance(res, np.ndarray) or res.shape != exp_shape:
        fails.append(("C15.deltas_shape", f"shape {getattr(res, 'shape', None)} expected {exp_shape}"))
        return fails, False, 0.0
    if res.dtype != x0.dtype:
        fails.append(("C15.deltas_dtype", f"dtype {res.dtype} expected {x0.dtype}"))
    if not in_place:
        if x.tobytes() != x0.tobytes():
            fails.append(("C15.deltas_input_unmodified", "input changed"))
        if np.shares_memory(res, x):
            fails.append(("C15.deltas_no_alias", "result shares memory with the input although in_place=False"))
    blk0 = res[slot(0)]
    if blk0.shape != x0.shape or blk0.astype(x0.dtype).tobytes() != x0.tobytes() and x0.size:
        fails.append(("C15.deltas_block0", "block 0 is not the input"))
    # ---- values
    slack = 0.0
    nontrivial = x0.size > 0 and nd > 0
    if x0.size and nd:
        scales = _kaldi_scales(nd, W)
        X = np.moveaxis(x0.astype(np.float64), a, 0)
        fill = 0.0 if cval is None else float(cval)
        for d in range(1, nd + 1):
            filt = scales[d]
            off = (len(filt) - 1) // 2
            assert off == d * W
            fmax = max(abs(c) for c in filt)  # coefficients carry ABSOLUTE round-off ~ eps * fmax (true centre tap of odd orders is 0)
            frames = _extended_values(X, off, mode, pad_kw, fill)  # extended by THIS order's half-width
            got = np.moveaxis(res[slot(d)], a, 0)
            for t in range(T):
                acc = np.zeros(X.shape[1:], dtype=np.float64)
                mag = np.zeros(X.shape[1:], dtype=np.float64)
                for m in range(len(filt)):
                    acc += filt[m] * frames[t + m]
                    mag += fmax * np.abs(frames[t + m])
                tol = RTOL * mag
                g = got[t].astype(np.float64)
                if x0.dtype.kind == "i":
                    lo = np.trunc(acc - tol - 1e-12)
                    hi = np.trunc(acc + tol + 1e-12)
                    lo, hi = np.minimum(lo, hi), np.maximum(lo, hi)
                    bad = (g < lo) | (g > hi)
                    err = np.where(bad, np.abs(g - np.trunc(acc)), 0.0)
                else:
                    e = acc.astype(x0.dtype).astype(np.float64)
                    if x0.dtype == np.float32:
                        tol = tol + ULP32 * np.abs(e)
                    err = np.abs(g - e)
                    bad = ~(err <= tol)
                    with np.errstate(divide="ignore", invalid="ignore"):
                        r = np.where(mag > 0, err / np.where(mag > 0, mag, 1), 0.0)
                    if x0.dtype == np.float64 and r.size:
                        slack = max(slack, float(r.max()))
                if np.any(bad):
                    j = tuple(int(v) for v in np.argwhere(bad)[0])
                    fails.append(
                        (
                            "C15.deltas_values",
                            f"delta order {d}, frame {t}, other index {j}: got {g[j]!r} expected {acc[j]!r} (tol {float(np.asarray(tol)[j]):.3g})",
                        )
                    )
                    return fails, nontrivial, slack
    return fails, nontrivial, slack


# --------------------------------------------------------------------------- Stack
def _stack_expected(x0, fa, ta, V, mode, cval):
    """The documented index map, written out: result[.., t, .., v*F + f] = padded[.., t*V + v, .., f]"""
    T, F = x0.shape[ta], x0.shape[fa]
    if mode is not None and T % V:
        Tp = T + V - T % V
    else:
        Tp = T
    idx = _index_map(T, 0, Tp - T, mode if mode is not None else "edge")
    nT = Tp // V
    shape = list(x0.shape)
    shape[ta], shape[fa] = nT, F * V
    exp = np.empty(tuple(shape), dtype=x0.dtype)
    for t in range(nT):
        for v in range(V):
            dst = [slice(None)] * x0.ndim
            dst[ta] = t
            dst[fa] = slice(v * F, (v + 1) * F)
            src_i = idx[t * V + v]
            if src_i < 0:
                exp[tuple(dst)] = 0 if cval is None else cval
            else:
                src = [slice(None)] * x0.ndim
                src[ta] = src_i
                exp[tuple(dst)] = x0[tuple(src)]
    return exp


def _new_stack(time_axis, V, mode, cval):
    from pydrobert.speech.post import Stack

    kwargs = {} if cval is None else {"constant_values": cval}
    with warnings.catch_warnings():
        warnings.simplefilter("ignore")
        return Stack(V, time_axis=time_axis, pad_mode=mode, **kwargs)


def _run_stack(x, axis, time_axis, V, mode, cval, in_place, op=None):
    if op is None:
        op = _new_stack(time_axis, V, mode, cval)
    with warnings.catch_warnings():
        warnings.simplefilter("ignore")
        return op.apply(x, axis=axis, in_place=in_place)


def _check_stack(case, op=None, out=None):
    """`op`: an existing instance to use instead of a new one (reuse sequences; the 2-D / N-D twins are then left
    out); `out`: dict that receives the raw result under "res"."""
    fails = []
    x, x0 = _make_input(case)
    ndim = x.ndim
    axis, time_axis, V = int(case["axis"]), int(case["time_axis"]), int(case["num_vectors"])
    mode, cval = case["pad_mode"], case.get("constant_values")
    in_place = bool(case.get("in_place", False))
    fa, ta = axis % ndim, time_axis % ndim
    assert fa != ta
    try:
        res = _run_stack(x, axis, time_axis, V, mode, cval, in_place, op)
        if out is not None:
            out["res"] = res
    except Exception as e:  # noqa
        clause = "C15.stack_input_unmodified" if "read-only" in str(e) else "C15.stack_raises"
        return [(clause, f"{type(e).__name__}: {e}")], False
    exp = _stack_expected(x0, fa, ta, V, mode, cval)
    nontrivial = exp.size > 0
    if not isinstance(res, np.ndarray) or res.shape != exp.shape:
        fails.append(("C15.stack_shape", f"shape {getattr(res, 'shape', None)} expected {exp.shape}"))
        return fails, nontrivial
    if res.dtype != x0.dtype:
        fails.append(("C15.stack_dtype", f"dtype {res.dtype} expected {x0.dtype}"))
    if np.ascontiguousarray(res).astype(exp.dtype).tobytes() != exp.tobytes():
        bad = np.argwhere(res != exp)
        j = tuple(int(v) for v in bad[0]) if len(bad) else None
        fails.append(("C15.stack_values", f"first differing index {j}: got {res[j] if j else None} expected {exp[j] if j else None}"))
    if not in_place:
        if x.tobytes() != x0.tobytes():
            fails.append(("C15.stack_input_unmodified", "input changed"))
        if np.shares_memory(res, x):
            fails.append(("C15.stack_no_alias", "result shares memory with the input although in_place=False"))
    # 2-D and N-D agree: same data with a singleton axis inserted at every position
    if ndim == 2 and not fails and op is None:
        for pos in range(3):
            x3, _ = _make_input(case)
            x3 = np.expand_dims(x3, pos)
            fa3 = fa + (1 if pos <= fa else 0)
            ta3 = ta + (1 if pos <= ta else 0)
            # keep the sign convention of the case: negative in, negative out
            a3 = fa3 - 3 if axis < 0 else fa3
            t3 = ta3 - 3 if time_axis < 0 else ta3
            try:
                r3 = _run_stack(x3, a3, t3, V, mode, cval, in_place)
            except Exception as e:  # noqa
                fails.append(("C15.stack_2d_nd_agree", f"singleton axis at {pos}: {type(e).__name__}: {e}"))
                break
            if r3.shape != tuple(np.expand_dims(res, pos).shape) or np.ascontiguousarray(r3).tobytes() != np.ascontiguousarray(np.expand_dims(res, pos)).tobytes() or r3.dtype != res.dtype:
                fails.append(("C15.stack_2d_nd_agree", f"singleton axis at {pos}: N-D result {r3.shape} differs from 2-D result {res.shape}"))
                break
    return fails, nontrivial


# --------------------------------------------------------------------------- one instance, several inputs
def _public_state(op):
    """Public, non-callable attributes of the instance (instance dict and class-level data / properties)."""
    st = {}
    for name in dir(op):
        if name.startswith("_"):
            continue
        try:
            v = getattr(op, name)
        except Exception as e:  # noqa
            v = f"<{type(e).__name__}>"
        if callable(v):
            continue
        st[name] = repr(v.tolist()) + str(v.dtype) if isinstance(v, np.ndarray) else repr(v)
    return st


def _same_result(a, b):
    if not isinstance(a, np.ndarray) or not isinstance(b, np.ndarray):
        return False
    return a.shape == b.shape and a.dtype == b.dtype and np.ascontiguousarray(a).tobytes() == np.ascontiguousarray(b).tobytes()


def _check_reuse(case):
    """case = {"op": "reuse", "which": "stack" | "deltas", "config": {...}, "inputs": [{shape, dtype, layout, axis,
    in_place, seed}, ...]}.  One instance is built from `config` and applied to the inputs in order.
    Returns (failures, nontrivial)."""
    which = case["which"]
    cfg = dict(case["config"])
    fails = []
    first = dict(cfg, **case["inputs"][0])
    try:
        shared = _new_stack(int(cfg["time_axis"]), int(cfg["num_vectors"]), cfg["pad_mode"], cfg.get("constant_values")) if which == "stack" else _new_deltas(first)
    except Exception as e:  # noqa
        return [(f"C15.{which}_raises", f"constructor: {type(e).__name__}: {e}")], False
    state0 = _public_state(shared)
    nonempty = 0
    for i, inp in enumerate(case["inputs"]):
        sub = dict(cfg, **inp)
        sub["op"] = which
        where = f"call {i + 1} of {len(case['inputs'])} on one instance (input shape {tuple(inp['shape'])}, {inp['dtype']}, axis {inp['axis']}, in_place {inp['in_place']}; earlier inputs: {[tuple(q['shape']) for q in case['inputs'][:i]]})"
        out = {}
        if which == "stack":
            f, nt = _check_stack(sub, op=shared, out=out)
        else:
            f, nt, _ = _check_deltas(sub, op=shared, out=out)
        nonempty += bool(nt)
        for clause, msg in f:
            fails.append((clause.replace(f"C15.{which}_", f"C15.{which}_reuse_", 1), f"{where}: {msg}"))
        # a freshly built instance of the same configuration on the same input
        x, _ = _make_input(sub)
        try:
            with warnings.catch_warnings():
                warnings.simplefilter("ignore")
                fresh = _new_stack(int(cfg["time_axis"]), int(cfg["num_vectors"]), cfg["pad_mode"], cfg.get("constant_values")) if which == "stack" else _new_deltas(sub)
                ref = fresh.apply(x, axis=int(inp["axis"]), in_place=bool(inp["in_place"]))
        except Exception as e:  # noqa
            ref = e
        if "res" in out and not isinstance(ref, Exception):
            if not _same_result(out["res"], ref):
                fails.append((f"C15.{which}_reuse_fresh", f"{where}: the reused instance returned shape {getattr(out['res'], 'shape', None)} dtype {getattr(out['res'], 'dtype', None)}, a fresh instance shape {ref.shape} dtype {ref.dtype}" + ("" if getattr(out["res"], "shape", None) != ref.shape else " with different values")))
        elif ("res" in out) != (not isinstance(ref, Exception)):
            fails.append((f"C15.{which}_reuse_fresh", f"{where}: reused instance {'returned' if 'res' in out else 'raised'}, fresh instance {'raised ' + repr(ref) if isinstance(ref, Exception) else 'returned'}"))
        state = _public_state(shared)
        if state != state0:
            diff = {k: (state0.get(k), state.get(k)) for k in sorted(set(state0) | set(state)) if state0.get(k) != state.get(k)}
            fails.append((f"C15.{which}_reuse_attrs", f"{where}: apply changed public attributes of the instance (constructed -> now): {diff}"))
            state0 = state  # report each change once
        if any(not c.endswith("_reuse_attrs") for c, _ in fails):
            break  # a changed attribute alone does not end the sequence: the later calls show what it does to the results
    return fails, nonempty >= 2


def _reuse_cases(tier, seed):
    """Sequences of inputs for one instance.  Structure (configuration, ranks of the inputs) is deterministic;
    extents, dtypes, layouts, feature axes and in_place are seeded."""
    rng = _common.make_rng(seed, "c15-reuse-enum")
    k = 0
    ext = [1, 2, 3, 5, 4, 7]

    def inp(rank, pick_axis, T_axis=None, zero=False):
        nonlocal k
        k += 1
        shape = [int(ext[int(rng.integers(len(ext)))]) for _ in range(rank)]
        axis = pick_axis(rank, shape)
        if zero and rank > 1:  # an empty axis that is neither filtered nor the time / feature axis, if there is one
            free = [a for a in range(rank) if a != axis % rank and a != (T_axis % rank if T_axis is not None else axis % rank)]
            if free:
                shape[free[0]] = 0
        return {"shape": shape, "dtype": DTYPES[int(rng.integers(3))], "layout": LAYOUTS[int(rng.integers(3))], "axis": axis,
                "in_place": bool(rng.integers(3) == 0), "seed": int(seed) * 1000003 + 500000 + k}

    rank_orders = [(3, 4, 2, 3), (2, 3, 4, 2), (4, 2, 3, 4), (2, 2, 3, 3), (4, 3, 2, 2)]
    if tier == "thorough":
        rank_orders += [(3, 2, 4, 3, 2, 4), (4, 4, 2, 3, 2), (2, 4, 2, 4)]
    # Stack: every time_axis that is valid for all ranks of the sequence, negative ones first
    for ro_i, ranks in enumerate(rank_orders):
        lo = min(ranks)
        for ta in list(range(-lo, 0)) + list(range(0, lo)):
            for V in (2, 3, 1):
                pad = STACK_PADS[(ro_i + ta + V) % len(STACK_PADS)]

                def pick(rank, shape, ta=ta):
                    cands = [a for a in range(-rank, rank) if a % rank != ta % rank]
                    return int(cands[int(rng.integers(len(cands)))])

                yield {"op": "reuse", "which": "stack",
                       "config": {"time_axis": ta, "num_vectors": V, "pad_mode": pad[0], "constant_values": pad[1]},
                       "inputs": [inp(r, pick, ta, zero=(j == 2 and V == 1)) for j, r in enumerate(ranks)]}
    # Deltas: every target_axis valid for all ranks of the sequence, both layouts of the result
    d_orders = [(2, 3, 1, 4), (1, 2, 3, 2), (4, 2, 3, 1), (3, 3, 2, 2), (2, 4, 4, 3)]
    if tier == "thorough":
        d_orders += [(1, 4, 2, 3, 1, 2), (3, 1, 3, 1)]
    allp = DELTA_PADS + DELTA_PADS_X
    for ro_i, ranks in enumerate(d_orders):
        for concat in (True, False):
            lim = min(ranks) if concat else min(ranks) + 1
            for target in range(-lim, lim):
                pad = allp[(ro_i * 5 + target + 2 * concat) % len(allp)]

                def pick(rank, shape):
                    return int(rng.integers(-rank, rank))

                yield {"op": "reuse", "which": "deltas",
                       "config": {"target_axis": target, "concatenate": concat, "num_deltas": 1 + (ro_i + target) % 3,
                                  "context_window": 1 + (ro_i + concat) % 3, "pad_mode": pad[0],
                                  "constant_values": None if isinstance(pad[1], dict) else pad[1],
                                  "pad_kwargs": dict(pad[1]) if isinstance(pad[1], dict) else {}},
                       "inputs": [inp(r, pick, None, zero=(j == 3)) for j, r in enumerate(ranks)]}


# --------------------------------------------------------------------------- enumeration
def _shapes(rank, menu):
    if rank == 0:
        yield ()
        return
    for s in menu:
        for rest in _shapes(rank - 1, menu):
            yield (s,) + rest


def _delta_structs(rank, menu):
    out = []
    for shape in _shapes(rank, menu):
        for axis in range(-rank, rank):
            if shape[axis] == 0:
                continue  # empty FILTERED axis is outside the quantifier (np.pad cannot extend it)
            for concat in (True, False):
                lim = rank if concat else rank + 1
                for target in range(-lim, lim):
                    out.append((shape, axis, target, concat))
    return out


def _stack_structs(rank, menu):
    out = []
    for shape in _shapes(rank, menu):
        for axis in range(-rank, rank):
            for ta in range(-rank, rank):
                if axis % rank == ta % rank:
                    continue
                for V in (1, 2, 3, 4):
                    for pad in STACK_PADS:
                        out.append((shape, axis, ta, V, pad))
    return out


def _interleave(lists):
    lists = [list(x) for x in lists if len(x)]
    pos = [0] * len(lists)
    while lists:
        nxt, npos = [], []
        for L, p in zip(lists, pos):
            yield L[p]
            if p + 1 < len(L):
                nxt.append(L)
                npos.append(p + 1)
        lists, pos = nxt, npos


def _delta_cases(tier, seed):
    rng = _common.make_rng(seed, "c15-deltas-enum")
    k = 0

    def mk(struct, nd=None, W=None, pad=None, dtype=None, layout=None, in_place=None):
        nonlocal k
        k += 1
        shape, axis, target, concat = struct
        if pad is None:
            allp = DELTA_PADS + DELTA_PADS_X
            pad = allp[int(rng.integers(len(allp)))]
        pad_kw = dict(pad[1]) if isinstance(pad[1], dict) else {}
        return {
            "op": "deltas",
            "shape": list(shape),
            "dtype": dtype or DTYPES[int(rng.integers(3))],
            "axis": axis,
            "target_axis": target,
            "concatenate": concat,
            "num_deltas": int(rng.integers(0, 4)) if nd is None else nd,
            "context_window": int(rng.integers(1, 4)) if W is None else W,
            "pad_mode": pad[0],
            "constant_values": None if isinstance(pad[1], dict) else pad[1],
            "pad_kwargs": pad_kw,
            "layout": layout or LAYOUTS[int(rng.integers(3))],
            "in_place": bool(rng.integers(4) == 0) if in_place is None else in_place,
            "seed": int(seed) * 1000003 + k,
        }

    # core, deterministic in structure: the Kaldi use (2-D, axis 0) and one asymmetric shape per rank with every
    # (num_deltas, window, pad) combination on a short and a longer time axis
    for shape, axis, target, concat in (((7, 3), 0, 1, True), ((2, 6), 1, 0, False), ((4,), 0, 0, True), ((2, 5, 3), -2, -1, True), ((2, 1, 2, 3), 3, 2, False), ((1, 2), 0, -1, True)):
        for nd in range(4):
            for W in (1, 2, 3):
                for pad in DELTA_PADS:
                    yield mk((shape, axis, target, concat), nd, W, pad, DTYPES[(nd + W) % 3], "C", False)
    # core 2: pad modes whose fill depends on the pad width / on keyword arguments passed through Deltas(**kwargs),
    # with num_deltas >= 2 so that several orders (half-widths W, 2W, 3W) coexist; incl. a time axis shorter than the
    # half-width of the higher orders
    for shape, axis, target, concat in (((7, 3), 0, 1, True), ((2, 6), 1, 0, False), ((3,), 0, 0, False), ((2, 5, 3), -2, -1, True), ((1, 2), 0, -1, True)):
        for nd in (2, 3, 1):
            for W in (1, 2, 3):
                for pad in DELTA_PADS_X:
                    yield mk((shape, axis, target, concat), nd, W, pad, DTYPES[(nd + W) % 3], LAYOUTS[(nd + W) % 3], False)
    core_shapes = {1: [(5,), (1,)], 2: [(5, 3), (1, 4)], 3: [(2, 5, 3), (3, 1, 2)], 4: [(2, 3, 5, 2)]}
    for rank, shapes in core_shapes.items():
        for shape in shapes:
            for axis in range(-rank, rank):
                for concat in (True, False):
                    lim = rank if concat else rank + 1
                    for target in range(-lim, lim):
                        yield mk((shape, axis, target, concat), nd=1 + (k % 3))
    menus = {1: [1, 2, 3, 5, 8], 2: [0, 1, 2, 3, 5], 3: [0, 1, 2, 3, 5] if tier == "thorough" else [0, 1, 2, 3], 4: [0, 1, 2, 3, 5] if tier == "thorough" else [0, 1, 2, 3]}
    pools = []
    for rank in (1, 2, 3, 4):
        L = _delta_structs(rank, menus[rank])
        order = rng.permutation(len(L))
        pools.append([L[i] for i in order])
    for s in _interleave(pools):
        yield mk(s)


def _stack_cases(tier, seed):
    rng = _common.make_rng(seed, "c15-stack-enum")
    k = 0

    def mk(struct, dtype=None, layout=None, in_place=None):
        nonlocal k
        k += 1
        shape, axis, ta, V, pad = struct
        return {
            "op": "stack",
            "shape": list(shape),
            "dtype": dtype or DTYPES[int(rng.integers(3))],
            "axis": axis,
            "time_axis": ta,
            "num_vectors": V,
            "pad_mode": pad[0],
            "constant_values": pad[1],
            "layout": layout or LAYOUTS[int(rng.integers(3))],
            "in_place": bool(rng.integers(3) == 0) if in_place is None else in_place,
            "seed": int(seed) * 1000003 + k,
        }

    # core: both 2-D orientations and one N-D shape, every V and pad mode, incl. fewer frames than V
    for shape, axis, ta in (((5, 2), 1, 0), ((5, 2), -1, -2), ((3, 7), 0, 1), ((2, 3), 1, 0), ((1, 3), -1, 0), ((0, 3), 1, 0), ((5, 2, 3), 2, 0), ((2, 5, 3), 0, 1), ((3, 2, 7), 1, -1), ((2, 1, 3, 2), -1, 2)):
        for V in (1, 2, 3, 4):
            for pad in STACK_PADS:
                for in_place in (False, True):
                    yield mk((shape, axis, ta, V, pad), DTYPES[(V + len(shape)) % 3], LAYOUTS[(V + in_place) % 3], in_place)
    menus = {2: [0, 1, 2, 3, 5, 7], 3: [0, 1, 2, 3, 5], 4: [0, 1, 2, 3, 5] if tier == "thorough" else [0, 1, 2, 3]}
    pools = []
    for rank in (2, 3, 4):
        L = _stack_structs(rank, menus[rank])
        order = rng.permutation(len(L))
        pools.append([L[i] for i in order])
    for s in _interleave(pools):
        yield mk(s)


def _key(case):
    return {k: v for k, v in case.items() if k != "seed"}


# --------------------------------------------------------------------------- interface
def run(tier: str, seed: int) -> dict:
    _common.use_repo()
    budget = 40.0 if tier == "quick" else 480.0
    col = _common.Collector(PROPERTY, tier, seed, budget_s=budget)
    share = {"deltas": 0.55, "stack": 0.45}
    worst = 0.0
    counts = {"deltas": 0, "stack": 0}
    exhausted = {}
    t_used = 0.0
    import time

    # one instance, several inputs -- first: cheap, and the only cases in which an instance sees more than one input
    n_reuse = {"stack": 0, "deltas": 0}
    n_calls = 0
    for case in _reuse_cases(tier, seed):
        if col.too_many_failures() or col.out_of_time():
            break
        fails, nontrivial = _check_reuse(case)
        n_reuse[case["which"]] += 1
        n_calls += len(case["inputs"])
        col.case(case, nontrivial=nontrivial, sample=case if n_reuse["stack"] == 2 and n_reuse["deltas"] == 0 else None)
        for clause, msg in fails:
            col.fail(clause, case, msg)
    t_reuse = time.time() - col.t0
    col.note(f"one instance reused for a sequence of inputs of different rank / shape / dtype / layout / axis / in_place: {n_reuse['stack']} Stack and {n_reuse['deltas']} Deltas "
             f"sequences, {n_calls} apply calls, each checked against the oracle, against a freshly built instance and for unchanged public attributes ({t_reuse:.1f} s)")
    for op, gen in (("deltas", _delta_cases(tier, seed)), ("stack", _stack_cases(tier, seed))):
        t_end = time.time() + (budget - t_reuse) * share[op]
        exhausted[op] = True
        for case in gen:
            if time.time() > t_end or col.too_many_failures():
                exhausted[op] = False
                break
            if op == "deltas":
                fails, nontrivial, slack = _check_deltas(case)
                worst = max(worst, slack)
            else:
                fails, nontrivial = _check_stack(case)
            counts[op] += 1
            col.case(_key(case), nontrivial=nontrivial, sample=case if counts[op] in (40, 400) else None)
            for clause, msg in fails:
                col.fail(clause, case, msg)
    col.note(f"structural grid of this tier visited completely (one seeded choice of the remaining parameters per grid point): {exhausted}")
    col.note(f"cases: deltas {counts['deltas']}, stack {counts['stack']} (each 2-D stack case also runs 3 singleton-axis N-D twins)")
    col.note(f"worst float64 delta error relative to max|filt| * sum|x| over the filter support: {worst:.3g} (tolerance {RTOL:g}); float32 adds one float32 ulp; int16 must equal trunc of the exact value (both neighbours accepted only when the exact value is within tolerance of an integer)")
    return col.result(
        rule="Reuse: case = (configuration of ONE Stack / Deltas instance, sequence of 4 (thorough: up to 6) inputs of different rank / shape / dtype / layout / axis / in_place); "
        "non-trivial when at least two calls of the sequence gave non-trivial results; all time_axis (Stack) / target_axis x concatenate (Deltas) values valid for every rank of the sequence, negative ones included. "
        "Deltas: case = (shape, dtype, axis, target_axis, concatenate, num_deltas, context_window, pad mode[, constant value / keyword arguments], memory layout, in_place); "
        "non-trivial when the input is non-empty and num_deltas >= 1. Stack: case = (shape, dtype, axis, time_axis, num_vectors, pad mode, layout, in_place); "
        "non-trivial when the result is non-empty. Fixed core first (all num_deltas x window x index-map pad on six shapes; num_deltas 1..3 x window x "
        "width-/kwargs-dependent pad (linear_ramp, callables, mean/median/min/max with stat_length, symmetric, wrap) on five shapes; all axis/target pairs on one asymmetric shape per rank; "
        "Stack: all V x pad x in_place on ten shapes), then a seeded shuffle of the full structural grid, ranks interleaved, until the time budget.",
        bound="BOUNDED: reuse sequences of 4 (thorough <= 6) calls per instance over 5 (thorough 8 / 7) rank orders, extents {1,2,3,4,5,7} (one empty non-filtered axis), run first; then single calls: ranks 1..4 (Stack 2..4), extents from {0,1,2,3,5(,7,8)} with 0 only on non-filtered axes for Deltas, num_deltas 0..3, context windows 1..3, "
        "pad modes edge/constant(0 and 3)/reflect (+ none for Stack; Deltas also linear_ramp with/without end_values, two width-dependent callables, "
        "mean/median/maximum/minimum with/without stat_length, symmetric, wrap), num_vectors 1..4, float64/float32/int16, C/F/strided layouts; "
        f"every point of the structural grid (shape, axes, concatenate / num_vectors, pad) gets ONE seeded choice of the other parameters; time-boxed ({budget:.0f} s), see notes for whether the grid was finished",
        assumptions=ASSUMPTIONS,
    )


def replay(case: dict):
    _common.use_repo()
    if case.get("op") == "reuse":
        fails, _ = _check_reuse(case)
    elif case.get("op") == "stack":
        fails, _ = _check_stack(case)
    else:
        fails, _, _ = _check_deltas(case)
    if fails:
        return False, "; ".join(f"{c}: {m}" for c, m in fails)
    return True, "all C15 clauses hold on this case"


if __name__ == "__main__":
    from rtc import _common
    import sys

    _common.main(sys.modules[__name__])

"""Bounded stand-in for C17: saved normalisation statistics reload to the same transform.

BOUNDED runtime-contract check (never a proof). A case is a *history*: a list of `Standardize.save`
calls on ONE path (each by a Standardize that accumulated its own seeded data set), optionally preceded
by an archive written with numpy's own writer. After every save

  C17.save_raises          the save itself succeeds (fresh and existing targets of every kind)
  C17.file_contents        the file, read with numpy's own reader (np.load / np.fromfile), holds the
                           sufficient statistics [[sum x_j ..., N], [sum x_j^2 ..., 0]] computed here
                           directly from the data (rtol 1e-9: summation order), float64, under the
                           requested key / the first unused arr_k
  C17.reload_raises        Standardize(rfilename=path [, key=...] [, force_as='file']) succeeds
  C17.apply_identical      reloaded.apply(fresh) == original.apply(fresh) (rtol 1e-12; measured slack is
                           reported), for norm_var True/False, matrix (axis -1 and 0), vector and 3-d input
  C17.apply_definition     reloaded.apply(fresh) equals (x - mean)/std from the data (sanity, rtol 1e-6 on
                           well-conditioned data only)
  C17.npz_key_entry        (.npz) the entry written is the stats; with keep: every other entry is kept
                           bit-identically; without keep: the archive has no other entry
  C17.npz_overwrite_decides  the two settings of `overwrite` differ exactly in that: one keeps all other
                           entries, the other none (which is which is reported in a note, not judged)
  C17.no_stats_valueerror  save before any accumulate -> ValueError, for every target kind

Cases of kind "live" (run FIRST, in a child interpreter) are histories on ONE path with LIVE objects in between: a script of
  new / acc / save / load operations over named Standardize objects, e.g. save A, load L1, accumulate more into A, save A again
  onto the same path, load L2, L2 saves back onto the file it came from, the older L1 saves onto it, a loaded object accumulates
  and saves, two objects loaded from one file ... After EVERY operation EVERY live object must still apply() exactly like a twin
  with the same history of accumulate calls that never touched a file ("loaded again ... give an apply() identical to the
  original's" -- the original as it was when it saved; what somebody writes to the path LATER is not part of what was loaded),
  every save must succeed and leave the saver's statistics in the file ("Saving is repeatable: saving again to an existing file
  of any of these kinds succeeds"; quantifier: "sequences of save calls on the same path"), for every target kind. The script
  runs in a child process because an object that still refers to the file it was loaded from can take the interpreter down when
  the file is rewritten: a child killed by a signal (or hanging) during a save / load / apply is a failure of
  C17.save_raises / C17.reload_raises / C17.apply_identical for the operation in progress.

"any accumulated data" includes coefficients that are CONSTANT over everything accumulated (a floored log-energy
log(1e-10), a padding value): data kinds const_col / const_col32 (some columns constant, float64 / float32 features)
and all_const / all_const32 (every column constant). Their sufficient statistics sit on the edge E[x^2] == E[x]^2
up to rounding (either sign); apply() warns "0 variance" and uses variance 1 -- the reloaded object must do exactly
the same (the warning is silenced locally), on every target kind and for frame counts such as 50 / 100 / 333.
"""
import json
import os
import shutil
import signal
import subprocess
import sys
import tempfile
import warnings

import numpy as np

from rtc import _common

PROPERTY = "C17"

DATA_KINDS = ("negative", "positive", "mixed", "float32", "large", "small", "negative_large", "float32_negative",
              "const_col", "const_col32", "all_const", "all_const32")
CONST_KINDS = ("const_col", "const_col32", "all_const", "all_const32")
# values a constant coefficient takes: none has an exactly representable square, so sum/N and sumsq/N really round
CONST_VALUES = (float(np.log(1e-10)), 0.1, -1.0 / 3.0, float(np.log(1e-5)), float(np.pi), -7.7, 1e-3, float(np.log(np.finfo(np.float32).tiny)))

TARGETS = (
    # (name, suffix, key, compress)
    ("npy", ".npy", None, False),
    ("npz", ".npz", None, False),
    ("npz_key", ".npz", "k", False),
    ("npz_c", ".npz", None, True),
    ("npz_key_c", ".npz", "stats/x", True),
    ("raw_bin", ".bin", None, False),
    ("raw_none", "", None, False),
    ("raw_stats", ".stats", None, False),
    ("raw_dat", ".cmvn.dat", None, False),
)
TARGET_BY_NAME = {t[0]: t for t in TARGETS}


def make_data(kind: str, T: int, F: int, seed: int, salt: str) -> np.ndarray:
    rng = _common.make_rng(seed, "c17data:%s:%s" % (kind, salt))
    z = rng.standard_normal((T, F))
    offs = rng.uniform(0.5, 3.0, size=F)
    if kind == "positive":
        x = np.abs(z) + offs
    elif kind == "negative":  # log-energies
        x = -np.abs(z) * 2.0 - 5.0 - offs
    elif kind == "mixed":
        x = z * 2.0 + np.where(np.arange(F) % 2 == 0, -offs, offs)
    elif kind == "float32":
        x = (z * 3.0 + offs).astype(np.float32)
    elif kind == "float32_negative":
        x = (-np.abs(z) * 3.0 - 10.0 * offs).astype(np.float32)
    elif kind == "large":
        x = (z * 2.0 + offs) * 1e6
    elif kind == "negative_large":
        x = (-np.abs(z) - offs) * 1e5
    elif kind == "small":
        x = (z + offs) * 1e-4
    elif kind in CONST_KINDS:
        # log-energy-like data in which some (const_col*) or all (all_const*) coefficients never change
        x = -np.abs(z) * 2.0 - 5.0 - offs
        vals = [CONST_VALUES[j % len(CONST_VALUES)] if j < len(CONST_VALUES) else float(rng.uniform(-25.0, 5.0)) for j in range(F)]
        vals[F - 1] = CONST_VALUES[0]  # the floor log(1e-10)
        if F > 1:
            vals[0] = float(rng.uniform(-25.0, 5.0))  # one seed-dependent value
        cols = range(F) if kind.startswith("all_const") else [j for j in range(F) if j == F - 1 or j % 4 == 1]
        for j in cols:
            x[:, j] = vals[j]
        if kind.endswith("32"):
            x = x.astype(np.float32)
    else:
        raise ValueError(kind)
    return x


def accumulate(std, x: np.ndarray, mode: str):
    """Feed x (T, F) into std in one of several ways (the history of accumulate calls)."""
    T = x.shape[0]
    if mode == "whole" or T < 2:
        std.accumulate(x)
    elif mode == "split":
        std.accumulate(x[: T // 2])
        std.accumulate(x[T // 2:])
    elif mode == "rows":
        for t in range(T):
            std.accumulate(x[t])
    elif mode == "axis0":
        std.accumulate(np.ascontiguousarray(x.T), axis=0)
    else:
        raise ValueError(mode)


def stats_of(x: np.ndarray) -> np.ndarray:
    """Sufficient statistics straight from the definition, float64."""
    x = x.astype(np.float64)
    T, F = x.shape
    s = np.zeros((2, F + 1))
    for j in range(F):
        s[0, j] = float(np.sum(x[:, j]))
        s[1, j] = float(np.sum(x[:, j] * x[:, j]))
    s[0, F] = T
    return s


def first_unused(entries) -> str:
    k = 0
    while "arr_%d" % k in entries:
        k += 1
    return "arr_%d" % k


def fresh_inputs(F: int, seed: int, kind: str):
    rng = _common.make_rng(seed, "c17fresh:%s" % kind)
    # features to transform are ordinary (non-constant) data also for the constant-coefficient kinds
    base = make_data({"const_col": "negative", "all_const": "negative", "const_col32": "float32_negative", "all_const32": "float32_negative"}.get(kind, kind),
                     6, F, seed, "fresh")
    return [
        ("matrix", base, -1),
        ("matrix_axis0", np.ascontiguousarray(base.T), 0),
        ("vector", base[0].copy(), -1),
        ("tensor3", np.stack([base[:3], base[3:]]).transpose(0, 2, 1).copy(), 1),
        ("float32_in", rng.standard_normal((4, F)).astype(np.float32), -1),
    ]


def rel_slack(a: np.ndarray, b: np.ndarray) -> float:
    if a.shape != b.shape:
        return float("inf")
    if a.size == 0:
        return 0.0
    denom = np.maximum(np.abs(b), 1e-300)
    with np.errstate(invalid="ignore"):
        d = np.abs(a - b) / denom
    if np.any(np.isnan(d)):
        return float("inf")
    return float(np.max(d))


def same_array(a, b) -> bool:
    return a.dtype == b.dtype and a.shape == b.shape and np.array_equal(a, b)


class Ctx:
    def __init__(self):
        self.worst_apply = 0.0
        self.worst_file = 0.0
        self.saves = 0
        self.kept_by = {}  # overwrite flag -> set of observations (True kept / False dropped)


def build_std(post, step: dict, seed: int, idx: int):
    x = make_data(step["data"], step["T"], step["F"], seed, "step%d" % idx)
    std = post.Standardize(norm_var=step.get("norm_var", True))
    accumulate(std, x, step.get("acc", "whole"))
    return std, x


def preexisting(case: dict, path: str, seed: int):
    """Write what is on the path before the first save, with numpy's own writers. Returns dict of entries
    (for .npz) or None."""
    pre = case.get("pre")
    if not pre:
        return None
    rng = _common.make_rng(seed, "c17pre")
    if pre == "npz_other":
        ent = {"other": rng.standard_normal((3, 2)), "ints": np.arange(5, dtype=np.int32)}
    elif pre == "npz_arr0":
        ent = {"arr_0": rng.standard_normal((2, 4)), "arr_1": np.arange(3.0), "zz": np.ones(2)}
    elif pre == "npz_samekey":
        ent = {"k": rng.standard_normal((2, 4)), "stats/x": np.zeros(2), "other": np.arange(4.0)}
    elif pre == "npz_compressed":
        ent = {"other": rng.standard_normal(10), "arr_0": np.arange(4.0)}
        np.savez_compressed(path, **ent)
        return ent
    elif pre == "garbage_raw":
        with open(path, "wb") as f:
            f.write(rng.integers(0, 256, size=333, dtype=np.uint8).tobytes())
        return None
    elif pre == "npy_other":
        with open(path, "wb") as f:
            np.save(f, rng.standard_normal((7, 3)))
        return None
    else:
        raise ValueError(pre)
    with open(path, "wb") as f:
        np.savez(f, **ent)
    return ent


def check_history(case: dict, tmpdir: str, post, ctx: Ctx):
    """-> list of (clause, message)."""
    if case.get("kind") == "no_stats":
        return check_no_stats(case, tmpdir, post)
    if case.get("kind") == "flag_pair":
        return check_flag_pair(case, tmpdir, post, ctx)
    fails = []
    tname, suffix, key, compress = TARGET_BY_NAME[case["target"]]
    path = os.path.join(tmpdir, "stats_%s%s" % (case["target"], suffix))
    if os.path.exists(path):
        os.remove(path)
    seed = case["seed"]
    model = preexisting(case, path, seed)  # model of the archive's entries (npz only)
    if model is not None:
        model = dict(model)
    for idx, step in enumerate(case["steps"]):
        std, x = build_std(post, step, seed, idx)
        kw = {}
        if suffix == ".npz":
            kw = dict(key=step.get("key", key), compress=step.get("compress", compress))
            if "overwrite" in step:
                kw["overwrite"] = step["overwrite"]
        tag = "step %d (%s): " % (idx, step["data"])
        try:
            with warnings.catch_warnings():
                warnings.simplefilter("ignore")
                std.save(path, **kw)
        except Exception as e:  # noqa
            fails.append(("C17.save_raises", tag + "save(%s) onto %s file raised %s: %s" % (
                kw, "an existing" if (idx or case.get("pre")) else "a fresh", type(e).__name__, e)))
            return fails
        ctx.saves += 1
        want = stats_of(x)
        # ---- file contents with numpy's own reader
        used_key = None
        try:
            if suffix == ".npy":
                got = np.load(path)
            elif suffix == ".npz":
                with np.load(path) as arch:
                    entries = {k: arch[k] for k in arch.files}
                before = model if model is not None else {}
                keep_keys = [k for k in before if k != kw["key"]]
                kept = [k for k in keep_keys if k in entries and same_array(entries[k], before[k])]
                if keep_keys:
                    flag = kw.get("overwrite", True)
                    if len(kept) == len(keep_keys):
                        ctx.kept_by.setdefault(flag, set()).add(True)
                        mode = "keep"
                    elif not kept:
                        ctx.kept_by.setdefault(flag, set()).add(False)
                        mode = "drop"
                    else:
                        fails.append(("C17.npz_key_entry", tag + "only some of the other entries survived: %s of %s" % (kept, keep_keys)))
                        return fails
                else:
                    mode = "keep"  # nothing else in the archive: both readings coincide
                visible = before if mode == "keep" else {}
                used_key = kw["key"] if kw["key"] is not None else first_unused(visible)
                if used_key not in entries:
                    fails.append(("C17.npz_key_entry", tag + "expected entry %r, archive has %s" % (used_key, sorted(entries))))
                    return fails
                expect_keys = set(visible) | {used_key}
                if set(entries) != expect_keys:
                    fails.append(("C17.npz_key_entry", tag + "archive entries %s, expected %s" % (sorted(entries), sorted(expect_keys))))
                for k in visible:
                    if k != used_key and k in entries and not same_array(entries[k], visible[k]):
                        fails.append(("C17.npz_key_entry", tag + "kept entry %r was altered" % k))
                got = entries[used_key]
                model = {k: entries[k] for k in entries}
            else:
                got = np.fromfile(path, dtype=np.float64)
                if got.size != want.size:
                    fails.append(("C17.file_contents", tag + "raw file holds %d float64, expected %d" % (got.size, want.size)))
                    return fails
                got = got.reshape(want.shape)
        except Exception as e:  # noqa
            fails.append(("C17.file_contents", tag + "numpy's own reader failed: %s: %s" % (type(e).__name__, e)))
            return fails
        if got.dtype != np.float64 or got.shape != want.shape:
            fails.append(("C17.file_contents", tag + "stored %s %s, expected float64 %s" % (got.dtype, got.shape, want.shape)))
        else:
            scale = np.maximum(np.abs(want), np.abs(want).max(axis=1, keepdims=True) * 1e-6 + 1e-300)
            sl = float(np.max(np.abs(got - want) / scale))
            ctx.worst_file = max(ctx.worst_file, sl)
            if not sl <= 1e-9:
                fails.append(("C17.file_contents", tag + "stored statistics differ from the definition by %.3g relative" % sl))
        # ---- reload
        rkw = {}
        if suffix == ".npz" and used_key != "arr_0":
            rkw["key"] = used_key
        elif suffix == ".npz" and kw["key"] is not None:
            rkw["key"] = used_key
        if suffix not in (".npy", ".npz"):
            rkw["force_as"] = "file"
        try:
            with warnings.catch_warnings():
                warnings.simplefilter("ignore")
                re = post.Standardize(rfilename=path, norm_var=step.get("norm_var", True), **rkw)
        except Exception as e:  # noqa
            fails.append(("C17.reload_raises", tag + "Standardize(%r, %s) raised %s: %s" % (os.path.basename(path), rkw, type(e).__name__, e)))
            return fails
        # ---- same transform
        mean = x.astype(np.float64).mean(axis=0)
        sd = x.astype(np.float64).std(axis=0)
        for name, feats, axis in fresh_inputs(step["F"], seed + idx, step["data"]):
            try:
                with warnings.catch_warnings():
                    warnings.simplefilter("ignore")
                    a = std.apply(feats, axis=axis)
                    b = re.apply(feats, axis=axis)
            except Exception as e:  # noqa
                fails.append(("C17.apply_identical", tag + "apply(%s) raised %s: %s" % (name, type(e).__name__, e)))
                continue
            sl = rel_slack(b, a)
            if a.dtype != b.dtype:
                sl = float("inf")
            ctx.worst_apply = max(ctx.worst_apply, sl)
            if not sl <= 1e-12:
                fails.append(("C17.apply_identical", tag + "apply(%s): reloaded differs from original by %.3g relative (dtype %s vs %s, shape %s vs %s)" % (
                    name, sl, b.dtype, a.dtype, b.shape, a.shape)))
            # sanity against the definition, only where var is well away from cancellation
            if step["T"] >= 8 and step["data"] in ("positive", "negative", "mixed") and name == "matrix" and np.all(sd > 1e-3):
                ref = feats.astype(np.float64) - mean
                if step.get("norm_var", True):
                    ref = ref / sd
                if not np.allclose(b, ref, rtol=1e-6, atol=1e-6):
                    fails.append(("C17.apply_definition", tag + "reloaded apply differs from (x-mean)/std by %.3g" % float(np.max(np.abs(b - ref)))))
    return fails


def check_flag_pair(case, tmpdir, post, ctx):
    """Same pre-existing archive, same statistics, overwrite True vs False: exactly one keeps the others."""
    fails = []
    res = {}
    for flag in (True, False):
        sub = dict(case, kind="history", steps=[dict(case["step"], overwrite=flag)])
        fails += check_history(sub, tmpdir, post, ctx)
        tname, suffix, key, compress = TARGET_BY_NAME[case["target"]]
        path = os.path.join(tmpdir, "stats_%s%s" % (case["target"], suffix))
        try:
            with np.load(path) as arch:
                res[flag] = {k: arch[k] for k in arch.files}
        except Exception as e:  # noqa
            fails.append(("C17.npz_overwrite_decides", "cannot list archive after overwrite=%s: %s" % (flag, e)))
            return fails
    scratch = os.path.join(tmpdir, "pre_copy.npz")
    pre = preexisting(case, scratch, case["seed"])
    os.remove(scratch)
    used = case["step"].get("key", TARGET_BY_NAME[case["target"]][2])
    others = sorted(k for k in pre if k != used)
    surv = {flag: [k for k in others if k in res[flag] and same_array(res[flag][k], pre[k])] for flag in (True, False)}
    keptT, keptF = surv[True] == others, surv[False] == others
    noneT, noneF = not surv[True], not surv[False]
    if not ((keptT and noneF) or (keptF and noneT)):
        fails.append(("C17.npz_overwrite_decides", "other entries before: %s; surviving unchanged with overwrite=True: %s, with overwrite=False: %s (archives now %s / %s): the flag does not decide" % (
            others, surv[True], surv[False], sorted(res[True]), sorted(res[False]))))
    return fails


def check_no_stats(case, tmpdir, post):
    tname, suffix, key, compress = TARGET_BY_NAME[case["target"]]
    path = os.path.join(tmpdir, "empty_%s%s" % (case["target"], suffix))
    kw = dict(key=key, compress=compress) if suffix == ".npz" else {}
    std = post.Standardize(norm_var=case.get("norm_var", True))
    try:
        std.save(path, **kw)
    except ValueError:
        return []
    except Exception as e:  # noqa
        return [("C17.no_stats_valueerror", "save with no statistics raised %s (%s), expected ValueError" % (type(e).__name__, e))]
    finally:
        if os.path.exists(path):
            os.remove(path)
    return [("C17.no_stats_valueerror", "save with no statistics returned normally")]



# ---------------------------------------------------------------------------------------------- live histories
LIVE_MARK = "@@C17LIVE "
LIVE_DEF_KINDS = ("positive", "negative", "mixed")


def _live_emit(obj):
    sys.stdout.write(LIVE_MARK + json.dumps(_common.jsonable(obj)) + "\n")
    sys.stdout.flush()


def _live_twin(post, F, seed, hist, norm_var):
    """The 'original': an object with the same history of accumulate calls that never saw a file."""
    tw = post.Standardize(norm_var=norm_var)
    for data, T, acc, salt in hist:
        accumulate(tw, make_data(data, T, F, seed, salt), acc)
    return tw


def _live_rows(F, seed, hist):
    return np.concatenate([make_data(d, T, F, seed, salt).astype(np.float64) for d, T, _, salt in hist], axis=0)


class _Fails(list):
    """list of (clause, message) that also reports every entry as soon as it is found (a later operation may kill the process)"""

    def __init__(self, report=None):
        list.__init__(self)
        self.report = report

    def append(self, item):
        list.append(self, item)
        if self.report:
            self.report(item)


def live_script(case, tmpdir, post, progress=None, report=None):
    """Run one live history. -> (fails, info). `progress(opidx, stage, text)` is called before everything that touches the
    real code, so that a parent process knows what was going on if this process dies."""
    fails = _Fails(report)
    info = {"worst_apply": 0.0, "worst_file": 0.0, "saves": 0, "checks": 0}
    tname, suffix, key, compress = TARGET_BY_NAME[case["target"]]
    seed, F = int(case["seed"]), int(case["F"])
    path = os.path.join(tmpdir, "live_%s%s" % (case["target"], suffix))
    if os.path.exists(path):
        os.remove(path)
    kind_of_file = {".npy": ".npy", ".npz": ".npz"}.get(suffix, "raw binary")
    objs = {}        # name -> dict(std, hist, norm_var, origin)
    entries = {}     # .npz: what numpy's reader saw in the archive after the last save
    on_path = {}     # entry key ("" unless .npz) -> (hist, opidx of the save) of what our saves put there
    last_key = [None]
    twins = {}
    fresh = fresh_inputs(F, seed, case.get("fresh", "negative"))[:3]
    say = progress or (lambda *a: None)

    def check_all(opidx, what):
        for name in sorted(objs):
            o = objs[name]
            say(opidx, "check", "apply() of %s (%s) after %s" % (name, o["origin"], what))
            tkey = (tuple(o["hist"]), o["norm_var"])
            if tkey not in twins:  # the twin's outputs depend on the history only; the twin never sees the path
                tw = _live_twin(post, F, seed, o["hist"], o["norm_var"])
                with warnings.catch_warnings():
                    warnings.simplefilter("ignore")
                    twins[tkey] = [tw.apply(feats, axis=axis) for _, feats, axis in fresh]
            for (fname, feats, axis), want in zip(fresh, twins[tkey]):
                try:
                    with warnings.catch_warnings():
                        warnings.simplefilter("ignore")
                        got = o["std"].apply(feats, axis=axis)
                except Exception as e:  # noqa
                    fails.append(("C17.apply_identical", "after op %d (%s): %s (%s).apply(%s) raised %s: %s" % (opidx, what, name, o["origin"], fname, type(e).__name__, e)))
                    break
                info["checks"] += 1
                sl = rel_slack(np.asarray(got), np.asarray(want))
                if np.asarray(got).dtype != np.asarray(want).dtype:
                    sl = float("inf")
                info["worst_apply"] = max(info["worst_apply"], sl)
                if not sl <= 1e-12:
                    fails.append(("C17.apply_identical", "after op %d (%s): %s (%s) no longer applies the transform of its own history %s -- apply(%s) differs by %.3g relative "
                                  "from an object with the same accumulate calls that never touched the %s file" % (
                                      opidx, what, name, o["origin"], [(d, T) for d, T, _, _ in o["hist"]], fname, sl, kind_of_file)))
                    break
                if fname == "matrix" and all(d in LIVE_DEF_KINDS for d, _, _, _ in o["hist"]):
                    rows = _live_rows(F, seed, o["hist"])
                    sd = rows.std(axis=0)
                    if rows.shape[0] >= 8 and np.all(sd > 1e-3):
                        ref = feats.astype(np.float64) - rows.mean(axis=0)
                        if o["norm_var"]:
                            ref = ref / sd
                        if not np.allclose(got, ref, rtol=1e-6, atol=1e-6):
                            fails.append(("C17.apply_definition", "after op %d (%s): %s (%s) differs from (x-mean)/std of its history by %.3g" % (
                                opidx, what, name, o["origin"], float(np.max(np.abs(got - ref))))))
                            break

    for opidx, op in enumerate(case["ops"]):
        if len(fails) >= 4:
            break
        kind, name = op["op"], op["obj"]
        if kind in ("new", "acc"):
            salt = "live%d" % opidx
            x = make_data(op["data"], int(op["T"]), F, seed, salt)
            acc = op.get("acc", "whole")
            if kind == "new":
                objs[name] = dict(std=post.Standardize(norm_var=op.get("norm_var", True)), hist=[], norm_var=op.get("norm_var", True), origin="built in memory, never loaded")
            o = objs[name]
            what = "%s accumulates %d more %s vectors" % (name, x.shape[0], op["data"])
            say(opidx, "acc", what)
            try:
                with warnings.catch_warnings():
                    warnings.simplefilter("ignore")
                    accumulate(o["std"], x, acc)
            except Exception as e:  # noqa
                fails.append(("C17.apply_identical", "op %d: %s (%s) raised %s: %s" % (opidx, what, o["origin"], type(e).__name__, e)))
                break
            o["hist"] = o["hist"] + [(op["data"], int(op["T"]), acc, salt)]
        elif kind == "save":
            o = objs[name]
            kw = {}
            if suffix == ".npz":
                kw = dict(key=key, compress=compress)
                ow = op.get("overwrite", case.get("overwrite"))
                if ow is not None:
                    kw["overwrite"] = bool(ow)
            what = "%s (%s) saves to the %s %s file%s" % (name, o["origin"], "existing" if os.path.exists(path) else "fresh", kind_of_file, (" " + str(kw)) if kw else "")
            say(opidx, "save", what)
            try:
                with warnings.catch_warnings():
                    warnings.simplefilter("ignore")
                    o["std"].save(path, **kw)
            except Exception as e:  # noqa
                fails.append(("C17.save_raises", "op %d: %s raised %s: %s" % (opidx, what, type(e).__name__, e)))
                break
            info["saves"] += 1
            want = stats_of(_live_rows(F, seed, o["hist"]))
            try:
                if suffix == ".npy":
                    got, used = np.load(path), ""
                elif suffix == ".npz":
                    with np.load(path) as arch:
                        now = {k: arch[k] for k in arch.files}
                    # either every other entry was kept (statistics under `key` / the first unused arr_k) or none was
                    used_keep = key if key is not None else first_unused(entries)
                    used_drop = key if key is not None else "arr_0"
                    if set(now) == set(entries) | {used_keep} and all(same_array(now[k], entries[k]) for k in entries if k != used_keep):
                        used = used_keep
                    elif set(now) == {used_drop}:
                        used = used_drop
                        on_path.clear()
                    else:
                        fails.append(("C17.npz_key_entry", "op %d: %s: archive had %s, now has %s: neither all other entries kept unchanged (+ %r) nor all dropped (only %r)" % (
                            opidx, what, sorted(entries), sorted(now), used_keep, used_drop)))
                        break
                    got, entries = now[used], now
                else:
                    got, used = np.fromfile(path, dtype=np.float64), ""
                    if got.size != want.size:
                        fails.append(("C17.file_contents", "op %d: %s: raw file holds %d float64, expected %d" % (opidx, what, got.size, want.size)))
                        break
                    got = got.reshape(want.shape)
            except Exception as e:  # noqa
                fails.append(("C17.file_contents", "op %d: %s: numpy's own reader failed: %s: %s" % (opidx, what, type(e).__name__, e)))
                break
            if got.dtype != np.float64 or got.shape != want.shape:
                fails.append(("C17.file_contents", "op %d: %s: stored %s %s, expected float64 %s" % (opidx, what, got.dtype, got.shape, want.shape)))
                break
            scale = np.maximum(np.abs(want), np.abs(want).max(axis=1, keepdims=True) * 1e-6 + 1e-300)
            sl = float(np.max(np.abs(got - want) / scale))
            info["worst_file"] = max(info["worst_file"], sl)
            if not sl <= 1e-9:
                fails.append(("C17.file_contents", "op %d: %s: the file does not hold the saver's statistics (off by %.3g relative)" % (opidx, what, sl)))
                break
            on_path[used] = (list(o["hist"]), opidx)
            last_key[0] = used
        elif kind == "load":
            used = last_key[0]
            if used is None or used not in on_path:
                continue  # nothing of ours on the path (script error): not an executed operation
            rkw = {}
            if suffix == ".npz" and not (used == "arr_0" and key is None):
                rkw["key"] = used
            if suffix not in (".npy", ".npz"):
                rkw["force_as"] = "file"
            hist, saved_at = on_path[used]
            what = "%s = Standardize(%r%s)" % (name, os.path.basename(path), "".join(", %s=%r" % kv for kv in sorted(rkw.items())))
            say(opidx, "load", what)
            try:
                with warnings.catch_warnings():
                    warnings.simplefilter("ignore")
                    std = post.Standardize(rfilename=path, norm_var=op.get("norm_var", True), **rkw)
            except Exception as e:  # noqa
                fails.append(("C17.reload_raises", "op %d: %s raised %s: %s" % (opidx, what, type(e).__name__, e)))
                break
            objs[name] = dict(std=std, hist=list(hist), norm_var=op.get("norm_var", True), origin="loaded at op %d from what op %d saved" % (opidx, saved_at))
        else:
            raise ValueError(kind)
        check_all(opidx, what)
    return fails, info


def _live_child_main():
    """Child side: cases + tmpdir as JSON on stdin; one marked JSON line per progress point / finished case on stdout."""
    _common.use_repo()
    from pydrobert.speech import post

    req = json.load(sys.stdin)
    for i, case in enumerate(req["cases"]):
        try:
            fails, info = live_script(case, req["tmpdir"], post, progress=lambda opidx, stage, text, i=i: _live_emit({"i": i, "op": opidx, "stage": stage, "text": text}),
                                      report=lambda f, i=i: _live_emit({"i": i, "fail": list(f)}))
            fails = list(fails)
        except Exception as e:  # noqa  (a defect of the stand-in itself, or of numpy's readers)
            import traceback

            fails, info = [("C17.apply_identical", "live script aborted: %s: %s | %s" % (type(e).__name__, e, traceback.format_exc()[-300:]))], {}
        _live_emit({"i": i, "done": True, "fails": fails, "info": info})


STAGE_CLAUSE = {"save": "C17.save_raises", "load": "C17.reload_raises", "check": "C17.apply_identical", "acc": "C17.apply_identical"}


def run_live(cases, tmpdir, timeout_s=120.0):
    """Parent side: run the live cases in child interpreters. -> list of (case, fails, info), one per case. A child that is
    killed by a signal, exits abnormally or hangs fails the case it was working on; the remaining cases go to a new child."""
    out = []
    start = 0
    here = os.path.dirname(os.path.dirname(os.path.abspath(__file__)))
    env = dict(os.environ, PYTHONPATH=here + os.pathsep + os.environ.get("PYTHONPATH", ""), PYTHONDONTWRITEBYTECODE="1")
    while start < len(cases):
        batch = cases[start:]
        proc = subprocess.Popen([sys.executable, "-c", "from rtc import c17; c17._live_child_main()"], cwd=here, env=env,
                                stdin=subprocess.PIPE, stdout=subprocess.PIPE, stderr=subprocess.PIPE)
        try:
            so, se = proc.communicate(json.dumps({"cases": batch, "tmpdir": tmpdir}).encode(), timeout=timeout_s)
            hung = False
        except subprocess.TimeoutExpired:
            proc.kill()
            so, se = proc.communicate()
            hung = True
        done, last, early = {}, {}, {}
        for line in so.decode("utf-8", "replace").splitlines():
            if not line.startswith(LIVE_MARK):
                continue
            try:
                rec = json.loads(line[len(LIVE_MARK):])
            except ValueError:
                continue
            if rec.get("done"):
                done[rec["i"]] = rec
            elif "fail" in rec:
                early.setdefault(rec["i"], []).append(tuple(rec["fail"]))
            else:
                last[rec["i"]] = rec
        n_ok = 0
        while n_ok in done:
            rec = done[n_ok]
            out.append((batch[n_ok], [tuple(f) for f in rec["fails"]], rec.get("info", {})))
            n_ok += 1
        if n_ok == len(batch):
            break
        # the child stopped while working on batch[n_ok]
        rec = last.get(n_ok)
        rc = proc.returncode
        if hung:
            how = "did not finish within %.0f s and was killed" % timeout_s
        elif rc is not None and rc < 0:
            try:
                how = "was killed by signal %d (%s)" % (-rc, signal.Signals(-rc).name)
            except ValueError:
                how = "was killed by signal %d" % -rc
        else:
            how = "exited with status %s (%s)" % (rc, se.decode("utf-8", "replace").strip().splitlines()[-1:] or "")
        if rec is None:
            fails = [("C17.apply_identical", "the child interpreter %s before the first operation of the history" % how)]
        else:
            fails = [(STAGE_CLAUSE.get(rec["stage"], "C17.apply_identical"), "op %d: during %s the interpreter %s" % (rec["op"], rec["text"], how))]
        out.append((batch[n_ok], early.get(n_ok, []) + fails, {}))  # what the history had already shown, then the death
        start += n_ok + 1
    return out


def _live_core_scripts():
    """The histories every target kind goes through (names: A, B never loaded; L* loaded from the path)."""
    s1 = [  # save, load, accumulate more into the saver, save again onto the same path; loaded objects save back
        dict(op="new", obj="A", data="@", T=20),
        dict(op="save", obj="A"),
        dict(op="load", obj="L1"),
        dict(op="acc", obj="A", data="positive", T=9, acc="split"),
        dict(op="save", obj="A"),              # L1 must keep the transform of the FIRST save
        dict(op="load", obj="L2"),
        dict(op="save", obj="L2"),             # a loaded object saves back onto the file it came from
        dict(op="load", obj="L3"),
        dict(op="save", obj="L1"),             # the older loaded object saves onto the path
        dict(op="load", obj="L4"),
        dict(op="acc", obj="L4", data="mixed", T=5, acc="rows"),
        dict(op="save", obj="L4"),             # loaded, accumulated on top, saved back
        dict(op="load", obj="L5", norm_var=False),
    ]
    s2 = [  # two objects loaded from one file; another object's statistics land on the path in between
        dict(op="new", obj="A", data="@", T=12, acc="rows", norm_var=False),
        dict(op="save", obj="A"),
        dict(op="load", obj="L1", norm_var=False),
        dict(op="load", obj="L2"),
        dict(op="new", obj="B", data="mixed", T=30),
        dict(op="save", obj="B"),              # somebody else's statistics on the same path
        dict(op="save", obj="L1"),             # and back
        dict(op="acc", obj="L2", data="@", T=8),
        dict(op="save", obj="L2"),
        dict(op="load", obj="L3"),
        dict(op="save", obj="A"),
        dict(op="save", obj="A"),              # the same object twice in a row
        dict(op="load", obj="L4"),
    ]
    return [s1, s2]


def enumerate_live(tier: str, seed: int):
    quick = tier == "quick"
    for si, script in enumerate(_live_core_scripts()):
        for data in ("negative", "float32_negative") if quick else ("negative", "float32_negative", "mixed", "large", "const_col"):
            for t in sorted(TARGETS, key=lambda t: not t[0].startswith("raw")):
                for ow in ((None, True, False) if t[1] == ".npz" else (None,)):
                    ops = [dict(o, data=data) if o.get("data") == "@" else dict(o) for o in script]
                    case = dict(kind="live", target=t[0], seed=seed, F=3 + si, ops=ops)
                    if ow is not None:
                        case["overwrite"] = ow
                    yield case
    rng = _common.make_rng(seed, "c17live")
    for i in range(60 if quick else 1500):
        t = TARGETS[int(rng.integers(0, len(TARGETS)))]
        ops = [dict(op="new", obj="A", data=DATA_KINDS[int(rng.integers(0, len(DATA_KINDS)))], T=int(rng.integers(1, 30)),
                    acc=("whole", "split", "rows", "axis0")[int(rng.integers(0, 4))], norm_var=bool(rng.integers(0, 2))),
               dict(op="save", obj="A")]
        names, loaded = ["A"], 0
        for j in range(int(rng.integers(3, 12))):
            r = rng.random()
            who = names[int(rng.integers(0, len(names)))]
            if r < 0.35:
                op = dict(op="save", obj=who)
                if t[1] == ".npz" and rng.random() < 0.4:
                    op["overwrite"] = bool(rng.integers(0, 2))
            elif r < 0.65 and len(names) < 5:
                loaded += 1
                op = dict(op="load", obj="L%d" % loaded, norm_var=bool(rng.integers(0, 2)))
                names.append(op["obj"])
            else:
                op = dict(op="acc", obj=who, data=DATA_KINDS[int(rng.integers(0, 8))], T=int(rng.integers(1, 20)),
                          acc=("whole", "split", "rows", "axis0")[int(rng.integers(0, 4))])
            ops.append(op)
        yield dict(kind="live", target=t[0], seed=int(rng.integers(0, 2 ** 31)), F=int(rng.integers(1, 14)), ops=ops)


# ----------------------------------------------------------------------------------------------
def enumerate_cases(tier: str, seed: int):
    quick = tier == "quick"
    s = seed
    # 1. the log-energy case on every target, fresh then saved again (same object's stats and another's)
    for data in DATA_KINDS:
        for t in TARGETS:
            yield dict(kind="history", target=t[0], seed=s, steps=[
                dict(data=data, T=20, F=3), dict(data="positive" if data != "positive" else "negative", T=9, F=3, acc="split")])
    # 1b. coefficients that are constant over the accumulated data (zero variance), every target, typical utterance lengths
    for T in (50, 100, 333, 20):
        for data in CONST_KINDS:
            for t in TARGETS:
                for acc, F, nv in (("whole", 3, True), ("rows", 13, True), ("split", 1, False)):
                    if quick and T == 20 and acc != "whole":
                        continue
                    yield dict(kind="history", target=t[0], seed=s, steps=[dict(data=data, T=T, F=F, acc=acc, norm_var=nv)])
    # 2. flag pairs on pre-existing archives
    for pre in ("npz_other", "npz_arr0", "npz_samekey", "npz_compressed"):
        for tn in ("npz", "npz_key", "npz_c", "npz_key_c"):
            for data in ("negative", "float32"):
                yield dict(kind="flag_pair", target=tn, pre=pre, seed=s, step=dict(data=data, T=12, F=4))
    # 3. no statistics
    for t in TARGETS:
        for nv in (True, False):
            yield dict(kind="no_stats", target=t[0], norm_var=nv, seed=s)
    # 4. existing files of the same suffix written by someone else
    for tn, pre in (("raw_bin", "garbage_raw"), ("raw_none", "garbage_raw"), ("npy", "npy_other"),
                    ("npz", "npz_other"), ("npz", "npz_arr0"), ("npz_key", "npz_samekey"), ("npz_key_c", "npz_samekey"),
                    ("npz_c", "npz_compressed"), ("npz", "npz_compressed")):
        for data in ("negative", "mixed", "large"):
            for ow in ((None,) if not tn.startswith("npz") else (None, True, False)):
                step = dict(data=data, T=15, F=4)
                step2 = dict(data="float32_negative", T=5, F=4, acc="rows")
                if ow is not None:
                    step["overwrite"] = ow
                    step2["overwrite"] = not ow
                yield dict(kind="history", target=tn, pre=pre, seed=s, steps=[step, step2, dict(step, data="small")])
    # 5. shapes, accumulate histories, norm_var
    for F in (1, 2, 13, 40):
        for T in (1, 2, 50):
            for acc in ("whole", "split", "rows", "axis0"):
                for t in TARGETS:
                    if quick and (F + T + len(acc) + len(t[0])) % 2:
                        continue
                    for data in ("negative", "float32", "mixed"):
                        yield dict(kind="history", target=t[0], seed=s, steps=[dict(data=data, T=T, F=F, acc=acc, norm_var=bool((F + T) % 2))])
    # 6. random histories of saves on one path
    rng = _common.make_rng(seed, "c17random")
    for i in range(500 if quick else 6000):
        t = TARGETS[int(rng.integers(0, len(TARGETS)))]
        F = int(rng.integers(1, 20))
        steps = []
        for j in range(int(rng.integers(1, 5))):
            st = dict(data=DATA_KINDS[int(rng.integers(0, len(DATA_KINDS)))], T=int(rng.integers(1, 40)), F=F,
                      acc=("whole", "split", "rows", "axis0")[int(rng.integers(0, 4))], norm_var=bool(rng.integers(0, 2)))
            if t[1] == ".npz":
                if rng.random() < 0.6:
                    st["overwrite"] = bool(rng.integers(0, 2))
                if rng.random() < 0.5:
                    st["key"] = [None, "k", "arr_0", "arr_1", "m/n"][int(rng.integers(0, 5))]
                if rng.random() < 0.3:
                    st["compress"] = bool(rng.integers(0, 2))
            steps.append(st)
        case = dict(kind="history", target=t[0], seed=int(rng.integers(0, 2 ** 31)), steps=steps)
        if t[1] == ".npz" and rng.random() < 0.5:
            case["pre"] = ("npz_other", "npz_arr0", "npz_samekey", "npz_compressed")[int(rng.integers(0, 4))]
        yield case


def run(tier: str, seed: int) -> dict:
    _common.use_repo()
    from pydrobert.speech import post

    col = _common.Collector(PROPERTY, tier, seed, budget_s=45 if tier == "quick" else 540)
    tmpdir = tempfile.mkdtemp(prefix="c17_")
    ctx = Ctx()
    kinds = {}
    live = {"cases": 0, "saves": 0, "checks": 0}
    try:
        # live histories first (child interpreters): the only cases in which an object outlives a later save on its path
        for case, fails, info in run_live(list(enumerate_live(tier, seed)), tmpdir, timeout_s=60.0 if tier == "quick" else 300.0):
            col.case(case, nontrivial=True, sample=case if kinds.get("live", 0) == 0 else None)
            kinds["live"] = kinds.get("live", 0) + 1
            ctx.worst_apply = max(ctx.worst_apply, float(info.get("worst_apply", 0.0)))
            ctx.worst_file = max(ctx.worst_file, float(info.get("worst_file", 0.0)))
            live["cases"] += 1
            live["saves"] += int(info.get("saves", 0))
            live["checks"] += int(info.get("checks", 0))
            for clause, msg in fails:
                col.fail(clause, case, msg)
        for case in enumerate_cases(tier, seed):
            if col.out_of_time() or col.too_many_failures():
                col.note("stopped early: " + ("time budget" if col.out_of_time() else "failure cap"))
                break
            fails = check_history(case, tmpdir, post, ctx)
            k = case["kind"]
            col.case(case, nontrivial=True, sample=case if kinds.get(k, 0) == 0 else None)
            kinds[k] = kinds.get(k, 0) + 1
            for clause, msg in fails:
                col.fail(clause, case, msg)
    finally:
        shutil.rmtree(tmpdir, ignore_errors=True)
    col.note("cases per kind: %s; %d successful save calls inspected and reloaded" % (kinds, ctx.saves))
    col.note("live histories: %d scripts run in child interpreters, %d saves onto the one path, %d apply() comparisons of live objects with their never-saved twins "
             "(after every operation, every live object)" % (live["cases"], live["saves"], live["checks"]))
    col.note("worst relative difference reloaded.apply vs original.apply: %.3g (tolerance 1e-12); worst stored-statistics "
             "difference from the definition: %.3g (tolerance 1e-9)" % (ctx.worst_apply, ctx.worst_file))
    direction = {str(k): sorted(v) for k, v in ctx.kept_by.items()}
    col.note("npz other-entry retention observed per overwrite flag (True = kept, False = dropped): %s -- i.e. in the code "
             "overwrite=%s KEEPS the other entries and overwrite=%s drops them (the docstring words it the other way round; "
             "only 'the flag decides' is judged)" % (
                 direction,
                 [k for k, v in ctx.kept_by.items() if v == {True}],
                 [k for k, v in ctx.kept_by.items() if v == {False}]))
    return col.result(
        rule="kind live = a script of new/acc/save/load operations over up to 5 named Standardize objects on ONE path, run in a child interpreter (2 fixed scripts x every "
             "target x data kinds x overwrite None/True/False, then random scripts of 5..13 operations): saver keeps accumulating and saves again while objects loaded earlier "
             "are alive, loaded objects save back onto the file they came from, two objects loaded from one file, ...; after every operation every live object is compared "
             "with a twin of the same accumulate history that never touched a file, every save is inspected with numpy's reader; a child killed by a signal fails the "
             "operation in progress. Other kinds: one case = one history on one path: optional pre-existing file written by numpy, then 1..4 Standardize.save calls, each "
             "followed by an own-reader inspection of the file, a reload through Standardize(rfilename=...) and 5 apply() comparisons "
             "(flag_pair = the same history under overwrite True and False; no_stats = the ValueError clause). Every case is non-trivial "
             "(at least one vector accumulated, or the error clause)",
        bound="targets: .npy, .npz x key{None,'k','stats/x',...} x compress, raw with suffixes .bin/.stats/.cmvn.dat/none; data: 12 kinds "
              "(positive, negative log-energy-like, mixed, float32, float32 negative, 1e6 / 1e5 / 1e-4 scale, some / all coefficients constant "
              "(zero variance; 8 fixed values incl. log(1e-10) + seeded ones) as float64 / float32, T in {20,50,100,333} on every target); F in {1,2,3,4,13,40} and random <20; "
              "T in 1..50; 4 accumulate histories; 4 kinds of pre-existing archive; histories of up to 4 saves; live scripts of up to 13 operations / 5 live objects, F <= 13 "
              "(kaldi tables are not among the targets the statement lists and are not exercised)",
        assumptions=["A-IO-CONTAINER", "A-NP-RED", "A-REAL"],
    )


def replay(case: dict):
    _common.use_repo()
    from pydrobert.speech import post

    tmpdir = tempfile.mkdtemp(prefix="c17r_")
    try:
        case = dict(case)
        case.setdefault("kind", "history")
        case.setdefault("seed", 0)
        if case["kind"] == "live":
            fails = run_live([case], tmpdir)[0][1]
        else:
            fails = check_history(case, tmpdir, post, Ctx())
    finally:
        shutil.rmtree(tmpdir, ignore_errors=True)
    if fails:
        return False, "; ".join("%s: %s" % f for f in fails)
    return True, "C17 holds on %s" % (case,)


if __name__ == "__main__":
    from rtc import _common
    import sys

    _common.main(sys.modules[__name__])

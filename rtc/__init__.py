"""Bounded stand-ins: runtime-contract checks of the real pydrobert-speech functions.

Each module cNN.py decides (bounded, never counted as proved) the sentences of property
CNN that no verification condition can decide, and is the replay oracle for refuted VCs.
Interface (see _common.py): run(tier, seed) -> dict ; replay(case) -> (ok, message)
"""

"""Bounded stand-in for property C04: a frame computer's output depends only on the current
utterance.

Statement (properties.jsonl): after finalize() (or a completed compute_full) a frame computer
behaves exactly like a freshly constructed one, whatever it processed before: any history of
utterances, chunk sizes, empty chunks, repeated finalize() calls and too-short utterances
leaves the features of the next utterance bit-identical to those of a new instance with the
same configuration. `started` is true exactly from the first compute_chunk until the next
finalize; compute_full and frame_by_frame_calculation refuse (ValueError) to run
mid-utterance and leave the utterance in progress undisturbed. Input arrays are never
modified, so read-only arrays are accepted.

Method: a seeded random call history is executed on ONE long-lived instance through its
public interface only (no white-box writes). The oracle is (a) a three-line protocol model
written from the statement (`started` becomes true at compute_chunk, false at finalize, is
unchanged by anything else; compute_full / frame_by_frame_calculation raise ValueError iff
started) and (b) for EVERY utterance of the history - not only the last one - the same
utterance (its accepted calls only, i.e. without any refused call) given to a newly
constructed instance of the same configuration, every returned piece compared bit for bit
(shape, dtype, bytes). All arrays are handed over with setflags(write=False) (a fraction of
the histories hands over writable arrays instead, so that a silent write is seen too) and
compared with a saved copy after every call.

Clauses
  C04.utterance_identical  every piece returned for an utterance == fresh instance's piece
  C04.started              `started` equals the protocol model after every call
  C04.refuse_mid_utterance compute_full / frame_by_frame_calculation raise ValueError iff started
  C04.undisturbed          (reported as utterance_identical with 'after a refused call' in the
                           message) the utterance continues as if the refused call never happened
  C04.stray_finalize       finalize() while not started returns zero rows of num_coeffs columns
  C04.empty_result_dtype   an EMPTY result (stray finalize, or an utterance without samples) has the
                           dtype a fresh instance gives it; same comparison as utterance_identical,
                           split off because only the dtype of a 0-row array is at stake; at most
                           one representative failure is recorded per run, the rest are counted
  C04.input_unmodified     the array passed to a call is unchanged afterwards
  C04.readonly_accepted    no call fails because its input is read-only
  C04.no_exception         no accepted call raises
  C04.determinism          (oracle sanity, A-DET) two fresh instances agree with each other
"""
import time
import warnings

import numpy as np

from rtc import _common

PROPERTY = "C04"

ASSUMPTIONS = ["A-DET (checked: two fresh instances agree bit for bit)", "A-NP-SLICE", "A-REAL (not used: comparison is bit-exact)"]

DEFAULTS = {
    "dtype": "float64",
    "include_energy": True,
    "pad_to_nearest_power_of_two": False,
    "window": None,
    "use_log": True,
    "use_power": False,
    "kaldi_shift": False,
    "readonly": True,
}

DT = {"f8": np.float64, "f4": np.float32, "float64": np.float64, "float32": np.float32}


# ----------------------------------------------------------------------------------------
def _bank(name, rate):
    from pydrobert.speech import filters as F

    if name == "fbank3":
        return F.Fbank(num_filts=3, sampling_rate=rate)
    if name == "fbank10":
        return F.Fbank(num_filts=10, sampling_rate=rate)
    if name == "tri3":
        return F.TriangularOverlappingFilterBank("mel", num_filts=3, sampling_rate=rate)
    if name == "tri8":
        return F.TriangularOverlappingFilterBank("mel", num_filts=8, sampling_rate=rate)
    if name == "gabor3":
        return F.GaborFilterBank("mel", num_filts=3, sampling_rate=rate)
    if name == "gabor8":
        return F.GaborFilterBank("mel", num_filts=8, sampling_rate=rate)
    if name == "gabor20":
        return F.GaborFilterBank("mel", num_filts=20, sampling_rate=rate)
    if name == "gamma3":
        return F.ComplexGammatoneFilterBank("mel", num_filts=3, sampling_rate=rate)
    if name == "gamma8":
        return F.ComplexGammatoneFilterBank("mel", num_filts=8, sampling_rate=rate)
    if name == "gamma20":
        return F.ComplexGammatoneFilterBank("bark", num_filts=20, sampling_rate=rate)
    raise ValueError("unknown bank " + str(name))


def _full_case(case):
    c = dict(DEFAULTS)
    c.update(case)
    return c


def _build(case):
    from pydrobert.speech import compute

    rate = case["sampling_rate"]
    s = int(case["frame_shift"])
    shift_ms = (s + 0.5) * 1000.0 / rate
    with warnings.catch_warnings():
        warnings.simplefilter("ignore")
        bank = _bank(case["bank"], rate)
        if case["computer"] == "stft":
            L = int(case["frame_length"])
            comp = compute.ShortTimeFourierTransformFrameComputer(
                bank,
                frame_length_ms=(L + 0.5) * 1000.0 / rate,
                frame_shift_ms=shift_ms,
                frame_style=case["frame_style"],
                include_energy=case["include_energy"],
                pad_to_nearest_power_of_two=case["pad_to_nearest_power_of_two"],
                window_function=case["window"],
                use_log=case["use_log"],
                use_power=case["use_power"],
                kaldi_shift=bool(case["kaldi_shift"]),
            )
            if comp.frame_length != L:
                raise RuntimeError("frame_length %r != %r" % (comp.frame_length, L))
        else:
            comp = compute.ShortIntegrationFrameComputer(
                bank,
                frame_shift_ms=shift_ms,
                frame_style=case["frame_style"],
                include_energy=case["include_energy"],
                pad_to_nearest_power_of_two=case["pad_to_nearest_power_of_two"],
                window_function=case["window"],
                use_power=case["use_power"],
                use_log=case["use_log"],
            )
    if comp.frame_shift != s:
        raise RuntimeError("frame_shift %r != %r" % (comp.frame_shift, s))
    return comp


def _signal(seed, sid, n, dt):
    return _common.make_rng(seed, "c04.x.%d" % sid).standard_normal(int(n)).astype(DT[dt])


def _same(a, b):
    return (isinstance(a, np.ndarray) and isinstance(b, np.ndarray) and a.shape == b.shape and a.dtype == b.dtype
            and a.tobytes() == b.tobytes())


def _describe(a):
    return "%s%s" % (getattr(a, "dtype", type(a).__name__), getattr(a, "shape", ""))


# ----------------------------------------------------------------------------------------
# history validity (what the generator guarantees, re-checked for hand-made / shrunk cases)
# ----------------------------------------------------------------------------------------
def _valid(ops):
    started = False
    cur = None
    for op in ops:
        kind = op[0]
        if kind == "chunk":
            if started and op[3] != cur:
                return False  # a dtype change inside an utterance is outside the property
            started, cur = True, op[3]
        elif kind == "finalize":
            started, cur = False, None
        elif kind not in ("full", "fbf"):
            return False
        if kind in ("chunk", "full", "fbf") and int(op[1]) < 0:
            return False
        if kind == "fbf" and int(op[4]) < 1:
            return False
    return True


# ----------------------------------------------------------------------------------------
# executing one history
# ----------------------------------------------------------------------------------------
class _Stop(Exception):
    pass


def _execute(case):
    """-> (fails [(clause, message)], info dict)"""
    from pydrobert.speech import compute

    seed = case["seed"]
    ops = case["ops"]
    readonly = bool(case["readonly"])
    fails = []
    info = {"utterances": 0, "with_frames": 0, "refused": 0, "stray": 0, "last_frames": 0}
    long_lived = _build(case)
    nc = long_lived.num_coeffs
    started = False  # the protocol model
    cur_calls = []  # accepted calls of the utterance in progress: (kind, array copy, extra)
    cur_outs = []
    refused_in_cur = False
    stray_ref = [None]

    def make(op):
        x = _signal(seed, op[2], op[1], op[3])
        saved = x.copy()
        if readonly:
            x.setflags(write=False)
        return x, saved

    def guarded(idx, op, fn, x, saved):
        try:
            with warnings.catch_warnings():
                warnings.simplefilter("ignore")
                out = fn()
        except Exception as e:  # noqa: BLE001
            if x is not None and not (x.tobytes() == saved.tobytes()):
                fails.append(("C04.input_unmodified", "call %d %r changed its input before raising" % (idx, op)))
            if "read-only" in str(e) or "readonly" in str(e) or "WRITEABLE" in str(e):
                fails.append(("C04.readonly_accepted", "call %d %r: %s: %s" % (idx, op, type(e).__name__, e)))
            else:
                fails.append(("C04.no_exception", "call %d %r: %s: %s" % (idx, op, type(e).__name__, e)))
            raise _Stop()
        if x is not None and not (x.tobytes() == saved.tobytes() and x.shape == saved.shape):
            fails.append(("C04.input_unmodified", "call %d %r changed its input array" % (idx, op)))
        return out

    def check_started(idx, op):
        got = long_lived.started
        if not isinstance(got, (bool, np.bool_)) or bool(got) != started:
            fails.append(("C04.started", "after call %d %r started is %r, the protocol says %r" % (idx, op, got, started)))
            raise _Stop()

    def compare_with_fresh(idx, calls, outs, tag):
        """calls: accepted calls of one complete utterance; outs: what the long-lived instance
        returned for each of them."""
        info["utterances"] += 1
        ref_outs = []
        for rep in range(2 if tag == "last" else 1):
            fresh = _build(case)
            res = []
            with warnings.catch_warnings():
                warnings.simplefilter("ignore")
                for kind, x, extra in calls:
                    x = x.copy()
                    if kind == "chunk":
                        res.append(fresh.compute_chunk(x))
                    elif kind == "finalize":
                        res.append(fresh.finalize())
                    elif kind == "full":
                        res.append(fresh.compute_full(x))
                    else:
                        res.append(compute.frame_by_frame_calculation(fresh, x, chunk_size=extra))
            ref_outs.append(res)
        if len(ref_outs) == 2 and not all(_same(a, b) for a, b in zip(*ref_outs)):
            fails.append(("C04.determinism", "two freshly constructed instances disagree on the utterance ending at call %d" % idx))
            raise _Stop()
        ref = ref_outs[0]
        rows = sum(int(o.shape[0]) for o in ref if getattr(o, "ndim", 0) == 2)
        info["last_frames"] = rows
        if rows:
            info["with_frames"] += 1
        for j, (a, b) in enumerate(zip(outs, ref)):
            if not _same(a, b):
                if (isinstance(a, np.ndarray) and isinstance(b, np.ndarray) and a.shape == b.shape and a.size == 0):
                    fails.append(("C04.empty_result_dtype",
                                  "utterance ending at call %d: piece %d (%s) is the empty array %s on the long-lived instance, "
                                  "%s on a fresh one" % (idx, j, calls[j][0], _describe(a), _describe(b))))
                    continue
                d = ""
                if isinstance(a, np.ndarray) and a.shape == b.shape and a.size:
                    d = ", max|diff| %.3g" % float(np.max(np.abs(a.astype(np.float64) - b.astype(np.float64))))
                fails.append(("C04.utterance_identical",
                              "utterance ending at call %d%s: piece %d (%s) is %s on the long-lived instance, %s on a fresh one%s"
                              % (idx, " (after a refused call)" if refused_in_cur else "", j, calls[j][0], _describe(a), _describe(b), d)))
                raise _Stop()

    try:
        check_started(-1, "construction")
        for idx, op in enumerate(ops):
            kind = op[0]
            if kind == "chunk":
                x, saved = make(op)
                out = guarded(idx, op, lambda: long_lived.compute_chunk(x), x, saved)
                started = True
                cur_calls.append(("chunk", saved, None))
                cur_outs.append(out)
                if not (isinstance(out, np.ndarray) and out.ndim == 2 and out.shape[1] == nc):
                    fails.append(("C04.utterance_identical", "call %d %r returned %s" % (idx, op, _describe(out))))
                    raise _Stop()
                check_started(idx, op)
            elif kind == "finalize":
                out = guarded(idx, op, long_lived.finalize, None, None)
                if started:
                    started = False
                    check_started(idx, op)
                    cur_calls.append(("finalize", np.empty(0), None))
                    cur_outs.append(out)
                    last = not any(o[0] in ("chunk", "full", "fbf") for o in ops[idx + 1 :])
                    compare_with_fresh(idx, cur_calls, cur_outs, "last" if last else "mid")
                else:
                    check_started(idx, op)
                    info["stray"] += 1
                    if not (isinstance(out, np.ndarray) and out.shape == (0, nc)):
                        fails.append(("C04.stray_finalize", "call %d: finalize() while not started returned %s, expected (0, %d)"
                                      % (idx, _describe(out), nc)))
                        raise _Stop()
                    if stray_ref[0] is None:
                        with warnings.catch_warnings():
                            warnings.simplefilter("ignore")
                            stray_ref[0] = _build(case).finalize()
                    if not _same(out, stray_ref[0]):
                        if out.shape == stray_ref[0].shape:
                            fails.append(("C04.empty_result_dtype", "call %d: finalize() while not started returned the empty array %s, "
                                          "a fresh instance returns %s" % (idx, _describe(out), _describe(stray_ref[0]))))
                        else:
                            fails.append(("C04.stray_finalize", "call %d: finalize() while not started returned %s, a fresh instance %s"
                                          % (idx, _describe(out), _describe(stray_ref[0]))))
                            raise _Stop()
                cur_calls, cur_outs, refused_in_cur = [], [], False
            else:  # full / fbf
                x, saved = make(op)
                if kind == "full":
                    fn = lambda: long_lived.compute_full(x)  # noqa: E731
                else:
                    fn = lambda: compute.frame_by_frame_calculation(long_lived, x, chunk_size=int(op[4]))  # noqa: E731
                if started:
                    try:
                        with warnings.catch_warnings():
                            warnings.simplefilter("ignore")
                            out = fn()
                    except ValueError as e:
                        if "read-only" in str(e):
                            fails.append(("C04.readonly_accepted", "call %d %r: %s" % (idx, op, e)))
                            raise _Stop()
                        out = None
                    except Exception as e:  # noqa: BLE001
                        fails.append(("C04.refuse_mid_utterance", "call %d %r mid-utterance raised %s (%s), not ValueError"
                                      % (idx, op, type(e).__name__, e)))
                        raise _Stop()
                    else:
                        fails.append(("C04.refuse_mid_utterance", "call %d %r mid-utterance returned %s instead of raising ValueError"
                                      % (idx, op, _describe(out))))
                        raise _Stop()
                    if not (x.tobytes() == saved.tobytes()):
                        fails.append(("C04.input_unmodified", "refused call %d %r changed its input" % (idx, op)))
                    info["refused"] += 1
                    refused_in_cur = True
                    check_started(idx, op)
                else:
                    out = guarded(idx, op, fn, x, saved)
                    check_started(idx, op)
                    last = not any(o[0] in ("chunk", "full", "fbf") for o in ops[idx + 1 :])
                    compare_with_fresh(idx, [(kind, saved, int(op[4]) if kind == "fbf" else None)], [out], "last" if last else "mid")
    except _Stop:
        pass
    return fails, info


def replay(case):
    _common.use_repo()
    case = _full_case(case)
    if not _valid(case["ops"]):
        return True, "not a case: invalid history (dtype change inside an utterance, negative size, ...)"
    try:
        fails, info = _execute(case)
    except RuntimeError as e:
        return True, "not a case: %s" % e
    if fails:
        return False, "; ".join("%s: %s" % f for f in fails)
    return True, "%d utterances identical to fresh instances (%d with frames), %d refused calls, %d stray finalize" % (
        info["utterances"], info["with_frames"], info["refused"], info["stray"])


# ----------------------------------------------------------------------------------------
# generating histories
# ----------------------------------------------------------------------------------------
def _sizes(comp):
    L = int(comp.frame_length)
    s = int(comp.frame_shift)
    D = int(getattr(comp, "_dft_size", L))
    return L, s, D


def _draw_size(rng, cls, L, s, D):
    if cls == "zero":
        return 0
    if cls == "one":
        return 1
    if cls == "sub":
        return int(rng.integers(2, max(3, L)))
    if cls == "half":
        return int(L // 2 + rng.integers(0, 2))
    if cls == "near":
        return int(rng.integers(L // 2 + 1, L + s + 2))
    if cls == "multi":
        return int(rng.integers(L, 4 * L + 2))
    if cls == "long":
        return int(D + rng.integers(0, D + 1))
    raise ValueError(cls)


CHUNK_CLASSES = ("zero", "one", "sub", "sub", "half", "near", "multi", "multi", "long")
UTT_CLASSES = ("zero", "one", "sub", "half", "near", "near", "multi", "multi", "long")


def _gen_history(rng, comp_sizes, base_dt, is_si, max_calls=8):
    L, s, D = comp_sizes
    other = "f4" if base_dt == "f8" else "f8"
    ops = []
    sid = [0]
    started = False
    cur_dt = None

    def dt_new():
        return base_dt if rng.random() < 0.8 else other

    def chunk(n):
        nonlocal started, cur_dt
        if not started:
            cur_dt = dt_new()
        ops.append(["chunk", int(n), sid[0], cur_dt])
        sid[0] += 1
        started = True

    def fin():
        nonlocal started, cur_dt
        ops.append(["finalize"])
        started, cur_dt = False, None

    def full(n):
        ops.append(["full", int(n), sid[0], dt_new()])
        sid[0] += 1

    def fbf(n):
        k = int(rng.choice([1, 2, max(1, s), max(1, L // 2), L, L + 1, 1024, int(rng.integers(1, max(2, n + 2)))]))
        ops.append(["fbf", int(n), sid[0], dt_new(), k])
        sid[0] += 1

    n_macro = int(rng.integers(1, max_calls + 1))
    menu = ("chunk", "chunk", "chunk", "finalize", "finalize2", "short", "full", "fbf", "refused_full", "refused_fbf")
    for _ in range(n_macro):
        m = menu[int(rng.integers(0, len(menu)))]
        if m == "chunk":
            chunk(_draw_size(rng, CHUNK_CLASSES[int(rng.integers(0, len(CHUNK_CLASSES)))], L, s, D))
        elif m == "finalize":
            fin()
        elif m == "finalize2":
            fin()
            fin()
        elif m == "short":
            chunk(int(rng.integers(0, L // 2 + 1)))
            fin()
        elif m in ("full", "fbf"):
            n = _draw_size(rng, UTT_CLASSES[int(rng.integers(0, len(UTT_CLASSES)))], L, s, D)
            full(n) if m == "full" else fbf(n)
        else:
            if not started:
                chunk(_draw_size(rng, ("zero", "one", "sub", "multi")[int(rng.integers(0, 4))], L, s, D))
            n = _draw_size(rng, UTT_CLASSES[int(rng.integers(0, len(UTT_CLASSES)))], L, s, D)
            full(n) if m == "refused_full" else fbf(n)
            if rng.random() < 0.7:
                chunk(_draw_size(rng, CHUNK_CLASSES[int(rng.integers(0, len(CHUNK_CLASSES)))], L, s, D))
    if started:
        fin()
    # the final utterance
    cls = ("near", "near", "multi", "multi", "multi", "half", "long")[int(rng.integers(0, 7))]
    n = _draw_size(rng, cls, L, s, D)
    how = rng.random()
    if how < 0.6:
        k = int(rng.integers(0, 4))
        cuts = sorted(int(v) for v in rng.integers(0, n + 1, size=k))
        cuts = [0] + cuts + [n]
        for a, b in zip(cuts[:-1], cuts[1:]):
            chunk(b - a)
        if rng.random() < 0.3:
            # a refused call in the middle of the final utterance
            full(int(rng.integers(0, 2 * L)))
            ops[-1], ops[-2] = ops[-2], ops[-1]
        fin()
    elif how < 0.85:
        full(n)
    else:
        fbf(n)
    return ops


def _shrink(case, clause, limit=60):
    """Greedy removal of calls that keeps the same clause failing (for readable reports)."""
    ops = list(case["ops"])
    tries = 0
    changed = True
    while changed and tries < limit:
        changed = False
        for i in range(len(ops)):
            cand = ops[:i] + ops[i + 1 :]
            if not cand or not _valid(cand):
                continue
            tries += 1
            try:
                fails, _ = _execute(dict(case, ops=cand))
            except Exception:  # noqa: BLE001
                continue
            if any(f[0] == clause for f in fails):
                ops = cand
                changed = True
                break
            if tries >= limit:
                break
    return dict(case, ops=ops)


# ----------------------------------------------------------------------------------------
def _configs(quick):
    cfgs = []
    modes = (("causal", False), ("centered", False), ("centered", True))
    # tiny STFT (small shift relative to the frame: the end-of-signal reflection reaches far back)
    tiny = [(10, 1), (8, 3), (7, 7), (5, 2), (13, 4), (4, 1), (12, 5), (9, 8), (2, 1), (6, 3)]
    for i, (L, s) in enumerate(tiny):
        for j, (style, kaldi) in enumerate(modes):
            cfgs.append((dict(computer="stft", frame_style=style, kaldi_shift=kaldi, frame_length=L, frame_shift=s,
                              sampling_rate=1000, bank="fbank3", dtype="float32" if (i + j) % 3 == 2 else "float64",
                              window="hamming" if i % 2 else None), 1.0))
    # realistic STFT
    for i, bank in enumerate(("fbank10", "gabor8", "gamma8")):
        for j, (style, kaldi) in enumerate(modes):
            cfgs.append((dict(computer="stft", frame_style=style, kaldi_shift=kaldi, frame_length=200, frame_shift=80,
                              sampling_rate=8000, bank=bank, pad_to_nearest_power_of_two=True,
                              dtype="float32" if (i + j) % 2 else "float64", use_power=bool(i == 1), include_energy=(i != 2)), 0.5))
    cfgs.append((dict(computer="stft", frame_style="centered", kaldi_shift=True, frame_length=201, frame_shift=120,
                      sampling_rate=8000, bank="tri8", pad_to_nearest_power_of_two=True), 0.5))
    # SI, tiny banks at 1 kHz (shift inside C01's hypothesis)
    si = [("causal", "gamma3", 1, "float64"), ("causal", "gamma3", 5, "float32"), ("causal", "gamma3", 12, "float64"),
          ("centered", "gabor3", 2, "float64"), ("centered", "gabor3", 7, "float32"), ("causal", "gabor3", 4, "float64"),
          ("centered", "gamma3", 8, "float64"), ("centered", "tri3", 7, "float64"), ("causal", "tri3", 30, "float32")]
    for i, (style, bank, s, dt) in enumerate(si):
        cfgs.append((dict(computer="si", frame_style=style, frame_shift=s, sampling_rate=1000, bank=bank, dtype=dt,
                          pad_to_nearest_power_of_two=bool(i % 2), use_power=bool(i % 3 == 1), use_log=bool(i % 4 != 3)), 0.6))
    # SI, larger banks at 8 kHz (construction is slow: fewer histories)
    cfgs.append((dict(computer="si", frame_style="causal", frame_shift=80, sampling_rate=8000, bank="gamma20",
                      pad_to_nearest_power_of_two=True, dtype="float64"), 0.1))
    cfgs.append((dict(computer="si", frame_style="centered", frame_shift=40, sampling_rate=8000, bank="gabor20",
                      pad_to_nearest_power_of_two=True, dtype="float32"), 0.1))
    return cfgs


def run(tier, seed):
    _common.use_repo()
    quick = tier != "thorough"
    col = _common.Collector(PROPERTY, tier, seed, budget_s=45 if quick else 540)
    per_cfg = 150 if quick else 2500
    cfgs = _configs(quick)
    totals = {"utterances": 0, "with_frames": 0, "refused": 0, "stray": 0, "empty_dtype": 0, "histories": 0, "calls": 0}
    # round-robin over configurations in slices, so that a time-out thins every configuration
    # evenly instead of dropping the last ones
    prepared = []
    for ci, (cfg, weight) in enumerate(cfgs):
        base = _full_case(dict(cfg, seed=seed, ops=[]))
        try:
            comp = _build(base)
        except RuntimeError as e:
            col.note("configuration not realisable: %r (%s)" % (cfg, e))
            continue
        if base["computer"] == "si":
            base["frame_length"] = int(comp.frame_length)
        prepared.append((ci, base, _sizes(comp), max(4, int(per_cfg * weight))))
    n_slices = 6 if quick else 30
    truncated = False
    for sl in range(n_slices):
        for ci, base, sizes, n_hist in prepared:
            lo, hi = (n_hist * sl) // n_slices, (n_hist * (sl + 1)) // n_slices
            for h in range(lo, hi):
                rng = _common.make_rng(seed, "c04.hist.%d.%d" % (ci, h))
                base_dt = "f8" if base["dtype"] == "float64" else "f4"
                ops = _gen_history(rng, sizes, base_dt, base["computer"] == "si")
                case = dict(base, ops=ops, readonly=bool(rng.random() < 0.8), hist=h)
                fails, info = _execute(case)
                for k in ("utterances", "with_frames", "refused", "stray"):
                    totals[k] += info[k]
                totals["histories"] += 1
                totals["calls"] += len(ops)
                nontrivial = info["utterances"] >= 2 and info["last_frames"] >= 1
                key = "%d|%d|%r" % (ci, h, ops)
                col.case(key, nontrivial=nontrivial, sample=case if (nontrivial and h % 7 == 3) else None)
                hard = [f for f in fails if f[0] != "C04.empty_result_dtype"]
                soft = [f for f in fails if f[0] == "C04.empty_result_dtype"]
                for group in (hard, soft):
                    if not group:
                        continue
                    clause, message = group[0]
                    if clause == "C04.empty_result_dtype":
                        totals["empty_dtype"] += len(group)
                        if totals["empty_dtype"] > len(group):
                            continue  # one representative only
                    small = _shrink(case, clause)
                    f2, _ = _execute(small)
                    f2 = [f for f in f2 if f[0] == clause]
                    rec = case
                    if f2:
                        rec, message = small, f2[0][1]
                    if clause == "C04.empty_result_dtype":
                        rec = dict(rec, finding_hint="empty_result_dtype")
                    col.fail(clause, rec, message)
                if col.too_many_failures():
                    break
            if col.too_many_failures() or col.out_of_time():
                truncated = col.out_of_time()
                break
        if col.too_many_failures() or col.out_of_time():
            break
    if truncated:
        col.note("stopped by the time budget in slice %d of %d (every configuration received the earlier slices)" % (sl + 1, n_slices))
    col.note("%(histories)d histories, %(calls)d calls, %(utterances)d utterances compared with fresh instances (%(with_frames)d "
             "produced frames), %(refused)d refused mid-utterance calls, %(stray)d finalize() calls while not started" % totals)
    if totals["empty_dtype"]:
        col.note("C04.empty_result_dtype: %d empty results (finalize() while not started, or an utterance without samples) had the "
                 "dtype remembered from the PREVIOUS utterance where a fresh instance returns its default; one representative is "
                 "recorded" % totals["empty_dtype"])
    rule = (
        "one evaluation = one seeded call history on one long-lived instance: 1..8 macro calls drawn from {compute_chunk of "
        "0 / 1 / sub-frame / about half a frame / about one frame / several frames / more than one DFT block samples, finalize, "
        "finalize twice, too-short utterance, compute_full, frame_by_frame_calculation, compute_full / frame_by_frame_calculation "
        "mid-utterance (ValueError expected, then the utterance continues)}, then a final utterance (chunked with 0-3 cuts, "
        "sometimes with a refused call inside, or compute_full, or frame_by_frame_calculation); utterances change dtype "
        "(float64/float32) with probability 0.2; 80% of the histories pass read-only arrays, 20% writable ones. EVERY utterance of "
        "the history is replayed on a newly constructed instance and compared piece by piece, bit for bit. Non-trivial = at least "
        "two utterances and the final one produced >= 1 frame."
    )
    bound = (
        "BOUNDED: %s tier; %d configurations (STFT causal / centered / centered+kaldi_shift: 10 tiny (L, s) at 1 kHz and 3 banks at "
        "8 kHz 25/10 ms; SI causal / centered: 9 tiny and 2 larger banks), up to %d histories each (fewer where construction is slow), "
        "histories of at most ~20 calls; public interface only" % (tier, len(prepared), per_cfg)
    )
    return col.result(rule, bound, ASSUMPTIONS)


if __name__ == "__main__":
    from rtc import _common
    import sys

    _common.main(sys.modules[__name__])

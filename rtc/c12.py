"""Bounded stand-in for C12: uncompressed NIST SPHERE audio decodes exactly.

BOUNDED runtime-contract check (never a proof) except for the G.711 part, which is
EXHAUSTIVE over all 256 codes of each table (checked both on the table objects and through
the reader, against the ITU-T G.711 expansion algorithms written out here as bit manipulation).

Every case builds a SPHERE file *here* (header text + raw data section) from
(channels c, samples n, coding, byte order, header size, truncation) and a seeded integer array,
reads it with `read_signal(path)` (suffix .sph) or `read_signal(stream, force_as="sph")` and compares
with the array the file was built from.

Clauses
  C12.exact_samples        values/shape/dtype of a well-formed file (shape (n,) mono, (n,c) otherwise)
  C12.g711_expand          ulaw/alaw expanded to int16 by G.711 (default and >= 2-byte dtype requests)
  C12.g711_table           all 256 codes of ULAW2PCM / ALAW2PCM equal the G.711 algorithm (exhaustive)
  C12.raw_codes            1-byte dtype request returns the raw codes
  C12.no_spurious_warning  no warning for a well-formed file
  C12.truncated_warning    a warning is issued when the data section is short
  C12.truncated_samples    ... and exactly the whole frames present are returned
  C12.bad_header_ioerror   not NIST_1A / shorter than 1024 bytes / header size < 1024 -> IOError
  C12.raised               unexpected exception on a well-formed (or merely truncated) file

"any header size": besides 1024-byte headers and larger headers that are merely padded, kind "longhdr" builds headers of
2048 / 3072 bytes whose FIELD LIST runs past byte 1024 (end_head in the 2nd / 3rd 1024-byte block): a chosen line (one of
the fields the decoder needs, a descriptive field, or end_head itself) straddles byte 1024 at a chosen offset, or its
newline is byte 1024 / byte 1023, and the needed fields are distributed before / after byte 1024 in rotating order.
"""
import io
import os
import shutil
import tempfile
import warnings

import numpy as np

from rtc import _common

PROPERTY = "C12"

BLOCK = 16384  # the reader's read size in bytes

CODINGS = ("pcm01", "pcm10", "ulaw", "alaw")


# ----------------------------------------------------------------------------------------------
# independent oracle: G.711 expansion (ITU-T G.711, as in the reference g711.c by Sun Microsystems)
# ----------------------------------------------------------------------------------------------
def g711_ulaw_expand(code: int) -> int:
    """mu-law byte -> 16-bit linear PCM. The byte is stored complemented; bit 7 sign, bits 6..4
    segment, bits 3..0 quantisation step; bias 0x84 (33 << 2)."""
    u = (~code) & 0xFF
    t = (((u & 0x0F) << 3) + 0x84) << ((u & 0x70) >> 4)
    return (0x84 - t) if (u & 0x80) else (t - 0x84)


def g711_alaw_expand(code: int) -> int:
    """A-law byte -> 16-bit linear PCM. Even bits are inverted (xor 0x55); bit 7 set = positive."""
    a = (code ^ 0x55) & 0xFF
    t = (a & 0x0F) << 4
    seg = (a & 0x70) >> 4
    if seg == 0:
        t += 8
    elif seg == 1:
        t += 0x108
    else:
        t += 0x108
        t <<= seg - 1
    return t if (a & 0x80) else -t


def expand(codes: np.ndarray, coding: str) -> np.ndarray:
    f = g711_ulaw_expand if coding == "ulaw" else g711_alaw_expand
    lut = np.array([f(k) for k in range(256)], dtype=np.int16)  # built from the algorithm above
    return lut[codes.astype(np.intp)]


# ----------------------------------------------------------------------------------------------
# file builder
# ----------------------------------------------------------------------------------------------
def sample_width(coding: str) -> int:
    return 2 if coding.startswith("pcm") else 1


def make_values(coding: str, n: int, c: int, seed: int, salt: str) -> np.ndarray:
    """(n, c) integer array: int16 over the full range for pcm, uint8 codes for ulaw/alaw."""
    rng = _common.make_rng(seed, "c12data:" + salt)
    if coding.startswith("pcm"):
        x = rng.integers(-32768, 32767, size=(n, c), endpoint=True).astype(np.int16)
        if n >= 2:  # make sure the extremes and a byte-order-sensitive value occur
            x[0, 0] = -32768
            x[-1, -1] = 32767
            x[n // 2, 0] = 0x0102
    else:
        x = rng.integers(0, 255, size=(n, c), endpoint=True).astype(np.uint8)
    return x


def build_header(c: int, n: int, coding: str, hdr: int, extra: bool, declared_hdr=None, no_sbf=False) -> bytes:
    w = sample_width(coding)
    lines = ["NIST_1A", "%7d" % (hdr if declared_hdr is None else declared_hdr)]
    if extra:
        lines += ["database_id -s8 TIDIGITS", "utterance_id -s9 dd_1233_a"]
    lines += ["channel_count -i %d" % c, "sample_count -i %d" % n, "sample_rate -i 8000"]
    if extra:
        lines += ["sample_min -i -2677", "sample_max -i 2234"]
    lines.append("sample_n_bytes -i %d" % w)
    if coding.startswith("pcm"):
        lines += ["sample_byte_format -s2 %s" % coding[3:], "sample_coding -s3 pcm"]
        if extra:
            lines.append("sample_sig_bits -i 16")
    elif no_sbf:
        # one-byte samples have no byte order: the sample_byte_format line is optional for them (SPHERE needs it for multi-byte samples)
        lines += ["sample_coding -s4 %s" % coding]
    else:
        lines += ["sample_byte_format -s1 1", "sample_coding -s4 %s" % coding]
    lines.append("end_head")
    h = ("\n".join(lines) + "\n").encode()
    assert len(h) <= hdr
    return h.ljust(hdr, b" ")


ESSENTIAL = ("channel_count", "sample_count", "sample_rate", "sample_n_bytes", "sample_byte_format", "sample_coding")
CROSS_LINES = ESSENTIAL + ("filler", "end_head")


def _filler_line(idx: int, total: int) -> bytes:
    """A descriptive -s field line of exactly `total` bytes including its newline (one token, no blanks)."""
    for k in range(1, 200):
        ln = ("note_%02d -s%d %s\n" % (idx, k, "abcdefghij"[idx % 10] * k)).encode()
        if len(ln) == total:
            return ln
    raise ValueError("no filler line of %d bytes" % total)


def _fill_to(buf: bytes, target: int, idx: int):
    """Append descriptive lines so that len(buf) == target. -> (buf, next idx)"""
    gap = target - len(buf)
    assert gap == 0 or gap >= 14, (gap, target)
    while gap > 0:
        take = 40 if gap >= 80 else (gap if gap < 54 else gap - 20)
        buf += _filler_line(idx, take)
        idx += 1
        gap = target - len(buf)
    return buf, idx


def build_long_header(c: int, n: int, coding: str, hdr: int, lay: dict) -> bytes:
    """Header of `hdr` (2048 / 3072) bytes whose field list extends past byte 1024.
    lay = {cross: which line crosses byte 1024 (a name of ESSENTIAL, 'filler' or 'end_head'),
           at:    how many bytes of that line INCLUDING its newline lie before byte 1024 (1..len(line)+1; len(line) puts the
                  newline on byte 1024, len(line)+1 on byte 1023 so that the next line starts exactly at byte 1024; -1 / -2
                  are shorthands for these two),
           rot, split: the essential fields (other than the crossing one) are taken in ESSENTIAL order rotated by `rot`;
                  the first `split` of them come before byte 1024, the others after}
    For hdr 3072 the fields after byte 1024 are again split around byte 2048, which a descriptive line straddles, and
    end_head lies in the third block."""
    w = sample_width(coding)
    text = {"channel_count": "channel_count -i %d" % c, "sample_count": "sample_count -i %d" % n, "sample_rate": "sample_rate -i 8000",
            "sample_n_bytes": "sample_n_bytes -i %d" % w,
            "sample_byte_format": ("sample_byte_format -s2 %s" % coding[3:]) if coding.startswith("pcm") else "sample_byte_format -s1 1",
            "sample_coding": "sample_coding -s3 pcm" if coding.startswith("pcm") else "sample_coding -s4 %s" % coding,
            "end_head": "end_head"}
    cross = lay["cross"]
    order = [f for f in ESSENTIAL[lay["rot"] % 6:] + ESSENTIAL[:lay["rot"] % 6] if f != cross]
    split = len(order) if cross == "end_head" else min(lay["split"], len(order))
    before, after = order[:split], order[split:]
    cross_line = (_filler_line(99, 33) if cross == "filler" else (text[cross] + "\n").encode())
    at = lay["at"]
    if at < 0:
        at = len(cross_line) + 1 + at  # -1: newline on byte 1023, -2: newline on byte 1024
    assert 1 <= at <= len(cross_line)
    buf = ("NIST_1A\n%7d\n" % hdr).encode()
    for f in before:
        buf += (text[f] + "\n").encode()
    buf, idx = _fill_to(buf, 1024 - at, 0)
    buf += cross_line
    assert buf[:1024].count(b"\n") >= 2 and len(buf) >= 1024
    if cross != "end_head":
        if hdr >= 3072:
            for f in after[: len(after) // 2]:
                buf += (text[f] + "\n").encode()
            buf, idx = _fill_to(buf, 2048 - 1 - (at % 30), idx)  # the next descriptive line straddles byte 2048
            buf += _filler_line(idx, 33)
            idx += 1
            after = after[len(after) // 2:]
        else:
            buf += _filler_line(idx, 25)
            idx += 1
        for f in after:
            buf += (text[f] + "\n").encode()
        buf += b"end_head\n"
    assert len(buf) <= hdr and buf.index(b"\nend_head\n") + 1 + 9 >= 1024  # end_head ends at or after the block boundary
    return buf.ljust(hdr, b" ")


def data_bytes(values: np.ndarray, coding: str) -> bytes:
    if coding == "pcm01":
        return values.astype("<i2").tobytes()
    if coding == "pcm10":
        return values.astype(">i2").tobytes()
    return values.astype(np.uint8).tobytes()


def build_file(case: dict):
    """-> (file bytes, values (n,c), number of whole frames present)."""
    c, n, coding = case["c"], case["n"], case["coding"]
    if case.get("kind") == "codes256":  # every code exactly once
        assert n * c == 256 and not coding.startswith("pcm")
        values = np.arange(256, dtype=np.uint8).reshape(n, c)
    else:
        values = make_values(coding, n, c, case["seed"], "%d:%d:%s" % (c, n, coding))
    if case.get("magic_at") is not None:
        # "decodes to exactly the stored samples", whatever they are: the four bytes 'ajkg' (legal mu-law / A-law codes, legal PCM
        # samples) stored at byte offset magic_at of the data section (not at its start: that would be a shorten stream)
        o = int(case["magic_at"])
        w = sample_width(coding)
        if o > 0 and o % w == 0 and o + 4 <= n * c * w:
            flat = values.reshape(-1).copy()
            if w == 1:
                flat[o:o + 4] = np.frombuffer(b"ajkg", dtype=np.uint8)
            else:
                flat[o // 2:o // 2 + 2] = np.frombuffer(b"ajkg", dtype="<i2" if coding == "pcm01" else ">i2").astype(np.int16)
            values = flat.reshape(values.shape)
    body = data_bytes(values, coding)
    cut = case.get("cut_bytes", 0)
    assert 0 <= cut <= len(body)
    body = body[: len(body) - cut]
    present = len(body) // (c * sample_width(coding))
    if case.get("long") is not None:
        header = build_long_header(c, n, coding, case["hdr"], case["long"])
    else:
        header = build_header(c, n, coding, case["hdr"], case.get("extra", False), no_sbf=bool(case.get("no_sbf")) and not coding.startswith("pcm"))
    return header + body, values, present


def read(case: dict, blob: bytes, tmpdir: str, util):
    """Run the real reader; returns (result, list of warnings)."""
    dtype = case.get("dtype")
    with warnings.catch_warnings(record=True) as rec:
        warnings.simplefilter("always")
        if case["via"] == "path":
            p = os.path.join(tmpdir, "x.sph")
            with open(p, "wb") as f:
                f.write(blob)
            out = util.read_signal(p, dtype=dtype)
        elif case["via"] == "file":
            p = os.path.join(tmpdir, "y.bin")  # suffix deliberately not .sph
            with open(p, "wb") as f:
                f.write(blob)
            with open(p, "rb") as f:
                out = util.read_signal(f, dtype=dtype, force_as="sph")
        else:
            out = util.read_signal(io.BytesIO(blob), dtype=dtype, force_as="sph")
    return out, [str(w.message) for w in rec]


def expected_of(case: dict, values: np.ndarray, present: int) -> np.ndarray:
    """What the property promises, from the array the file was built from."""
    coding, dtype, c = case["coding"], case.get("dtype"), case["c"]
    v = values[:present]
    if coding.startswith("pcm"):
        exp = v.astype(np.int16)
        if dtype is not None:
            exp = exp.astype(dtype)
    else:
        if dtype is not None and np.dtype(dtype).itemsize == 1:
            exp = v.astype(np.uint8).astype(dtype)  # raw codes
        else:
            exp = expand(v, coding)
            if dtype is not None:
                exp = exp.astype(dtype)
    if c == 1:
        exp = exp.reshape(-1)
    return exp


def check_case(case: dict, tmpdir: str, util):
    """-> list of (clause, message); empty when the property holds on this case."""
    if case.get("kind") == "bad_header":
        return check_bad_header(case, tmpdir, util)
    if case.get("kind") == "table":
        return check_tables(case)
    blob, values, present = build_file(case)
    truncated = present < case["n"]
    try:
        out, warns = read(case, blob, tmpdir, util)
    except Exception as e:  # noqa
        return [("C12.raised", "%s: %s" % (type(e).__name__, e))]
    fails = []
    exp = expected_of(case, values, present)
    g711 = not case["coding"].startswith("pcm")
    raw = g711 and case.get("dtype") is not None and np.dtype(case["dtype"]).itemsize == 1
    if truncated:
        val_clause = "C12.truncated_samples"
    elif raw:
        val_clause = "C12.raw_codes"
    elif g711:
        val_clause = "C12.g711_expand"
    else:
        val_clause = "C12.exact_samples"
    if not isinstance(out, np.ndarray):
        return [(val_clause, "result is %r, not an array" % type(out))]
    if out.shape != exp.shape:
        fails.append((val_clause, "shape %s, expected %s" % (out.shape, exp.shape)))
    elif out.dtype != exp.dtype:
        fails.append((val_clause, "dtype %s, expected %s" % (out.dtype, exp.dtype)))
    elif not np.array_equal(out, exp):
        bad = np.argwhere(out != exp)
        fails.append((val_clause, "%d of %d values differ, first at %s: got %s expected %s" % (
            len(bad), exp.size, bad[0].tolist(), out[tuple(bad[0])], exp[tuple(bad[0])])))
    if truncated and not warns:
        fails.append(("C12.truncated_warning", "data section short by %d bytes but no warning" % case["cut_bytes"]))
    if not truncated and warns:
        fails.append(("C12.no_spurious_warning", "well-formed file warned: %s" % warns[:2]))
    return fails


# ----------------------------------------------------------------------------------------------
# rejected files
# ----------------------------------------------------------------------------------------------
BAD_KINDS = (
    "magic_NIST_1B", "magic_lower", "magic_riff", "magic_shifted", "magic_zero",
    "short_1023", "short_512", "short_7", "short_0", "short_header_only_1000",
    "hdrsize_512", "hdrsize_1023", "hdrsize_0", "hdrsize_8",
)


def bad_blob(case: dict) -> bytes:
    sub = case["bad"]
    good_case = dict(c=case["c"], n=case["n"], coding=case["coding"], hdr=1024, seed=case["seed"], extra=False)
    blob, _, _ = build_file(good_case)
    if sub == "magic_NIST_1B":
        return b"NIST_1B" + blob[7:]
    if sub == "magic_lower":
        return b"nist_1a" + blob[7:]
    if sub == "magic_riff":
        return b"RIFF\x00\x00\x00\x00WAVEfmt " + blob[16:]
    if sub == "magic_shifted":
        return b" " + blob  # NIST_1A not at offset 0
    if sub == "magic_zero":
        return b"\x00" * 7 + blob[7:]
    if sub.startswith("short_header_only"):
        return blob[:1000]
    if sub.startswith("short_"):
        return blob[: int(sub.split("_")[1])]
    if sub.startswith("hdrsize_"):
        declared = int(sub.split("_")[1])
        h = build_header(case["c"], case["n"], case["coding"], 1024, False, declared_hdr=declared)
        return h + blob[1024:]
    raise ValueError(sub)


def check_bad_header(case, tmpdir, util):
    blob = bad_blob(case)
    c = dict(case)
    try:
        out, _ = read(c, blob, tmpdir, util)
    except IOError:
        return []
    except Exception as e:  # noqa
        return [("C12.bad_header_ioerror", "%s raised %s (%s), expected IOError" % (case["bad"], type(e).__name__, e))]
    return [("C12.bad_header_ioerror", "%s returned an array of shape %s, expected IOError" % (case["bad"], getattr(out, "shape", None)))]


# ----------------------------------------------------------------------------------------------
# tables (exhaustive)
# ----------------------------------------------------------------------------------------------
def check_tables(case):
    from pydrobert.speech import _sphere

    fails = []
    for name, f in (("ULAW2PCM", g711_ulaw_expand), ("ALAW2PCM", g711_alaw_expand)):
        tab = np.asarray(getattr(_sphere, name))
        if tab.shape != (256,):
            fails.append(("C12.g711_table", "%s has shape %s" % (name, tab.shape)))
            continue
        for code in range(256):
            if int(tab[code]) != f(code):
                fails.append(("C12.g711_table", "%s[%d] = %d, G.711 gives %d" % (name, code, int(tab[code]), f(code))))
                break
    # self-check of the oracle against anchor values of the Recommendation (Tables 1a/2a G.711):
    # extreme and zero-crossing codes
    anchors = [(g711_ulaw_expand, 0x00, -32124), (g711_ulaw_expand, 0x80, 32124), (g711_ulaw_expand, 0xFF, 0),
               (g711_ulaw_expand, 0x7F, 0), (g711_ulaw_expand, 0xFE, 8), (g711_ulaw_expand, 0x7E, -8),
               (g711_alaw_expand, 0xD5, 8), (g711_alaw_expand, 0x55, -8), (g711_alaw_expand, 0xAA, 32256),
               (g711_alaw_expand, 0x2A, -32256)]
    for f, code, val in anchors:
        if f(code) != val:
            fails.append(("C12.g711_table", "oracle self-check: %s(0x%02x) = %d, expected %d" % (f.__name__, code, f(code), val)))
    return fails


# ----------------------------------------------------------------------------------------------
# enumeration
# ----------------------------------------------------------------------------------------------
def counts_for(c: int, w: int, ks, deltas=(-2, -1, 0, 1, 2)):
    """Sample counts around multiples of BLOCK/(c*w) (floor and ceil when it does not divide)."""
    out = []
    fb = c * w
    for k in ks:
        for base in sorted({(k * BLOCK) // fb, -((-k * BLOCK) // fb)}):
            for d in deltas:
                n = base + d
                if n >= 1 and n not in out:
                    out.append(n)
    return out


def enumerate_cases(tier: str, seed: int):
    """Generator of cases, most discriminating first."""
    quick = tier == "quick"
    yield dict(kind="table", seed=seed)
    # 1. all 256 codes through the reader, every dtype request
    for coding in ("ulaw", "alaw"):
        for c in (1, 2):
            for dtype in (None, "uint8", "int8", "int16", "int32", "float32", "float64"):
                for via in ("bytes", "path"):
                    yield dict(kind="codes256", c=c, n=256 // c, coding=coding, hdr=1024, seed=seed, via=via, dtype=dtype)
    # 1a. 8-bit files whose header has no sample_byte_format line (one-byte samples have no byte order; "8-bit mu-law / A-law ...
    # decodes to exactly the stored samples")
    for coding in ("ulaw", "alaw"):
        for c in (1, 2, 3):
            for hdr in (1024, 2048):
                for dtype in (None, "uint8"):
                    yield dict(kind="plain", c=c, n=(7, 300)[c % 2], coding=coding, hdr=hdr, seed=seed, via=("bytes", "path")[c % 2], dtype=dtype, no_sbf=True)
    # 1a'. data whose bytes at the start of a LATER 16 KiB read are the shorten magic (only the start of the data section decides
    # whether a file is shorten-compressed)
    for coding in CODINGS:
        for c in (1, 3, 2):
            w = sample_width(coding)
            per = max(1, BLOCK // (c * w)) * c * w  # bytes per read of copy_samples
            for mult in (1, 2):
                n = (mult * per) // (c * w) + 50
                yield dict(kind="plain", c=c, n=n, coding=coding, hdr=1024, seed=seed, via=("bytes", "path")[mult % 2], dtype=None, magic_at=mult * per)
    # 1b. headers whose field list (not just the padding) runs past byte 1024
    i = 0
    rng_l = _common.make_rng(seed, "c12long")
    for at in (-1, -2, 1, 2, "mid", "rand"):
        for cross in CROSS_LINES:
            for rot in range(6):
                for split in ((0, 3, 5) if cross != "end_head" else (5,)):
                    if quick and at == "rand" and (rot + split) % 2:
                        continue
                    for hdr in (2048, 3072):
                        i += 1
                        coding = CODINGS[(i // 2 + rot) % 4]
                        c = (1, 2, 3)[(i // 2 + split) % 3]
                        per = BLOCK // (c * sample_width(coding))
                        n = (7, 50, per + 1, 1)[(i // 2 + rot // 2) % 4]
                        # length of the crossing line for this (c, n, coding) decides what 'mid' / 'rand' mean
                        ln = {"filler": 33, "end_head": 9, "channel_count": 18 + len(str(c)), "sample_count": 17 + len(str(n)), "sample_rate": 20,
                              "sample_n_bytes": 19, "sample_byte_format": 25 if coding.startswith("pcm") else 24,
                              "sample_coding": 22 if coding.startswith("pcm") else 23}[cross]
                        a = at if isinstance(at, int) else (ln // 2 if at == "mid" else int(rng_l.integers(3, ln - 1)))
                        yield dict(kind="longhdr", c=c, n=n, coding=coding, hdr=hdr, seed=seed, via=("bytes", "path", "file")[i % 3], dtype=None,
                                   long=dict(cross=cross, at=a, rot=rot, split=split))
    # 2. channel counts that do not divide the block, counts around multiples of the block
    chans = [3, 5, 6, 7, 1, 2, 4, 8]
    ks_main = (1, 2, 3) if quick else (1, 2, 3, 4, 5)
    for pass_ in range(2):
        for c in chans:
            for coding in CODINGS:
                w = sample_width(coding)
                ns = counts_for(c, w, ks_main)
                small = [1, 2, 7]
                if pass_ == 0:
                    todo = [n for n in ns if n > BLOCK // (c * w)][:3] + small[:1]
                else:
                    first = [n for n in ns if n > BLOCK // (c * w)][:3]
                    todo = [n for n in ns + small if n not in first and n != small[0]]
                for i, n in enumerate(todo):
                    for hdr in (1024, 2048):
                        if pass_ == 0 and hdr == 2048 and i > 0:
                            continue
                        for via in ("bytes", "path", "file"):
                            if via == "file" and (quick or i % 3):
                                continue
                            if quick and pass_ == 1 and via == "path" and (i + c) % 2:
                                continue
                            yield dict(kind="plain", c=c, n=n, coding=coding, hdr=hdr, seed=seed, via=via,
                                       dtype=None, extra=bool((n + c) % 2))
    # 3. dtype requests on ordinary files
    for c in (1, 3, 2, 5):
        for coding in CODINGS:
            w = sample_width(coding)
            n = BLOCK // (c * w) + 3
            dts = ("int32", "float64", "float32") if w == 2 else ("uint8", "int8", "int16", "int32", "float64")
            for dtype in dts:
                for via in ("bytes", "path"):
                    yield dict(kind="dtype", c=c, n=n, coding=coding, hdr=1024, seed=seed, via=via, dtype=dtype)
    # 4. truncation
    for c in chans:
        for coding in CODINGS:
            w = sample_width(coding)
            fb = c * w
            per = BLOCK // fb
            for n in (7, per + 2, 2 * per + 1) if quick else (1, 7, per - 1, per, per + 2, 2 * per + 1, 3 * per):
                cuts = []
                for fr in (1, 2, 3):
                    if fr <= n:
                        cuts.append(fr * fb)
                if fb > 1:
                    cuts += [1, fb - 1, fb + 1, 2 * fb + fb // 2]
                cuts += [n * fb, n * fb - 1 if n * fb > 1 else 0]  # nothing / one byte left
                if n > per:
                    cuts += [n * fb - per * fb, n * fb - per * fb + 1, n * fb - BLOCK, (n - per) * fb + fb // 2 + (0 if fb > 1 else 1)]
                seen = set()
                for cut in cuts:
                    if cut <= 0 or cut > n * fb or cut in seen:
                        continue
                    seen.add(cut)
                    vias = ("bytes", "path") if (cut // fb) % 2 else ("bytes",)
                    if not quick:
                        vias = ("bytes", "path", "file")
                    for via in vias:
                        dts = (None,) if coding.startswith("pcm") else ((None, "uint8") if not quick else ((None,) if cut % 2 else ("uint8",)))
                        for dtype in dts:
                            yield dict(kind="trunc", c=c, n=n, coding=coding, hdr=1024 if (cut + c) % 3 else 2048, seed=seed,
                                       via=via, dtype=dtype, cut_bytes=cut)
    # 5. rejected headers
    for bad in BAD_KINDS:
        for via in ("bytes", "path", "file"):
            for coding, c in (("pcm01", 1), ("ulaw", 2)):
                yield dict(kind="bad_header", bad=bad, c=c, n=50, coding=coding, seed=seed, via=via)
    # 6. random cases
    rng = _common.make_rng(seed, "c12random")
    n_rand = 600 if quick else 4000
    for i in range(n_rand):
        c = int(rng.integers(1, 9))
        coding = CODINGS[int(rng.integers(0, 4))]
        w = sample_width(coding)
        per = BLOCK // (c * w)
        n = int(rng.integers(1, 4 * per + 1)) if rng.random() < 0.5 else max(1, int(rng.integers(1, 5)) * per + int(rng.integers(-2, 3)))
        case = dict(kind="random", c=c, n=n, coding=coding, hdr=int(rng.choice([1024, 2048])), seed=int(rng.integers(0, 2 ** 31)),
                    via=str(rng.choice(["bytes", "path", "file"])), dtype=None, extra=bool(rng.integers(0, 2)))
        if rng.random() < 0.4:
            case["cut_bytes"] = int(rng.integers(1, n * c * w + 1))
        if not coding.startswith("pcm") and rng.random() < 0.3:
            case["dtype"] = str(rng.choice(["uint8", "int8", "int32", "float32"]))
        yield case


def nontrivial(case) -> bool:
    if case.get("kind") in ("table", "bad_header"):
        return True
    # a decoding case is non-trivial when at least one whole frame is present in the file
    c, w = case["c"], sample_width(case["coding"])
    return (case["n"] * c * w - case.get("cut_bytes", 0)) // (c * w) >= 1


def run(tier: str, seed: int) -> dict:
    _common.use_repo()
    from pydrobert.speech import util

    col = _common.Collector(PROPERTY, tier, seed, budget_s=45 if tier == "quick" else 540)
    tmpdir = tempfile.mkdtemp(prefix="c12_")
    stats = {}
    crossing = 0
    try:
        for case in enumerate_cases(tier, seed):
            if col.out_of_time() or col.too_many_failures():
                col.note("stopped early: " + ("time budget" if col.out_of_time() else "failure cap"))
                break
            fails = check_case(case, tmpdir, util)
            nt = nontrivial(case)
            col.case(case, nontrivial=nt, sample=case if stats.get(case["kind"], 0) == 0 else None)
            stats[case["kind"]] = stats.get(case["kind"], 0) + 1
            if "c" in case and case.get("kind") != "bad_header":
                fb = case["c"] * sample_width(case["coding"])
                if case["n"] * fb > BLOCK and BLOCK % fb:
                    crossing += 1
            for clause, msg in fails:
                col.fail(clause, case, msg)
    finally:
        shutil.rmtree(tmpdir, ignore_errors=True)
    col.note("cases per kind: %s; %d decoded files span more than one 16 KiB read with a frame size not dividing 16384" % (stats, crossing))
    col.note("G.711: both tables compared with the ITU-T expansion algorithm on ALL 256 codes (exhaustive), "
             "and all 256 codes of each law decoded through the reader for mono and stereo and 7 dtype requests")
    col.note("longhdr: %d files whose field list reaches or passes byte 1024 (end_head in the 2nd block for header 2048, 3rd block for 3072, or itself straddling / ending on the block boundary); each of channel_count, sample_count, "
             "sample_rate, sample_n_bytes, sample_byte_format, sample_coding occurs before, across and after byte 1024" % stats.get("longhdr", 0))
    col.note("sample_count 0 is not enumerated: the reader treats a zero mandatory field as missing and raises IOError "
             "(n >= 1 throughout); pcm wider than 16 bit and files with trailing extra bytes are outside the statement")
    return col.result(
        rule="one case = one synthetic SPHERE file (built here from c, n, coding, byte order, header size, cut) read by one access "
             "path with one dtype request; non-trivial when at least one whole frame is present (all table/bad-header cases count)",
        bound="c in 1..8; n in {1,2,7} and k*16384/(c*w)+-2 for k<=%s plus seeded random n <= 4 blocks; pcm16 LE/BE, ulaw, alaw; "
              "header 1024/2048 padded, 2048/3072 with the field list past byte 1024 (8 crossing lines x 6 offsets incl. newline on byte 1023/1024 x "
              "18 placements of the needed fields before/after byte 1024); cuts of 1..3 frames, mid-frame, at block boundaries, whole data section; 3 access paths; "
              "14 malformed-header kinds; G.711 tables exhaustive (256 codes x 2)" % ("3" if tier == "quick" else "5"),
        assumptions=["A-IO-STREAM", "A-NP-CAT", "A-NP-SLICE"],
    )


def replay(case: dict):
    _common.use_repo()
    from pydrobert.speech import util

    tmpdir = tempfile.mkdtemp(prefix="c12r_")
    try:
        case = dict(case)
        case.setdefault("via", "bytes")
        case.setdefault("hdr", 1024)
        case.setdefault("seed", 0)
        case.setdefault("coding", "pcm01")
        fails = check_case(case, tmpdir, util)
    finally:
        shutil.rmtree(tmpdir, ignore_errors=True)
    if fails:
        return False, "; ".join("%s: %s" % f for f in fails)
    return True, "C12 holds on %s" % (case,)


if __name__ == "__main__":
    from rtc import _common
    import sys

    _common.main(sys.modules[__name__])

"""Bounded stand-in for C08: alias / JSON configuration builds the same objects as explicit construction.

Parts (every case dict carries `part`)
  registry  EXHAUSTIVE. The class table (bases, definition order, `aliases` literals, required constructor parameters)
            is read from the SOURCE with `ast`; the real `Family.from_alias` is called for every (family, alias) pair
            where family ranges over every class of the table (abstract roots, intermediate and concrete classes)
            and alias over every alias of the whole registry plus unknown strings.
              C08.registry_resolves     result is an instance of exactly the expected class (the matching
                                        descendant-or-self defined last)
              C08.registry_unknown      alias not carried by a descendant-or-self -> ValueError
              C08.registry_source_matches_runtime   the AST table is the registry that runs (same classes, same aliases)
  arg       alias_factory_subclass_from_arg
              C08.arg_instance          an instance is returned as the same object
              C08.arg_str               str == the class built with default arguments (same state or same exception type)
              C08.arg_mapping           {'alias': a, **kw} and {'name': a, **kw} == Class(**kw)
              C08.arg_alias_precedence  with both keys 'alias' selects the class and 'name' is passed on as a keyword
              C08.arg_unmodified        the mapping (dict, OrderedDict, MappingProxyType, guarded Mapping, nested) is
                                        never modified, also when construction fails
  shadow    throw-away class trees under a private root
              C08.shadow_last_registered  real result == matching descendant-or-self CREATED LAST (statement/docstring
                                          read literally); cases carry `divergent` (does that differ from DESIGN's DFS order)
              C08.shadow_dfs_order        (part 'shadow_dfs') real result == first match in
                                          O(c) = concat(O(k) for k in reversed(c.__subclasses__())) ++ [c]
              C08.shadow_unknown          no match -> ValueError
  nested    seeded nested configs (scale in bank in computer, with window) -> json.dumps/loads and ruamel YAML load
              C08.nested_bit_identical  features of the alias-built computer == features of the explicit twin, bit for bit
              C08.nested_unmodified     the configuration tree is unchanged by building
              C08.assume_A-JSON         json / YAML round trip returns an equal tree (assumption conformance)
"""
import ast
import collections
import collections.abc
import copy
import gc
import json
import os
import types
import warnings

import numpy as np

from rtc import _common

PROPERTY = "C08"
ASSUMPTIONS = ["A-JSON", "A-DET", "A-PYSEM"]
MODULES = ("alias", "scales", "filters", "compute", "pre", "post", "__init__")
# values for constructor parameters that have no default (by parameter name)
REQUIRED = {"low_hz": 20.0, "scaling_function": "mel", "bank": "fbank", "num_deltas": 1, "num_vectors": 2}
UNKNOWN = ("", "no-such-alias", " mel", "MEL", "Hann", "stft ", "alias", "name")


# =========================================================================== registry by AST
def _read_registry():
    """{(module, class): {bases:[(module, class)], aliases:set|None, lineno, required:[...]|None}} from the source."""
    pkg = os.path.join(_common.repo_path(), "src", "pydrobert", "speech")
    table = {}
    for mod in MODULES:
        path = os.path.join(pkg, mod + ".py")
        if not os.path.exists(path):
            continue
        tree = ast.parse(open(path).read())
        imported = {}  # local name -> (module, name)
        for node in tree.body:
            if isinstance(node, ast.ImportFrom) and node.module:
                src = node.module.split(".")[-1]
                for a in node.names:
                    imported[a.asname or a.name] = (src, a.name)
        for node in tree.body:
            if not isinstance(node, ast.ClassDef):
                continue
            bases = []
            for b in node.bases:
                if isinstance(b, ast.Name):
                    bases.append(imported.get(b.id, (mod, b.id)))
                elif isinstance(b, ast.Attribute):
                    bases.append((getattr(b.value, "attr", getattr(b.value, "id", "?")), b.attr))
            aliases, required = None, None
            for st in node.body:
                tgt, val = None, None
                if isinstance(st, ast.Assign) and len(st.targets) == 1 and isinstance(st.targets[0], ast.Name):
                    tgt, val = st.targets[0].id, st.value
                elif isinstance(st, ast.AnnAssign) and isinstance(st.target, ast.Name) and st.value is not None:
                    tgt, val = st.target.id, st.value
                if tgt == "aliases":
                    if isinstance(val, ast.Call) and getattr(val.func, "id", "") in ("set", "frozenset", "tuple", "list") and not val.args:
                        aliases = set()
                    else:
                        try:
                            lit = ast.literal_eval(val)
                        except (ValueError, SyntaxError):
                            raise RuntimeError(f"{mod}.{node.name}: cannot read aliases literal")
                        # the aliases of a class are the ELEMENTS of its `aliases` collection (a bare string has its
                        # characters as elements; `x in "hamming"` would be a substring test, which is not membership)
                        aliases = set(lit) if not isinstance(lit, str) else set(lit)
                if isinstance(st, ast.FunctionDef) and st.name == "__init__":
                    a = st.args
                    pos = [x.arg for x in a.posonlyargs + a.args][1:]
                    ndef = len(a.defaults)
                    required = pos[: len(pos) - ndef] if ndef else pos
                    required += [x.arg for x, d in zip(a.kwonlyargs, a.kw_defaults) if d is None]
            table[(mod, node.name)] = {"bases": bases, "aliases": aliases, "lineno": node.lineno, "required": required}
    return table


def _registry_view(table):
    """Restrict to descendants of alias.AliasedFactory and derive children (definition order), effective aliases,
    required parameters (inherited __init__)."""
    root = ("alias", "AliasedFactory")
    if root not in table:
        raise RuntimeError("AliasedFactory not found in the source")

    def is_desc(k, seen=()):
        if k == root:
            return True
        if k not in table or k in seen:
            return False
        return any(is_desc(b, seen + (k,)) for b in table[k]["bases"])

    classes = [k for k in table if is_desc(k)]
    mod_rank = {m: i for i, m in enumerate(MODULES)}
    children = {k: [] for k in classes}
    for k in classes:
        for b in table[k]["bases"]:
            if b in children:
                children[b].append(k)
    notes = []
    for k, ch in children.items():
        if k != root and len({c[0] for c in ch}) > 1:
            notes.append(f"children of {k} live in several modules; their registration order depends on import order (assumed {MODULES})")
        ch.sort(key=lambda c: (mod_rank[c[0]], table[c]["lineno"]))

    def eff_aliases(k):
        if table[k]["aliases"] is not None:
            return table[k]["aliases"]
        for b in table[k]["bases"]:
            if b in table:
                return eff_aliases(b)
        return set()

    def eff_required(k):
        if table[k]["required"] is not None:
            return table[k]["required"]
        for b in table[k]["bases"]:
            if b in table:
                return eff_required(b)
        return []

    return root, classes, children, eff_aliases, eff_required, notes


def _descendants_in_creation_order(k, children, table):
    """self + all descendants, by definition order (module rank, line) - creation order inside one module."""
    out, stack = [], [k]
    while stack:
        c = stack.pop()
        out.append(c)
        stack.extend(children[c])
    mod_rank = {m: i for i, m in enumerate(MODULES)}
    return sorted(set(out), key=lambda c: (mod_rank[c[0]], table[c]["lineno"]))


def _real_class(key):
    import importlib

    mod = importlib.import_module("pydrobert.speech" if key[0] == "__init__" else "pydrobert.speech." + key[0])
    return getattr(mod, key[1])


def _state(obj, depth=0):
    """Canonical, comparable state of a built object (A-DET: equal arguments -> equal state)."""
    if depth > 6:
        return "..."
    if isinstance(obj, np.ndarray):
        return ("nd", str(obj.dtype), obj.shape, obj.tobytes())
    if isinstance(obj, (np.generic,)):
        return ("np", str(obj.dtype), obj.tobytes())
    if isinstance(obj, (str, bytes, int, float, bool, complex, type(None))):
        return (type(obj).__name__, repr(obj))
    if isinstance(obj, (list, tuple)):
        return (type(obj).__name__, tuple(_state(v, depth + 1) for v in obj))
    if isinstance(obj, (set, frozenset)):
        return ("set", tuple(sorted(repr(_state(v, depth + 1)) for v in obj)))
    if isinstance(obj, dict):
        return ("dict", tuple(sorted((repr(k), _state(v, depth + 1)) for k, v in obj.items())))
    if hasattr(obj, "compute_full") and hasattr(obj, "sampling_rate"):
        # frame computers hold uninitialised scratch buffers (np.empty): compare by behaviour instead
        sig = _common.make_rng(0, "c08-state-signal").standard_normal(int(0.08 * obj.sampling_rate))
        return (type(obj).__module__ + "." + type(obj).__qualname__, _state(obj.compute_full(sig), depth + 1), obj.num_coeffs, obj.frame_shift)
    if isinstance(obj, type) or callable(obj) and not hasattr(obj, "__dict__"):
        return ("callable", getattr(obj, "__qualname__", repr(obj)))
    if hasattr(obj, "__dict__"):
        return (type(obj).__module__ + "." + type(obj).__qualname__, _state(vars(obj), depth + 1))
    return ("repr", repr(obj))


def _outcome(fn):
    """('ok', type, state) or ('raise', exception type name)"""
    try:
        with warnings.catch_warnings():
            warnings.simplefilter("ignore")
            obj = fn()
    except Exception as e:  # noqa
        return ("raise", type(e).__name__, str(e)[:120])
    return ("ok", type(obj), _state(obj))


def _same_outcome(a, b):
    if a[0] != b[0]:
        return False
    if a[0] == "raise":
        return a[1] == b[1]
    return a[1] is b[1] and a[2] == b[2]


def _registry_context():
    table = _read_registry()
    root, classes, children, eff_aliases, eff_required, notes = _registry_view(table)
    all_aliases = sorted({a for k in classes for a in eff_aliases(k)})
    return table, root, classes, children, eff_aliases, eff_required, notes, all_aliases


def _check_registry_case(case, ctx=None):
    """case: {'part':'registry','family':[mod,name],'alias':str}"""
    table, root, classes, children, eff_aliases, eff_required, _, _ = ctx or _registry_context()
    fam = tuple(case["family"])
    alias = case["alias"]
    fails = []
    if fam not in children:
        return [("C08.registry_source_matches_runtime", f"{fam} is not a class of the source registry")], False
    cands = [k for k in _descendants_in_creation_order(fam, children, table) if alias in eff_aliases(k)]
    expected = cands[-1] if cands else None
    Fam = _real_class(fam)
    kwargs = {}
    if expected is not None:
        for p in eff_required(expected):
            if p not in REQUIRED:
                return [("C08.registry_resolves", f"stand-in has no value for required parameter {p!r} of {expected}")], False
            kwargs[p] = REQUIRED[p]
    try:
        with warnings.catch_warnings():
            warnings.simplefilter("ignore")
            obj = Fam.from_alias(alias, **kwargs)
    except ValueError as e:
        if expected is not None:
            fails.append(("C08.registry_resolves", f"{fam[1]}.from_alias({alias!r}) raised ValueError ({e}); expected {expected[1]}"))
        return fails, expected is not None
    except Exception as e:  # noqa
        fails.append(("C08.registry_resolves" if expected else "C08.registry_unknown", f"{fam[1]}.from_alias({alias!r}) raised {type(e).__name__}: {e}"))
        return fails, expected is not None
    if expected is None:
        fails.append(("C08.registry_unknown", f"{fam[1]}.from_alias({alias!r}) built a {type(obj).__name__} instead of raising ValueError"))
    elif type(obj) is not _real_class(expected):
        fails.append(("C08.registry_resolves", f"{fam[1]}.from_alias({alias!r}) built {type(obj).__module__}.{type(obj).__name__}, expected {expected[1]}"))
    return fails, expected is not None


def _run_registry(col):
    ctx = _registry_context()
    table, root, classes, children, eff_aliases, eff_required, notes, all_aliases = ctx
    for n in notes:
        col.note(n)
    # the AST table describes the registry that actually runs
    from pydrobert.speech.alias import AliasedFactory
    import pydrobert.speech  # noqa  (the deprecated shim class lives here)

    for m in MODULES:
        if m not in ("alias", "__init__"):
            __import__("pydrobert.speech." + m)
    seen, stack = set(), [AliasedFactory]
    while stack:
        c = stack.pop()
        if c in seen:
            continue
        seen.add(c)
        stack.extend(c.__subclasses__())
    runtime = {}
    for c in seen:
        if c.__module__.startswith("pydrobert.speech"):
            mod = c.__module__.split(".")[-1]
            mod = "__init__" if mod == "speech" else mod
            if mod == "torch":
                continue
            runtime[(mod, c.__name__)] = c
    case0 = {"part": "registry", "family": list(root), "alias": "*table*"}
    col.case(case0, nontrivial=True)
    if set(runtime) != set(classes):
        col.fail("C08.registry_source_matches_runtime", case0, f"classes differ: source-only {sorted(set(classes) - set(runtime))}, runtime-only {sorted(set(runtime) - set(classes))}")
    for k in classes:
        if k in runtime and set(runtime[k].aliases) != set(eff_aliases(k)):
            col.fail("C08.registry_source_matches_runtime", case0, f"{k}: runtime aliases {sorted(runtime[k].aliases)} != source {sorted(eff_aliases(k))}")
        if k in runtime and k != root:  # the order of the families under the root is import order, not used
            got = [(c.__module__.split(".")[-1].replace("speech", "__init__"), c.__name__) for c in runtime[k].__subclasses__() if c.__module__.startswith("pydrobert.speech") and not c.__module__.endswith(".torch")]
            if got != children[k]:
                col.fail("C08.registry_source_matches_runtime", case0, f"{k}: runtime subclass order {got} != source definition order {children[k]}")
    # torch.py may define further subclasses: say so
    extra = [c for c in seen if c.__module__.endswith(".torch")]
    if extra:
        col.note(f"pydrobert.speech.torch was imported and registers {[c.__name__ for c in extra]}")
    pairs = resolved = 0
    families = [k for k in classes if k != root]
    shared = collections.Counter(a for k in classes for a in eff_aliases(k))
    for fam in families:
        derived = sorted({d for a in all_aliases if isinstance(a, str) for d in (a[:-1], a[1:], a[:1], a + a, a.upper()) if d not in all_aliases})
        for alias in list(all_aliases) + list(UNKNOWN) + derived:
            case = {"part": "registry", "family": list(fam), "alias": alias}
            fails, nontrivial = _check_registry_case(case, ctx)
            pairs += 1
            resolved += bool(nontrivial)
            col.case(case, nontrivial=True, sample=case if (nontrivial and alias in ("tri", "cmvn")) else None)
            for clause, msg in fails:
                col.fail(clause, case, msg)
    abstract = [k for k in families if root in table[k]["bases"]]
    col.note(
        f"registry: EXHAUSTIVE over {len(families)} classes ({len(abstract)} abstract families) x ({len(all_aliases)} registered aliases + {len(UNKNOWN)} unknown strings + prefixes/suffixes/first letters/doublings/upper-case of every alias) = {pairs} from_alias calls, "
        f"{resolved} of which must resolve; aliases carried by more than one class: {sorted(a for a, c in shared.items() if c > 1)}"
    )
    return ctx


# =========================================================================== alias_factory_subclass_from_arg
class _Guarded(collections.abc.Mapping):
    """A Mapping that is not a dict and records any attempt to change it."""

    def __init__(self, d):
        self._d = dict(d)
        self.touched = []

    def __getitem__(self, k):
        return self._d[k]

    def __iter__(self):
        return iter(self._d)

    def __len__(self):
        return len(self._d)

    def __setitem__(self, k, v):
        self.touched.append(("set", k))

    def __delitem__(self, k):
        self.touched.append(("del", k))

    def pop(self, k, *a):
        self.touched.append(("pop", k))
        return self._d.get(k)

    def popitem(self):
        self.touched.append(("popitem",))

    def clear(self):
        self.touched.append(("clear",))

    def update(self, *a, **k):
        self.touched.append(("update",))

    def setdefault(self, k, v=None):
        self.touched.append(("setdefault", k))


EXTRA_KW = {
    # a non-default keyword per class, so that "the rest are keyword arguments" is observable
    "LinearScaling": {"low_hz": 3.0, "slope_hz": 2.5},
    "OctaveScaling": {"low_hz": 33.0},
    "MelScaling": {},
    "BarkScaling": {},
    "TriangularOverlappingFilterBank": {"scaling_function": {"name": "bark"}, "num_filts": 5, "low_hz": 100.0, "analytic": True},
    "Fbank": {"num_filts": 6, "sampling_rate": 8000},
    "GaborFilterBank": {"scaling_function": "mel", "num_filts": 4, "erb": True},
    "ComplexGammatoneFilterBank": {"scaling_function": {"alias": "linear", "low_hz": 0.0}, "num_filts": 3, "order": 2},
    "BartlettWindow": {},
    "BlackmanWindow": {},
    "HammingWindow": {},
    "HannWindow": {},
    "GammaWindow": {"order": 2, "peak": 0.5},
    "ShortTimeFourierTransformFrameComputer": {"bank": {"alias": "fbank", "num_filts": 4}, "frame_length_ms": 20, "use_power": True, "window_function": {"name": "gamma", "order": 3}},
    "ShortIntegrationFrameComputer": {"bank": {"name": "gabor", "scaling_function": "mel", "num_filts": 3}, "frame_shift_ms": 5, "window_function": "hamming"},
    "Dither": {"coeff": 0.25},
    "Preemphasize": {"coeff": 0.5},
    "Standardize": {"norm_var": False},
    "Deltas": {"num_deltas": 2, "context_window": 3, "pad_mode": "constant"},
    "Stack": {"num_vectors": 3, "time_axis": 1, "pad_mode": "edge"},
}


def _check_arg_case(case, ctx=None):
    """case: {'part':'arg','family':[m,n],'cls':[m,n],'alias':a,'form': ...}"""
    from pydrobert.speech.alias import alias_factory_subclass_from_arg as afs

    table, root, classes, children, eff_aliases, eff_required, _, _ = ctx or _registry_context()
    fam, key, alias, form = tuple(case["family"]), tuple(case["cls"]), case["alias"], case["form"]
    Fam, Cls = _real_class(fam), _real_class(key)
    kw = copy.deepcopy(EXTRA_KW.get(key[1]))
    if kw is None:
        kw = {p: REQUIRED[p] for p in eff_required(key) if p in REQUIRED}
    fails = []
    if form == "instance":
        with warnings.catch_warnings():
            warnings.simplefilter("ignore")
            inst = Cls(**copy.deepcopy(kw))
        for F in (Fam, Cls):
            got = afs(F, inst)
            if got is not inst:
                fails.append(("C08.arg_instance", f"instance of {key[1]} not returned unchanged for factory {F.__name__}"))
        return fails
    if form == "str":
        a = _outcome(lambda: afs(Fam, alias))
        b = _outcome(lambda: Cls())
        if not _same_outcome(a, b):
            fails.append(("C08.arg_str", f"str {alias!r} for {fam[1]}: {a[:2]} but {key[1]}(): {b[:2]}"))
        return fails
    wrappers = {
        "dict": lambda d: d,
        "ordered": lambda d: collections.OrderedDict(d),
        "proxy": lambda d: types.MappingProxyType(d),
        "guarded": lambda d: _Guarded(d),
    }
    wrap = wrappers[case.get("container", "dict")]
    if form == "alias":
        base = dict({"alias": alias}, **kw)
    elif form == "name":
        base = dict(kw, name=alias)
    elif form == "both":
        # 'alias' must win: give 'name' a string that is NOT this class (another alias of the family, or junk)
        base = dict({"name": case.get("other", "no-such-alias")}, **kw)
        base["alias"] = alias
    elif form == "fail":
        base = dict({"alias": alias, "definitely_not_a_parameter": 1}, **kw)
    else:
        raise ValueError(form)
    pristine = copy.deepcopy(base)
    arg = wrap(base)
    a = _outcome(lambda: afs(Fam, arg))
    if form in ("alias", "name"):
        b = _outcome(lambda: Cls(**copy.deepcopy(kw)))
        if not _same_outcome(a, b):
            fails.append(("C08.arg_mapping", f"{form} mapping {pristine} for {fam[1]}: {a[:2]} but {key[1]}(**kw): {b[:2]}"))
    elif form == "both":
        b = _outcome(lambda: Cls(name=pristine["name"], **copy.deepcopy(kw)))
        if not _same_outcome(a, b):
            fails.append(("C08.arg_alias_precedence", f"both keys {pristine} for {fam[1]}: {a[:2]} but {key[1]}(name=..., **kw): {b[:2]}"))
    elif form == "fail":
        if a[0] != "raise" and key[1] not in ("Deltas", "Stack"):
            fails.append(("C08.arg_mapping", f"unknown keyword accepted by {key[1]}"))
    if base != pristine or list(base) != list(pristine):
        fails.append(("C08.arg_unmodified", f"mapping changed: {base} was {pristine}"))
    if isinstance(arg, _Guarded) and arg.touched:
        fails.append(("C08.arg_unmodified", f"mutating methods called on the mapping: {arg.touched}"))
    if a[0] == "raise" and "mappingproxy" in a[2]:
        fails.append(("C08.arg_unmodified", f"tried to modify a MappingProxyType: {a[2]}"))
    case["_outcome"] = a[:2] if a[0] == "raise" else ("ok", a[1].__name__)
    return fails


def _check_precedence_private():
    """'alias' beats 'name' and 'name' is then an ordinary keyword: observed on private classes that record kwargs."""
    from pydrobert.speech.alias import AliasedFactory, alias_factory_subclass_from_arg as afs

    fails = []

    class _R(AliasedFactory):
        aliases = set()

        def __init__(self, **kw):
            self.kw = kw

    class _P(_R):
        aliases = {"p"}

    class _Q(_R):
        aliases = {"q"}

    try:
        for arg, cls, kw in (
            ({"alias": "p", "name": "q", "k": 1}, _P, {"name": "q", "k": 1}),
            ({"name": "q", "alias": "p", "k": 1}, _P, {"name": "q", "k": 1}),
            ({"name": "q", "k": 1}, _Q, {"k": 1}),
            ({"alias": "q"}, _Q, {}),
            ({"alias": "p", "name": "p"}, _P, {"name": "p"}),
        ):
            before = copy.deepcopy(arg)
            for wrap in (dict, types.MappingProxyType, collections.OrderedDict, _Guarded):
                wrapped = wrap(arg)
                try:
                    got = afs(_R, wrapped)
                except Exception as e:  # noqa
                    clause = "C08.arg_unmodified" if ("mappingproxy" in str(e) or "pop" in str(e)) else "C08.arg_alias_precedence"
                    fails.append((clause, f"{wrap.__name__} {before}: raised {type(e).__name__}: {e}; expected {cls.__name__}(**{kw})"))
                    continue
                if type(got) is not cls or got.kw != kw:
                    fails.append(("C08.arg_alias_precedence", f"{arg}: built {type(got).__name__}(**{got.kw}), expected {cls.__name__}(**{kw})"))
                if arg != before:
                    fails.append(("C08.arg_unmodified", f"{before} became {arg}"))
                if isinstance(wrapped, _Guarded) and wrapped.touched:
                    fails.append(("C08.arg_unmodified", f"mutating methods called on the mapping: {wrapped.touched}"))
        try:
            inst = _Q(z=1)
            if afs(_R, inst) is not inst or afs(_Q, inst) is not inst:
                fails.append(("C08.arg_instance", "private instance not returned as is"))
            got = afs(_R, "p")
            if type(got) is not _P or got.kw != {}:
                fails.append(("C08.arg_str", "str did not build the class with no arguments"))
        except Exception as e:  # noqa
            fails.append(("C08.arg_str", f"instance / str form raised {type(e).__name__}: {e}"))
    finally:
        del _P, _Q, _R
        gc.collect()
    return fails


def _run_arg(col, ctx):
    table, root, classes, children, eff_aliases, eff_required, _, _ = ctx
    case = {"part": "arg", "form": "private-precedence"}
    col.case(case, nontrivial=True)
    for clause, msg in _check_precedence_private():
        col.fail(clause, case, msg)
    both_outcomes = {}
    for key in classes:
        own = sorted(table[key]["aliases"] or ())
        if not own:
            continue
        # abstract family = top-most ancestor below AliasedFactory
        fam = key
        while root not in table[fam]["bases"]:
            fam = [b for b in table[fam]["bases"] if b in children][0]
        fam_aliases = sorted({a for k in _descendants_in_creation_order(fam, children, table) for a in eff_aliases(k)} - set(own))
        for alias in own:
            # only aliases that resolve to this class from the family (a shadowed alias belongs to the other class)
            cands = [k for k in _descendants_in_creation_order(fam, children, table) if alias in eff_aliases(k)]
            if cands[-1] != key:
                continue
            forms = [("instance", "dict"), ("str", "dict")]
            for form in ("alias", "name", "both", "fail"):
                for container in ("dict", "ordered", "proxy", "guarded"):
                    forms.append((form, container))
            for form, container in forms:
                case = {"part": "arg", "family": list(fam), "cls": list(key), "alias": alias, "form": form, "container": container}
                if form == "both":
                    case["other"] = fam_aliases[0] if fam_aliases else "no-such-alias"
                try:
                    fails = _check_arg_case(case, ctx)
                except Exception as e:  # noqa
                    fails = [("C08.arg_mapping", f"stand-in could not run the case: {type(e).__name__}: {e}")]
                out = case.pop("_outcome", None)
                if form == "both" and out is not None:
                    both_outcomes.setdefault(str(out), set()).add(key[1])
                col.case(case, nontrivial=True, sample=case if (form == "both" and container == "proxy" and alias == "stft") else None)
                for clause, msg in fails:
                    col.fail(clause, case, msg)
    col.note("mapping with BOTH 'alias' and 'name' (alias selects the class, 'name' is passed to its constructor): " + "; ".join(f"{k}: {sorted(v)}" for k, v in sorted(both_outcomes.items())))


# =========================================================================== shadowing on throw-away trees
INHERIT = "inherit"


def _build_tree(parents, root_base):
    """Create len(parents) classes in order; parents[i] < i is the index of node i's base (-1: the private root's base)."""
    nodes = []
    for i, p in enumerate(parents):
        base = root_base if p < 0 else nodes[p]
        # names deliberately out of step with the creation order
        nodes.append(type(f"_C08Node{(3, 0, 5, 1, 4, 2, 7, 6)[i % 8]}_{i}", (base,), {"__module__": "rtc._c08_throwaway", "__init__": lambda self, *a, **k: None}))
    return nodes


def _set_aliases(nodes, aliases):
    for c, al in zip(nodes, aliases):
        if al == INHERIT:
            if "aliases" in c.__dict__:
                delattr(c, "aliases")
        else:
            setattr(c, "aliases", set(al))


def _effective(parents, aliases):
    eff = []
    for i, al in enumerate(aliases):
        if al == INHERIT:
            eff.append(eff[parents[i]] if parents[i] >= 0 else frozenset())
        else:
            eff.append(frozenset(al))
    return eff


def _kids(parents):
    kids = [[] for _ in parents]
    for i, p in enumerate(parents):
        if p >= 0:
            kids[p].append(i)  # creation order == __subclasses__ order
    return kids


def _oracle_doc(parents, eff, kids, c, alias):
    """Statement / docstring read literally: among c and its descendants, the matching class registered last."""

    def desc(i):
        out = [i]
        for k in kids[i]:
            out.extend(desc(k))
        return out

    m = [i for i in desc(c) if alias in eff[i]]
    return max(m) if m else None  # index == creation time


def _oracle_dfs(parents, eff, kids, c, alias):
    """DESIGN's O(c) = concat(O(k) for k in reversed(subclasses(c))) ++ [c]; first match."""

    def order(i):
        out = []
        for k in reversed(kids[i]):
            out.extend(order(k))
        out.append(i)
        return out

    for i in order(c):
        if alias in eff[i]:
            return i
    return None


def _query(nodes, c, alias):
    try:
        obj = nodes[c].from_alias(alias)
    except ValueError:
        return None
    except Exception as e:  # noqa
        return f"{type(e).__name__}: {e}"
    for i, n in enumerate(nodes):
        if type(obj) is n:
            return i
    return f"foreign class {type(obj).__name__}"


def _check_shadow_tree(nodes, parents, aliases, letters, queries=None, want_part=None):
    """Returns (failures [(clause, case, msg)], number of queries, any_divergent, nontrivial)."""
    eff = _effective(parents, aliases)
    kids = _kids(parents)
    _set_aliases(nodes, aliases)
    fails = []
    nq = 0
    anydiv = False
    shadowing = False
    if queries is None:
        queries = [(c, a) for c in range(len(parents)) for a in letters]
    for c, a in queries:
        doc = _oracle_doc(parents, eff, kids, c, a)
        dfs = _oracle_dfs(parents, eff, kids, c, a)
        got = _query(nodes, c, a)
        nq += 1
        div = doc != dfs
        anydiv |= div
        shadowing |= sum(1 for e in eff if a in e) > 1
        base = {"parents": list(parents), "aliases": [sorted(x) if x != INHERIT else INHERIT for x in aliases], "cls": c, "alias": a, "divergent": bool(div)}
        if doc is None:
            if got is not None and want_part in (None, "shadow"):
                fails.append(("C08.shadow_unknown", dict(base, part="shadow"), f"no class carries {a!r} below node {c} but from_alias built node {got}"))
            continue
        if got != doc and want_part in (None, "shadow"):
            fails.append(("C08.shadow_last_registered", dict(base, part="shadow"), f"node {c}.from_alias({a!r}) built node {got}; the matching class registered last is node {doc} (DFS order gives {dfs})"))
        if got != dfs and want_part in (None, "shadow_dfs"):
            fails.append(("C08.shadow_dfs_order", dict(base, part="shadow_dfs"), f"node {c}.from_alias({a!r}) built node {got}; DFS order O gives node {dfs}"))
    return fails, nq, anydiv, shadowing


def _all_parent_vectors(n):
    """All creation-ordered rooted trees with n nodes: parents[0] = -1, parents[i] in 0..i-1."""
    out = [[-1]]
    for i in range(1, n):
        out = [p + [j] for p in out for j in range(i)]
    return out


def _alias_options(letters, with_inherit):
    opts = [(), (letters[0],), (letters[1],), (letters[0], letters[1])]
    return opts + [INHERIT] if with_inherit else opts


def _run_shadow(col, tier, seed, budget_s):
    import itertools
    import time
    from pydrobert.speech.alias import AliasedFactory

    letters = ("a", "b")
    qletters = ("a", "b", "zz")
    t_end = time.time() + budget_s
    rng = _common.make_rng(seed, "c08-shadow")
    root_base = type("_C08Root", (AliasedFactory,), {"__module__": "rtc._c08_throwaway", "aliases": set()})
    ntrees = nassign = nqueries = ndiv = 0
    exhausted = {}
    try:
        # the minimal divergent tree first
        plan = []
        for n in range(1, 7):
            plan.append((n, False))
        for n in range(1, 6):
            plan.append((n, True))
        for n, with_inherit in plan:
            opts = _alias_options(letters, with_inherit)
            trees = _all_parent_vectors(n)
            total = len(trees) * len(opts) ** n
            full = tier == "thorough" or total <= 30000
            done = 0
            stop = False
            # interleave: for a sampled run draw (tree, assignment) pairs at random
            if full:
                it = ((p, al) for p in trees for al in itertools.product(opts, repeat=n))
            else:
                quota = 25000

                def gen():
                    for _ in range(quota):
                        p = trees[int(rng.integers(len(trees)))]
                        yield p, tuple(opts[int(j)] for j in rng.integers(len(opts), size=n))

                it = gen()
            cur, nodes = None, None
            for parents, aliases in it:
                if with_inherit and INHERIT not in aliases:
                    continue  # already covered without the inherit option
                if time.time() > t_end or col.too_many_failures():
                    stop = True
                    break
                if parents is not cur:
                    cur, nodes = parents, _build_tree(parents, root_base)
                    ntrees += 1
                fails, nq, anydiv, shadowing = _check_shadow_tree(nodes, parents, aliases, qletters)
                nassign += 1
                done += 1
                nqueries += nq
                ndiv += anydiv
                key = {"part": "shadow", "parents": parents, "aliases": aliases}
                col.case(key, nontrivial=shadowing, sample=dict(key, aliases=[list(a) if a != INHERIT else a for a in aliases]) if (shadowing and nassign % 5003 == 7) else None)
                for clause, case, msg in fails:
                    col.fail(clause, case, msg)
            exhausted[(n, with_inherit)] = (done, total if full else f"sample of {total}", "stopped" if stop else "done")
            nodes = None
            if stop:
                break
    finally:
        nodes = None
        cur = None
        del root_base
        gc.collect()
    left = [c.__name__ for c in AliasedFactory.__subclasses__() if c.__module__ == "rtc._c08_throwaway"]
    if left:
        col.note(f"WARNING: throw-away classes still registered after cleanup: {left[:5]}")
    col.note(
        f"shadow: {ntrees} class trees built, {nassign} alias assignments, {nqueries} from_alias calls (every node as cls x aliases a, b and an unknown one); "
        f"{ndiv} assignments contain a query on which 'registered last' and the DFS order differ; coverage (nodes, inherit option): {exhausted}"
    )


def _replay_shadow(case):
    from pydrobert.speech.alias import AliasedFactory

    parents = [int(p) for p in case["parents"]]
    aliases = [INHERIT if a == INHERIT else tuple(a) for a in case["aliases"]]
    root_base = type("_C08Root", (AliasedFactory,), {"__module__": "rtc._c08_throwaway", "aliases": set()})
    try:
        nodes = _build_tree(parents, root_base)
        letters = sorted({x for a in aliases if a != INHERIT for x in a} | {"zz"})
        queries = [(int(case["cls"]), case["alias"])] if "cls" in case and "alias" in case else None
        fails, _, _, _ = _check_shadow_tree(nodes, parents, aliases, letters, queries, want_part=case.get("part"))
    finally:
        nodes = None
        del root_base
        gc.collect()
    return [(c, m) for c, _, m in fails]


# =========================================================================== nested JSON round trip
SCALE_CLASS = {"linear": "LinearScaling", "uniform": "LinearScaling", "octave": "OctaveScaling", "mel": "MelScaling", "bark": "BarkScaling"}
BANK_CLASS = {"tri": "TriangularOverlappingFilterBank", "triangular": "TriangularOverlappingFilterBank", "fbank": "Fbank", "gabor": "GaborFilterBank", "gammatone": "ComplexGammatoneFilterBank", "tonebank": "ComplexGammatoneFilterBank"}
WINDOW_CLASS = {"bartlett": "BartlettWindow", "triangular": "BartlettWindow", "tri": "BartlettWindow", "blackman": "BlackmanWindow", "black": "BlackmanWindow", "hamming": "HammingWindow", "hanning": "HannWindow", "hann": "HannWindow", "gamma": "GammaWindow"}
COMPUTER_CLASS = {"stft": "ShortTimeFourierTransformFrameComputer", "si": "ShortIntegrationFrameComputer"}


def _pick(rng, seq):
    return seq[int(rng.integers(len(seq)))]


def _leaf(rng, alias, kw):
    """A leaf config in one of the accepted spellings."""
    form = int(rng.integers(3))
    if not kw and form == 0:
        return alias
    d = dict(kw)
    items = list(d.items())
    key = "alias" if form < 2 else "name"
    pos = int(rng.integers(len(items) + 1))
    items.insert(pos, (key, alias))
    return dict(items)


def _random_config(seed):
    rng = _common.make_rng(seed, "c08-nested")
    sr = int(_pick(rng, [8000, 16000]))
    nyq = sr // 2
    low = float(_pick(rng, [20.0, 60.0, 133.5, 300.0]))
    high = _pick(rng, [None, float(nyq), float(nyq) - 500.0, 3000.0])
    # scale
    salias = _pick(rng, sorted(SCALE_CLASS))
    skw = {}
    if SCALE_CLASS[salias] == "LinearScaling":
        skw = {"low_hz": float(_pick(rng, [0.0, 10.5]))}
        if rng.integers(2):
            skw["slope_hz"] = float(_pick(rng, [1.0, 0.5, 2.0]))
    elif SCALE_CLASS[salias] == "OctaveScaling":
        skw = {"low_hz": float(_pick(rng, [20.0, 55.0]))}
    scale_cfg = _leaf(rng, salias, skw)
    # bank
    balias = _pick(rng, sorted(BANK_CLASS))
    bcls = BANK_CLASS[balias]
    bkw = {"num_filts": int(rng.integers(2, 9)), "low_hz": low, "sampling_rate": sr}
    if high is not None or rng.integers(2):
        bkw["high_hz"] = high  # an explicit null is a legal JSON spelling of the default
    if bcls != "Fbank":
        bkw["scaling_function"] = scale_cfg
    if bcls in ("TriangularOverlappingFilterBank", "Fbank") and rng.integers(2):
        bkw["analytic"] = bool(rng.integers(2))
    if bcls in ("GaborFilterBank", "ComplexGammatoneFilterBank"):
        if rng.integers(2):
            bkw["scale_l2_norm"] = bool(rng.integers(2))
        if rng.integers(2):
            bkw["erb"] = bool(rng.integers(2))
    if bcls == "ComplexGammatoneFilterBank":
        if rng.integers(2):
            bkw["order"] = int(rng.integers(1, 5))
        if rng.integers(2):
            bkw["max_centered"] = bool(rng.integers(2))
    bank_cfg = _leaf(rng, balias, bkw)
    if isinstance(bank_cfg, str):
        bank_cfg = {"alias": balias}
    # window
    walias = _pick(rng, sorted(WINDOW_CLASS))
    wkw = {}
    if WINDOW_CLASS[walias] == "GammaWindow" and rng.integers(2):
        wkw = {"order": int(rng.integers(1, 5)), "peak": float(_pick(rng, [0.5, 0.75, 0.25]))}
    window_cfg = _leaf(rng, walias, wkw)
    # computer
    calias = _pick(rng, ["stft", "stft", "si"])
    ckw = {"bank": bank_cfg, "frame_shift_ms": float(_pick(rng, [10.0, 5.0, 12.5]))}
    if rng.integers(4):
        ckw["window_function"] = window_cfg
    if rng.integers(2):
        ckw["frame_style"] = _pick(rng, ["causal", "centered"])
    for flag in ("include_energy", "pad_to_nearest_power_of_two", "use_log", "use_power"):
        if rng.integers(2):
            ckw[flag] = bool(rng.integers(2))
    if calias == "stft":
        if rng.integers(2):
            ckw["frame_length_ms"] = float(_pick(rng, [20.0, 25.0, 32.0]))
        if rng.integers(2):
            ckw["kaldi_shift"] = bool(rng.integers(2))
    cfg = _leaf(rng, calias, ckw)
    nsamp = int(rng.integers(int(0.25 * sr), int(0.5 * sr)))
    return cfg, sr, nsamp


def _split(cfg):
    if isinstance(cfg, str):
        return cfg, {}
    d = dict(cfg)
    alias = d.pop("alias") if "alias" in d else d.pop("name")
    return alias, d


def _explicit(cfg):
    """The twin: explicitly constructed scale, bank, window and computer objects (no alias machinery)."""
    from pydrobert.speech import compute, filters, scales

    calias, ckw = _split(cfg)
    balias, bkw = _split(ckw.pop("bank"))
    if "scaling_function" in bkw:
        salias, skw = _split(bkw.pop("scaling_function"))
        bkw["scaling_function"] = getattr(scales, SCALE_CLASS[salias])(**skw)
    bank = getattr(filters, BANK_CLASS[balias])(**bkw)
    if "window_function" in ckw:
        walias, wkw = _split(ckw.pop("window_function"))
        ckw["window_function"] = getattr(filters, WINDOW_CLASS[walias])(**wkw)
    return getattr(compute, COMPUTER_CLASS[calias])(bank, **ckw)


def _features(build, signal):
    try:
        with warnings.catch_warnings():
            warnings.simplefilter("ignore")
            comp = build()
            feats = comp.compute_full(signal)
    except Exception as e:  # noqa
        return ("raise", type(e).__name__, str(e)[:160])
    return ("ok", feats)


def _check_nested(case):
    from pydrobert.speech.alias import alias_factory_subclass_from_arg as afs
    from pydrobert.speech.compute import FrameComputer

    fails = []
    cfg, sr, nsamp = _random_config(int(case["seed"]))
    pristine = copy.deepcopy(cfg)
    text = json.dumps(cfg)
    via_json = json.loads(text)
    variants = {"original": cfg, "json": via_json}
    try:
        from ruamel.yaml import YAML

        via_yaml = YAML(typ="safe").load(text)
        variants["yaml"] = via_yaml
        if via_yaml != via_json:
            fails.append(("C08.assume_A-JSON", f"ruamel safe load differs from json.loads on {text}"))
    except ImportError:
        pass
    if via_json != pristine:
        fails.append(("C08.assume_A-JSON", f"json round trip changed the tree: {text}"))
    signal = _common.make_rng(int(case["seed"]), "c08-signal").standard_normal(nsamp)
    twin = _features(lambda: _explicit(copy.deepcopy(pristine)), signal)
    twin2 = _features(lambda: _explicit(copy.deepcopy(pristine)), signal)
    nontrivial = twin[0] == "ok" and twin[1].size > 0
    if twin[0] == "ok" and (twin2[0] != "ok" or twin[1].tobytes() != twin2[1].tobytes()):
        fails.append(("C08.nested_bit_identical", "A-DET violated: two explicit constructions differ"))
    for name, tree in variants.items():
        snapshot = copy.deepcopy(tree)
        got = _features(lambda: afs(FrameComputer, tree), signal)
        if tree != snapshot or json.dumps(tree) != json.dumps(snapshot):
            fails.append(("C08.nested_unmodified", f"{name} configuration changed while building: {tree} was {snapshot}"))
        if got[0] != twin[0]:
            fails.append(("C08.nested_bit_identical", f"{name}: alias-built {got[:2] if got[0] == 'raise' else 'ok'} but explicit twin {twin[:2] if twin[0] == 'raise' else 'ok'}; config {text}"))
        elif got[0] == "raise":
            if got[1] != twin[1]:
                fails.append(("C08.nested_bit_identical", f"{name}: alias-built raised {got[1]}, explicit twin raised {twin[1]}; config {text}"))
        else:
            a, b = got[1], twin[1]
            if a.shape != b.shape or a.dtype != b.dtype or a.tobytes() != b.tobytes():
                d = float(np.max(np.abs(a - b))) if a.shape == b.shape and a.size else None
                fails.append(("C08.nested_bit_identical", f"{name}: features differ from the explicit twin (shape {a.shape} vs {b.shape}, max abs diff {d}); config {text}"))
    case["_info"] = (text, twin[0], None if twin[0] != "ok" else twin[1].shape)
    return fails, nontrivial


def _run_nested(col, tier, seed, budget_s):
    import time

    t_end = time.time() + budget_s
    n = 120 if tier == "quick" else 3000
    ok = raised = 0
    for k in range(n):
        if time.time() > t_end or col.too_many_failures():
            break
        case = {"part": "nested", "seed": int(seed) * 1000003 + k}
        fails, nontrivial = _check_nested(case)
        info = case.pop("_info")
        ok += info[1] == "ok"
        raised += info[1] != "ok"
        col.case(case, nontrivial=nontrivial, sample=dict(case, config=json.loads(info[0]), frames=info[2]) if k in (0, 1) else None)
        for clause, msg in fails:
            col.fail(clause, case, msg)
    col.note(f"nested: {ok + raised} configurations x 3 renderings (original dict, json.loads, ruamel safe load); {ok} built and compared bit for bit, {raised} rejected alike by both constructions")


# =========================================================================== interface
def run(tier: str, seed: int) -> dict:
    _common.use_repo()
    col = _common.Collector(PROPERTY, tier, seed, budget_s=55.0 if tier == "quick" else 540.0)
    ctx = _run_registry(col)
    _run_arg(col, ctx)
    _run_nested(col, tier, seed, 16.0 if tier == "quick" else 150.0)
    _run_shadow(col, tier, seed, 22.0 if tier == "quick" else 330.0)
    return col.result(
        rule="registry: one case per (class used as family, alias) pair, all of them (exhaustive: true); arg: one case per (concrete class, alias, form in instance/str/alias/name/both/fail, "
        "container in dict/OrderedDict/MappingProxyType/guarded Mapping); shadow: one case per (creation-ordered rooted tree, alias assignment), each queried from every node with aliases a, b and an unknown one, "
        "non-trivial when some alias is carried by >= 2 classes; nested: one case per seeded configuration, non-trivial when the twin produced >= 1 frame.",
        bound="registry part EXHAUSTIVE over the shipped registry read from the source. BOUNDED otherwise: class trees with <= 6 nodes (all (n-1)! creation orders) x alias sets over a 2-letter alphabet "
        "(+ 'no own aliases attribute' for <= 5 nodes) - complete in thorough, complete up to 30000 assignments per size and a seeded sample of 25000 above that in quick; "
        "nested configurations: 120 (quick) / up to 3000 (thorough) seeded trees over all scale, bank, window and computer aliases",
        assumptions=ASSUMPTIONS,
    )


def replay(case: dict):
    _common.use_repo()
    part = case.get("part")
    if part in ("shadow", "shadow_dfs"):
        fails = _replay_shadow(case)
    elif part == "registry":
        fails, _ = _check_registry_case(case)
    elif part == "arg":
        fails = _check_precedence_private() if case.get("form") == "private-precedence" else _check_arg_case(dict(case))
    elif part == "nested":
        fails, _ = _check_nested(dict(case))
    else:
        return False, f"unknown part {part!r}"
    if fails:
        return False, "; ".join(f"{c}: {m}" for c, m in fails[:5])
    return True, "all C08 clauses hold on this case"


if __name__ == "__main__":
    from rtc import _common
    import sys

    _common.main(sys.modules[__name__])

"""Bounded stand-in for property C03 - short-integration coefficients equal their documented definition.

Reading of the statement (s = frame_shift, w = window of 2s samples, p = 2 if use_power else 1,
(left_i, right_i) = bank.supports[i], x zero beyond its ends, IR_i = the bank's impulse response in a buffer of
the computer's DFT size D):

  causal    tr = max(0, max_i -left_i), M = max_i right_i + tr (longest support, measured from the earliest
            sample of any filter); h_i[t] = IR_i[t] for -tr <= t < M - tr, 0 elsewhere;
            coeff[k, i] = sum_{j<2s} w[j] |(x * h_i)[k s + j]|^p                       (span STARTS at k s)
            hypothesis: s < M - tr (one-sided support from sample 0)
  centered  M = max_i (right_i - left_i), mid_i = (left_i + right_i)//2; each filter re-centred:
            h_i[u] = IR_i[u + mid_i] for -M//2 <= u < M - M//2, 0 elsewhere;
            coeff[k, i] = sum_{j<2s} w[j] |(x * h_i)[k s - s + j]|^p                   (span CENTRED on k s)
            hypothesis: s < M//2 (one-sided support from the centre)
  energy    (index 0 when include_energy) the same with h = unit impulse at 0
  use_log   log(max(., LOG_FLOOR_VALUE))

Clauses
  C03.frame_count   under the hypothesis compute_full returns (N + s//2)//s rows of num_filts(+1) columns
  C03.coeff_value   filter coefficients as above; float64 rtol 1e-6, float32 rtol 1e-3
  C03.energy_value  energy coefficient as above (same tolerances)
  C03.log_floor     entries whose pre-log value is below the floor
  C03.dtype         any floating dtype (float16/32/64/longdouble) is accepted for any length, without an
                    exception, the result has that dtype and the computer is left not `started`
                    (checked with and without the hypothesis)

The oracle is np.convolve of the signal with the clamped impulse responses and explicit window sums; it shares
nothing with the computer except the bank class (fresh instance) and the window class (fresh instance).
"""
import warnings

import numpy as np

from rtc import _common
from rtc._common import Collector, make_rng

PROPERTY = "C03"
RATE = 8000
RTOL = {"float64": 1e-6, "float32": 1e-3}
ASSUMPTIONS = ["A-REAL", "A-FFT", "A-NP-CORR", "A-NP-RED", "A-DET"]
DTYPES = {"float16": np.float16, "float32": np.float32, "float64": np.float64, "longdouble": np.longdouble}

_LIN0 = {"name": "linear", "low_hz": 0.0}

BANKS_QUICK = [
    {"kind": "gabor", "scale": "mel", "num_filts": 5, "low_hz": 20.0},  # supports (-22,22)..(-7,7)
    {"kind": "gammatone", "scale": "mel", "num_filts": 5, "low_hz": 20.0},  # causal (0,44)..
    {"kind": "gammatone", "scale": "mel", "num_filts": 5, "low_hz": 20.0, "max_centered": True},  # (-11,33)..
    {"kind": "tri", "scale": "mel", "num_filts": 4, "low_hz": 20.0, "analytic": False},  # real, odd support length
    {"kind": "gabor", "scale": "bark", "num_filts": 7, "low_hz": 0.0, "scale_l2_norm": True, "erb": True},
    {"kind": "tri", "scale": _LIN0, "num_filts": 3, "low_hz": 0.0, "analytic": True},
]
BANKS_EXTRA = [
    {"kind": "gabor", "scale": "mel", "num_filts": 12, "low_hz": 0.0},
    {"kind": "gammatone", "scale": "bark", "num_filts": 6, "low_hz": 20.0, "order": 2},
    {"kind": "gammatone", "scale": "mel", "num_filts": 4, "low_hz": 0.0, "order": 3, "max_centered": True, "scale_l2_norm": True},
    {"kind": "fbank", "num_filts": 2, "low_hz": 300.0, "high_hz": 3700.0, "analytic": False},
    {"kind": "fbank", "num_filts": 2, "low_hz": 300.0, "high_hz": 3700.0, "analytic": True},
    {"kind": "tri", "scale": "bark", "num_filts": 3, "low_hz": 100.0, "analytic": False},
]


def _make_bank(spec, rate=RATE):
    from pydrobert.speech import filters

    kw = {k: v for k, v in spec.items() if k not in ("kind", "scale")}
    kw["sampling_rate"] = rate
    kind, scale = spec["kind"], spec.get("scale")
    if isinstance(scale, dict):
        scale = dict(scale)
    if kind == "tri":
        return filters.TriangularOverlappingFilterBank(scale, **kw)
    if kind == "fbank":
        return filters.Fbank(**kw)
    if kind == "gabor":
        return filters.GaborFilterBank(scale, **kw)
    if kind == "gammatone":
        return filters.ComplexGammatoneFilterBank(scale, **kw)
    raise ValueError(kind)


_RAND_WIN_CLS = []


def _window_obj(name, wseed):
    from pydrobert.speech import filters

    if name == "default":
        return None
    if name == "random":
        if not _RAND_WIN_CLS:

            class _SeededWindow(filters.WindowFunction):
                """asymmetric, strictly positive, values fixed by (seed, width)"""

                aliases = set()

                def __init__(self, seed):
                    self.seed = seed

                def get_impulse_response(self, width):
                    r = make_rng(self.seed, "c03window:%d" % width)
                    return r.uniform(0.1, 1.0, width) / max(1, width)

            _RAND_WIN_CLS.append(_SeededWindow)
        return _RAND_WIN_CLS[0](wseed)
    return {
        "hann": filters.HannWindow,
        "hamming": filters.HammingWindow,
        "bartlett": filters.BartlettWindow,
        "gamma": filters.GammaWindow,
        "gamma2": lambda: filters.GammaWindow(order=2, peak=0.6),
    }[name]()


def _window_values(name, wseed, frame_style, width):
    from pydrobert.speech import filters

    w = _window_obj(name, wseed)
    if w is None:  # documented default
        w = filters.GammaWindow() if frame_style == "causal" else filters.HannWindow()
    return np.asarray(w.get_impulse_response(width), dtype=np.float64)


# --------------------------------------------------------------------------------- oracle


def _geometry(bank, frame_style, s, pad, rate=RATE):
    """support bookkeeping straight from bank.supports / supports_hz"""
    sup = [(int(l), int(r)) for l, r in bank.supports]
    if frame_style == "causal":
        tr = max([0] + [-l for l, _ in sup])
        M = max([0] + [r for _, r in sup]) + tr
        t0 = -tr  # time of the first retained tap
        onesided = M - tr
    else:
        M = max(r - l for l, r in sup)
        t0 = -(M // 2)
        onesided = M // 2
    L = M + s - 1  # frame_length: cone of influence of the longest filter
    D = max(L, int(np.ceil(2 * rate / min(r - l for l, r in bank.supports_hz))))
    if pad:
        P = 1
        while P < D:
            P *= 2
        D = P
    return {"M": M, "t0": t0, "onesided": onesided, "L": L, "D": D, "hypothesis": bool(s < onesided)}


def _clamped_filters(bank, frame_style, geo, delay=0):
    """list of 1-D arrays h_i[t0 .. t0+M) (re-centred when centered). `delay` re-centres on sample `delay`
    instead of 0 - used only to word the diagnosis in a failure message."""
    D, M, t0 = geo["D"], geo["M"], geo["t0"]
    out = []
    for i, (l, r) in enumerate(bank.supports):
        ir = np.asarray(bank.get_impulse_response(i, D))
        t = np.arange(t0, t0 + M)
        if frame_style == "centered":
            t = t + (int(l) + int(r)) // 2 - delay
        out.append(ir[np.mod(t, D)])
    return out


ROUNDOFF = 1e-12  # absolute round-off allowance on a convolution output, in units of ||x||_2 * ||h||_2


def _oracle_linear(x, filters_, geo, frame_style, s, w, p, include_energy):
    """-> (pre-log coefficients, absolute round-off allowance), float64, shape ((N + s//2)//s, nfilt + energy).
    The allowance propagates an absolute error of ROUNDOFF * ||x|| * ||h|| on every convolution output (the size
    of the round-off of any FFT-based convolution, 1e4 times machine epsilon) through |.|^p and the window sum; it
    only matters for coefficients that are ~1e-6 or less of the channel's natural scale."""
    N = len(x)
    nf = (N + s // 2) // s
    hs = ([(0, np.ones(1))] if include_energy else []) + [(geo["t0"], h) for h in filters_]
    out = np.zeros((nf, len(hs)))
    slack = np.zeros((nf, len(hs)))
    if nf == 0:
        return out, slack
    first = 0 if frame_style == "causal" else -s  # time of the first sample of frame 0's span
    lo, hi = first, (nf - 1) * s + first + 2 * s  # all times any frame looks at
    xnorm = float(np.linalg.norm(x)) if N else 0.0
    wsum = float(np.sum(np.abs(w)))
    for c, (t0, h) in enumerate(hs):
        z = np.zeros(hi - lo)
        d1 = np.zeros(hi - lo)  # |y|^(p-1)
        if N:
            y = np.convolve(x, h)  # y[n] is the output at time n + t0
            ay = np.abs(y)
            a, b = max(lo, t0), min(hi, t0 + len(ay))
            if b > a:
                z[a - lo : b - lo] = ay[a - t0 : b - t0] ** p
                d1[a - lo : b - lo] = ay[a - t0 : b - t0] ** (p - 1)
        if p == 1:
            d1[:] = 1.0
        delta = ROUNDOFF * xnorm * float(np.linalg.norm(h))
        for k in range(nf):
            st = k * s + first - lo
            out[k, c] = float(np.dot(w, z[st : st + 2 * s]))
            slack[k, c] = p * delta * float(np.dot(np.abs(w), d1[st : st + 2 * s])) + (delta ** p) * wsum * (p - 1)
    return out, slack


# ------------------------------------------------------------------------------ one case

_CONFIG_FIELDS = ("bank", "frame_shift", "frame_style", "pad", "window", "window_seed", "use_log", "use_power", "include_energy")


class _Ctx:
    def __init__(self):
        self.obanks = {}
        self.filters = {}
        self.computers = {}
        self.max_rel = {"float64": 0.0, "float32": 0.0}
        self.n_values = 0
        self.n_normal = 0
        self.n_floored = 0
        self.n_unfloored = 0
        self.alias_note = {}

    def obank(self, spec):
        k = repr(_common.jsonable(spec))
        if k not in self.obanks:
            with warnings.catch_warnings():
                warnings.simplefilter("ignore")
                self.obanks[k] = _make_bank(spec)
        return self.obanks[k]

    def clamped(self, spec, frame_style, geo, delay=0):
        k = (repr(_common.jsonable(spec)), frame_style, geo["D"], geo["M"], geo["t0"], delay)
        if k not in self.filters:
            with warnings.catch_warnings():
                warnings.simplefilter("ignore")
                self.filters[k] = _clamped_filters(self.obank(spec), frame_style, geo, delay)
        return self.filters[k]

    def computer(self, case):
        from pydrobert.speech.compute import ShortIntegrationFrameComputer

        k = repr([_common.jsonable(case[f]) for f in _CONFIG_FIELDS])
        if k not in self.computers:
            if len(self.computers) > 48:
                self.computers.clear()
            with warnings.catch_warnings():
                warnings.simplefilter("ignore")
                c = ShortIntegrationFrameComputer(
                    _make_bank(case["bank"]),
                    frame_shift_ms=(case["frame_shift"] + 0.5) * 1000.0 / RATE,
                    frame_style=case["frame_style"],
                    include_energy=case["include_energy"],
                    pad_to_nearest_power_of_two=case["pad"],
                    window_function=_window_obj(case["window"], case.get("window_seed", 0)),
                    use_power=case["use_power"],
                    use_log=case["use_log"],
                )
            if c.frame_shift != case["frame_shift"]:
                raise RuntimeError("harness: asked for shift %d, computer has %d" % (case["frame_shift"], c.frame_shift))
            self.computers[k] = c
        return self.computers[k]


def _signal(case):
    r = make_rng(case["seed"], "c03signal:%d" % case["N"])
    x = r.standard_normal(case["N"]) * case.get("amp", 1.0)
    return x.astype(DTYPES[case["dtype"]])


def _check_case(case, ctx):
    """-> (failures [(clause, msg)], info)"""
    from pydrobert.speech import config

    s, style = case["frame_shift"], case["frame_style"]
    obank = ctx.obank(case["bank"])
    geo = _geometry(obank, style, s, case["pad"])
    info = {"frames": 0, "hypothesis": geo["hypothesis"], "values_checked": False, "geo": geo}
    fails = []
    x = _signal(case)
    N = len(x)
    dt = DTYPES[case["dtype"]]
    c = ctx.computer(case)
    if c.frame_length != geo["L"]:
        # frame_length is public and documented as the cone of influence of the longest filter
        fails.append(("C03.coeff_value", "frame_length %d, but longest clamped support %d + shift %d - 1 = %d" % (c.frame_length, geo["M"], s, geo["L"])))
    xin = x.copy()
    with warnings.catch_warnings():
        warnings.simplefilter("ignore")
        try:
            got = c.compute_full(xin)
        except Exception as e:  # noqa
            msg = "compute_full raised %s: %s (dtype %s, N=%d, started afterwards: %s)" % (type(e).__name__, str(e)[:120], case["dtype"], N, c.started)
            # leave the cached computer usable for the next case
            ctx.computers = {k: v for k, v in ctx.computers.items() if v is not c}
            return fails + [("C03.dtype", msg)], info
    got = np.asarray(got)
    if got.dtype != np.dtype(dt):
        fails.append(("C03.dtype", "input %s, result %s" % (np.dtype(dt), got.dtype)))
    if c.started:
        fails.append(("C03.dtype", "computer still `started` after compute_full"))
        ctx.computers = {k: v for k, v in ctx.computers.items() if v is not c}
    if not np.array_equal(xin, x):
        fails.append(("C03.coeff_value", "compute_full modified its input"))
    if not geo["hypothesis"]:
        return fails, info  # count and values are only claimed under the hypothesis

    ncoef = obank.num_filts + int(case["include_energy"])
    nf = (N + s // 2) // s
    if got.ndim != 2 or got.shape != (nf, ncoef):
        fails.append(("C03.frame_count", "shape %s, definition gives (%d, %d) (N=%d, s=%d)" % (got.shape, nf, ncoef, N, s)))
        return fails, info
    info["frames"] = nf
    if nf == 0 or case["dtype"] not in RTOL:
        return fails, info

    p = 2 if case["use_power"] else 1
    w = _window_values(case["window"], case.get("window_seed", 0), style, 2 * s)
    x64 = x.astype(np.float64)
    want_lin, slack = _oracle_linear(x64, ctx.clamped(case["bank"], style, geo), geo, style, s, w, p, case["include_energy"])
    rtol = RTOL[case["dtype"]]
    floor = config.LOG_FLOOR_VALUE
    got64 = got.astype(np.float64)
    off = int(case["include_energy"])
    if case["use_log"]:
        floored = want_lin < floor
        want = np.log(np.maximum(want_lin, floor))
        err = np.abs(got64 - want)
        tol = rtol + (1e-12 if case["dtype"] == "float64" else 1e-6) * np.abs(want) + slack / np.maximum(want_lin, floor)
        bad = ~(err <= tol)
        ctx.n_floored += int(floored.sum())
        ctx.n_unfloored += int((~floored).sum())
        normal = (~floored) & (slack < 1e-3 * rtol * want_lin)
        if normal.any():
            ctx.max_rel[case["dtype"]] = max(ctx.max_rel[case["dtype"]], float(np.nanmax(err[normal])))
    else:
        floored = np.zeros_like(want_lin, dtype=bool)
        want = want_lin
        err = np.abs(got64 - want)
        tol = rtol * np.abs(want) + slack
        bad = ~(err <= tol)
        normal = slack < 1e-3 * rtol * np.abs(want)
        if normal.any():
            ctx.max_rel[case["dtype"]] = max(ctx.max_rel[case["dtype"]], float(np.nanmax(err[normal] / np.abs(want[normal]))))
    ctx.n_normal += int(normal.sum())
    ctx.n_values += int(want.size)
    info["values_checked"] = True
    if bad.any():
        seen = set()
        for k, j in zip(*np.nonzero(bad)):
            cl = "C03.energy_value" if (off and j == 0) else ("C03.log_floor" if floored[k, j] else "C03.coeff_value")
            if cl in seen:
                continue
            seen.add(cl)
            msg = "frame %d coeff %d: got %.12g want %.12g (%d of %d entries off; energy column %s)" % (
                k,
                j,
                got64[k, j],
                want[k, j],
                int(bad.sum()),
                bad.size,
                ("agrees" if not bad[:, 0].any() else "differs") if off else "absent",
            )
            if cl == "C03.coeff_value" and style == "centered":
                alt, _ = _oracle_linear(x64, ctx.clamped(case["bank"], style, geo, delay=1), geo, style, s, w, p, case["include_energy"])
                if case["use_log"]:
                    alt = np.log(np.maximum(alt, floor))
                agree = bool(np.all(np.abs(got64[:, off:] - alt[:, off:]) <= rtol * np.abs(alt[:, off:]) + rtol * 1e-3))
                msg += "; filter columns %s the definition evaluated with every filter re-centred on sample +1 instead of 0" % ("AGREE with" if agree else "also differ from")
            fails.append((cl, msg))
    return fails, info


# ----------------------------------------------------------------------------- enumeration

_FLAGS = [(lg, pw, en) for en in (True, False) for pw in (True, False) for lg in (False, True)]
_WINDOWS = ["default", "random", "gamma2", "hamming", "bartlett", "hann", "gamma"]
_STYLES = ["causal", "centered"]


def _length_set(s, L, D):
    labelled = [
        ("2D+7", 2 * D + 7),
        ("D+1", D + 1),
        ("D", D),
        ("D-1", D - 1),
        ("L+1", L + 1),
        ("L", L),
        ("L-1", L - 1),
        ("s+1", s + 1),
        ("s", s),
        ("s-1", s - 1),
        ("1", 1),
        ("0", 0),
    ]
    seen, out = set(), []
    for lab, n in labelled:
        if n >= 0 and n not in seen:
            seen.add(n)
            out.append((lab, n))
    return out


def _shifts_for(onesided):
    """shifts under the hypothesis s < onesided (odd, even, 1, the largest allowed) and two outside it"""
    inside = [t for t in (10, 7, 1, 13, 2, onesided - 1, 16, 5) if 1 <= t < onesided]
    inside = list(dict.fromkeys(inside))
    outside = [onesided, onesided + 5]
    return inside, outside


def _enumerate(tier, seed):
    _common.use_repo()
    banks = list(BANKS_QUICK) + (list(BANKS_EXTRA) if tier == "thorough" else list(BANKS_EXTRA[:3]))
    nvar = 4 if tier == "quick" else 30
    dts_cycle = ["float64", "float32"]
    for var in range(nvar):
        for bi, spec in enumerate(banks):
            with warnings.catch_warnings():
                warnings.simplefilter("ignore")
                bank = _make_bank(spec)
            for si, style in enumerate(_STYLES):
                for pi, pad in enumerate((True, False)):
                    g1 = _geometry(bank, style, 1, pad)
                    inside, outside = _shifts_for(g1["onesided"])
                    j = bi + 2 * si + 3 * pi + 5 * var
                    rng = make_rng(seed, "c03enum:%d:%d:%d:%d" % (var, bi, si, pi))
                    picks = []
                    if var < 2:
                        picks.append((inside[(j + var) % len(inside)], True))
                        picks.append((inside[(j + var + 2) % len(inside)], True))
                        if var == 0:
                            picks.append((outside[j % 2], False))
                    else:
                        picks.append((inside[int(rng.integers(0, len(inside)))], True))
                        picks.append((inside[int(rng.integers(0, len(inside)))], True))
                    for qi, (s, hyp) in enumerate(picks):
                        geo = _geometry(bank, style, s, pad)
                        flags = _FLAGS[(j * 3 + qi * 5 + var) % 8] if var < 2 else _FLAGS[int(rng.integers(0, 8))]
                        wname = _WINDOWS[(j + qi) % len(_WINDOWS)] if var < 2 else _WINDOWS[int(rng.integers(0, len(_WINDOWS)))]
                        for di in range(2):
                            dtype = dts_cycle[(j + qi + di) % 2]
                            if di == 1 and not hyp:
                                dtype = ["float16", "longdouble"][j % 2]
                            amp = ([1.0, 1.0, 0.01, 20.0][(j + di) % 4]) if flags[0] else [1.0, 1e-3, 40.0][(j + di) % 3]
                            lens = _length_set(s, geo["L"], geo["D"])
                            if di == 1 and hyp and tier == "quick":
                                lens = lens[:5] + lens[-2:]
                            for lab, N in lens:
                                yield {
                                    "bank": spec,
                                    "frame_shift": s,
                                    "frame_style": style,
                                    "pad": pad,
                                    "window": wname,
                                    "window_seed": int(seed),
                                    "use_log": flags[0],
                                    "use_power": flags[1],
                                    "include_energy": flags[2],
                                    "dtype": dtype,
                                    "N": int(N),
                                    "N_label": lab,
                                    "amp": amp,
                                    "seed": int(seed),
                                    "frame_length": geo["L"],
                                    "dft_size": geo["D"],
                                    "max_support": geo["M"],
                                    "hypothesis": geo["hypothesis"],
                                }
                    # the remaining floating dtypes: acceptance / result dtype / count only
                    if var == 0:
                        s = inside[j % len(inside)]
                        geo = _geometry(bank, style, s, pad)
                        for dtype in ("float16", "longdouble"):
                            for lab, N in _length_set(s, geo["L"], geo["D"])[:6] + [("0", 0), ("1", 1)]:
                                yield {
                                    "bank": spec,
                                    "frame_shift": s,
                                    "frame_style": style,
                                    "pad": pad,
                                    "window": "default",
                                    "window_seed": int(seed),
                                    "use_log": bool(j % 2),
                                    "use_power": bool(bi % 2),
                                    "include_energy": bool((j // 2) % 2),
                                    "dtype": dtype,
                                    "N": int(N),
                                    "N_label": lab,
                                    "amp": 1.0,
                                    "seed": int(seed),
                                    "frame_length": geo["L"],
                                    "dft_size": geo["D"],
                                    "max_support": geo["M"],
                                    "hypothesis": geo["hypothesis"],
                                }


# ------------------------------------------------------------------------------ interface


def run(tier: str, seed: int) -> dict:
    _common.use_repo()
    col = Collector(PROPERTY, tier, seed, budget_s=50.0 if tier == "quick" else 540.0, max_failures=40)
    ctx = _Ctx()
    n_values_cases = n_count_cases = n_outside = n_f32_long = 0
    stopped = False
    for case in _enumerate(tier, seed):
        if col.out_of_time() or col.too_many_failures():
            stopped = True
            break
        try:
            fails, info = _check_case(case, ctx)
        except RuntimeError:
            raise
        except Exception as e:  # noqa
            fails, info = [("C03.coeff_value", "oracle/harness raised %s: %s" % (type(e).__name__, e))], {"frames": 0, "hypothesis": case["hypothesis"], "values_checked": False}
        # non-trivial: values compared on >= 1 frame, or (dtype-only cases) a non-empty signal was accepted
        nontrivial = info["values_checked"] or (case["N"] > 0 and (not info["hypothesis"] or case["dtype"] not in RTOL))
        n_values_cases += int(info["values_checked"])
        n_count_cases += int(info["hypothesis"])
        n_outside += int(not info["hypothesis"])
        n_f32_long += int(case["dtype"] == "float32" and case["N"] >= case["dft_size"])
        col.case(case, nontrivial=nontrivial, sample=case if col.evaluations % 577 == 11 else None)
        for clause, msg in fails:
            col.fail(clause, dict(case, clause=clause), msg)
    col.note(
        "%d coefficient values compared on %d cases (%d of them far above the absolute round-off allowance); worst relative error "
        "on those: float64 %.3g (tol 1e-6), float32 %.3g (tol 1e-3); log outputs: %d floored, %d not"
        % (ctx.n_values, n_values_cases, ctx.n_normal, ctx.max_rel["float64"], ctx.max_rel["float32"], ctx.n_floored, ctx.n_unfloored)
    )
    col.note(
        "%d cases under the hypothesis (count checked), %d outside it (dtype/acceptance only), %d float32 cases with N >= one DFT block"
        % (n_count_cases, n_outside, n_f32_long)
    )
    col.note(
        "h_i is bank.get_impulse_response(i, D) with D = the DFT size (max(frame_length, ceil(2*rate/narrowest band)), next power of "
        "two when padded) restricted to the longest support; the alias-free impulse response (a much wider buffer) differs from it below "
        "EFFECTIVE_SUPPORT_THRESHOLD and is not what is checked"
    )
    if stopped:
        col.note("stopped early (time budget or failure cap)")
    rule = (
        "bank x frame_style x pad x 2-3 frame shifts (odd/even/1/largest allowed, plus shifts outside the hypothesis) with window / "
        "(use_log,use_power,include_energy) / amplitude rotated deterministically (variants 0-1) then seeded, x dtype x the lengths "
        "{0,1,s-1,s,s+1,L-1,L,L+1,D-1,D,D+1,2D+7}. Non-trivial: >= 1 frame whose values were compared (float64/float32 under the "
        "hypothesis), or a non-empty signal accepted in a dtype-only case (float16/longdouble, or outside the hypothesis)."
    )
    bound = (
        "sampling rate 8000 Hz; %d banks (Gabor, gammatone causal and max_centered, triangular real/analytic%s; 2-12 filters); "
        "shifts 1..16 samples and the largest below the one-sided support; DFT sizes padded and unpadded; 7 windows incl. a seeded "
        "asymmetric one; all 8 flag triples; Gaussian signals, amplitudes {1e-3,0.01,1,20,40}, N <= 2D+7; float64 and float32 values, "
        "float16/longdouble acceptance only" % (len(BANKS_QUICK) + (len(BANKS_EXTRA) if tier == "thorough" else 3), ", Fbank" if tier == "thorough" else "")
    )
    return col.result(rule, bound, ASSUMPTIONS)


def replay(case: dict):
    _common.use_repo()
    case = dict(case)
    case.pop("clause", None)
    # defaults so that a case built from a solver model (a few integers) can be replayed
    case.setdefault("bank", BANKS_QUICK[0])
    case.setdefault("frame_style", "causal")
    case.setdefault("pad", True)
    case.setdefault("frame_shift", 10)
    case.setdefault("use_log", False)
    case.setdefault("use_power", True)
    case.setdefault("include_energy", True)
    case.setdefault("seed", 0)
    case.setdefault("window", "default")
    case.setdefault("window_seed", case.get("seed", 0))
    case.setdefault("dtype", "float64")
    case.setdefault("amp", 1.0)
    case.setdefault("N", 200)
    ctx = _Ctx()
    fails, info = _check_case(case, ctx)
    if fails:
        return False, "; ".join("%s: %s" % f for f in fails)
    what = "values agree" if info["values_checked"] else ("count and dtype agree" if info["hypothesis"] else "accepted, dtype kept (outside the hypothesis)")
    return True, "%d frames, %s (max rel err f64 %.3g, f32 %.3g)" % (info["frames"], what, ctx.max_rel["float64"], ctx.max_rel["float32"])


if __name__ == "__main__":
    from rtc import _common
    import sys

    _common.main(sys.modules[__name__])

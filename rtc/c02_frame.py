"""Function-level replay for refuted obligations of STFT._compute_frame (property C02): the REAL method is called on
a synthetic receiver (object.__new__, attributes set by hand) for one DFT size / frame length taken from the solver
model, over all start bins and filter lengths (sampled when the DFT is large), and compared with the definition:
coefficient = sum_j |X[(b0+j) mod D] * t[j]|^p over the FULL spectrum X = fft(window*frame, D)."""
import numpy as np

from rtc import _common


def replay_frame_walk(case):
    _common.use_repo()
    from pydrobert.speech import config
    from pydrobert.speech.compute import ShortTimeFourierTransformFrameComputer as STFT
    from pydrobert.speech import compute as C

    D = int(case["D"])
    L = int(case.get("L") or D)
    L = max(1, min(L, D))
    real, power, log, energy = (bool(case.get(k, False)) for k in ("real", "power", "log", "energy"))
    rng = np.random.default_rng(case.get("seed", 0))
    h = D // 2 + 1
    pairs = [(b0, n) for b0 in range(D) for n in range(1, D + 1)]
    if real:
        pairs = [(b0, n) for b0, n in pairs if b0 + n <= h]
    if len(pairs) > 3000:
        idx = rng.choice(len(pairs), 3000, replace=False)
        pairs = [pairs[i] for i in sorted(idx)]
    frame = rng.standard_normal(L)
    window = rng.uniform(0.5, 1.5, L)
    X = np.fft.fft(frame * window, n=D)
    worst = 0.0
    for lo in range(0, len(pairs), 16):
        grp = pairs[lo:lo + 16]
        o = object.__new__(STFT)
        o._frame_length, o._dft_size, o._window = L, D, window
        o._power, o._log, o._real = power, log, real
        o._nonlin_op = C._power if power else C._mag
        o._include_energy = energy
        taps = [(rng.standard_normal(n) + (0 if real else 1j * rng.standard_normal(n))) for _, n in grp]
        if real:  # the precondition of the doubling (C06 contract): zero taps at DC and Nyquist
            for (b0, n), t in zip(grp, taps):
                if b0 == 0:
                    t[0] = 0
                if D % 2 == 0 and b0 + n - 1 == D // 2:
                    t[-1] = 0
        o._filt_start_idxs = [b0 for b0, _ in grp]
        o._truncated_filts = taps

        class _B:  # num_coeffs is a property over the bank
            num_filts = len(grp)
        o._bank = _B()
        coeffs = np.empty(len(grp) + int(energy))
        o._compute_frame(frame.copy(), coeffs)
        for k, ((b0, n), t) in enumerate(zip(grp, taps)):
            v = np.sum(np.abs(X[(b0 + np.arange(n)) % D] * t) ** (2 if power else 1)) * (2 if real else 1)
            want = np.log(max(v, config.LOG_FLOOR_VALUE)) if log else v
            got = coeffs[k + int(energy)]
            err = abs(got - want) / max(1.0, abs(want))
            worst = max(worst, err)
            if err > 1e-9:
                return False, (f"_compute_frame with dft_size {D}, frame_length {L}, start bin {b0}, {n} taps, real={real}, power={power}, log={log}: "
                               f"coefficient {got!r}, full-spectrum definition {want!r}")
        if energy:
            e = np.inner(frame, frame) / L
            e = e if power else e ** 0.5
            want = np.log(max(e, config.LOG_FLOOR_VALUE)) if log else e
            if abs(coeffs[0] - want) > 1e-9 * max(1.0, abs(want)):
                return False, f"energy coefficient {coeffs[0]!r}, definition {want!r} (dft_size {D}, frame_length {L})"
    return True, f"_compute_frame agrees with the full-spectrum definition on {len(pairs)} (start bin, length) pairs for dft_size {D}, frame_length {L} (worst rel err {worst:.1e})"

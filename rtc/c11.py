"""Bounded stand-in for C11: read_signal returns exactly what was stored, from a path or a stream.

BOUNDED runtime-contract check (never a proof). Arrays are written with each container's OWN writer
(soundfile, stdlib wave, np.save/savez, torch.save, h5py, ndarray.tofile, a SPHERE writer kept in this
file), then read with `read_signal` by file name (type inferred from the suffix) and from open binary
streams (a real file object and a BytesIO) with `force_as`. (Here scipy is absent, so both a '.wav' name
and force_as='wav' end in the stdlib `wave` reader; soundfile reads wav only under force_as='soundfile'.) The expected value is the array that was
handed to the writer (cast with numpy's astype when `dtype` is given).

SPHERE is written in nine valid framings (SPH_LAYOUTS): the minimal 1024-byte header and headers of 2048 / 3072 / 4096 bytes that
are padded, that carry descriptive fields first so that every sample field lies in the 2nd / 3rd 1024-byte block, that spread
the sample fields over all blocks with a line straddling each block boundary, or that end_head fills to the last byte. Each is
a container variant of its own, so every clause below (path, stream, stream position, final cast, wds) ranges over them.

Clauses
  C11.roundtrip_path     by name: bit-identical values, stored dtype, shape (time x channels for audio)
  C11.roundtrip_stream   same from an open stream with force_as
  C11.stream_position    an open stream is read from its CURRENT position: the payload is written after another
                         payload of the same family (different shape / width) or after junk bytes, in ONE stream
                         (BytesIO and a real file opened 'rb'), the stream is positioned on the start of the
                         payload and must give that payload bit-identically (also with dtype / key)
  C11.final_cast         `dtype` given -> result == stored.astype(dtype), dtype exactly as requested
                         (soundfile containers: integers are NOT rescaled to +-1 when a float is asked)
  C11.key_selects        `key` selects the named entry (npz, hdf5); default entry arr_0 / depth-first first
  C11.suffix_inference   names with several dots / misleading inner suffixes are typed by the last suffix
  C11.no_suffix_ioerror  name without a recognised suffix -> IOError (the file exists and is a valid npy)
  C11.stream_needs_force_as   stream without force_as -> ValueError
  C11.unknown_force_as   unknown force_as -> ValueError (path and stream)
  C11.kaldi_stream       force_as 'kaldi' / 'table' with a stream -> ValueError
  C11.wds_valid          wds_read_signal(key, valid bytes) returns the stored array
  C11.wds_never_raises   wds_read_signal never raises (random bytes, magic-prefixed garbage, truncated and
                         bit-flipped valid files, empty bytes, kaldi-looking keys)
  C11.wds_none           ... and returns None for what it cannot decode (pure random bytes / unknown suffix)
"""
import io
import os
import shutil
import tempfile
import warnings

import numpy as np

from rtc import _common

PROPERTY = "C11"

SHAPES = ((64, 3), (5, 2), (7,), (100,), (1,), (0,))


# ----------------------------------------------------------------------------------------------
# data
# ----------------------------------------------------------------------------------------------
def make_array(sdtype: str, shape, rng_range: str, seed: int, salt: str) -> np.ndarray:
    """rng_range 'full': the whole range of the stored type; 'small': |v| <= 30000 so that an int16
    request is a value-preserving (ints) or plain truncating (floats) cast."""
    rng = _common.make_rng(seed, "c11:%s:%s:%s:%s" % (sdtype, tuple(shape), rng_range, salt))
    dt = np.dtype(sdtype)
    n = int(np.prod(shape))
    if dt == np.bool_:
        x = rng.integers(0, 2, size=n).astype(np.bool_)
    elif dt.kind in "iu":
        info = np.iinfo(dt)
        lo, hi = (info.min, info.max) if rng_range == "full" else (max(info.min, -30000), min(info.max, 30000))
        x = rng.integers(lo, hi, size=n, endpoint=True, dtype=np.int64 if dt != np.uint64 else np.uint64).astype(dt)
        if n >= 3:
            x[0], x[-1] = lo, hi
            x[n // 2] = min(hi, 0x0102)  # asymmetric bytes
    elif dt.kind == "f":
        if rng_range == "full":
            x = (rng.standard_normal(n) * 10.0 ** rng.integers(-3, 6, size=n)).astype(dt)
        else:
            x = np.clip(rng.standard_normal(n) * 3000.0, -30000, 30000).astype(dt)
    else:
        raise ValueError(sdtype)
    return x.reshape(shape)


# ----------------------------------------------------------------------------------------------
# own SPHERE writer / reader (header layout as in the NIST files shipped with the repo's tests)
# ----------------------------------------------------------------------------------------------
# Statement: "For EVERY supported container (... NIST SPHERE) an array written with the container's own writer is read back
# bit-identically ... both from a file name ... and from an open binary stream with force_as" and "wds_read_signal ...
# returning None [only] for anything it cannot decode". A SPHERE header is NIST_1A, a line with the header's size (a multiple
# of 1024), "name -type value" lines in ANY order, end_head, blank padding up to the declared size; descriptive fields
# (database / speaker / session ...) may come before the ones that describe the samples. So a SPHERE writer's output is not
# only the minimal 1024-byte header: SPH_LAYOUTS are valid framings of the same array.
#   name -> (declared header size, layout)
#   short   the six sample fields right after the size line, padding up to the size (1024: what a minimal writer gives;
#           2048 / 4096: a larger, merely padded header)
#   late    descriptive fields first, so that ALL sample fields and end_head lie in the LAST 1024-byte block of the header
#   split   sample fields alternate with descriptive ones over the whole header: some in every block, one line straddling
#           each 1024-byte boundary, end_head in the last block
#   brim    descriptive fields fill the header so that end_head's newline is the very last byte of the declared size
SPH_LAYOUTS = {
    "1024": (1024, "short"),
    "pad2048": (2048, "short"),
    "pad4096": (4096, "short"),
    "late2048": (2048, "late"),
    "late3072": (3072, "late"),
    "split2048": (2048, "split"),
    "split3072": (3072, "split"),
    "brim2048": (2048, "brim"),
    "brim1024": (1024, "brim"),
}


def _sph_note(idx: int, total: int) -> bytes:
    """A descriptive string field of exactly `total` bytes including its newline."""
    head = "note_%02d -s" % idx
    for k in range(1, 400):
        ln = ("%s%d %s\n" % (head, k, "abcdefghij"[idx % 10] * k)).encode()
        if len(ln) == total:
            return ln
    raise ValueError("no descriptive line of %d bytes" % total)


def _sph_fill(buf: bytes, target: int, idx: int):
    """Append descriptive lines until len(buf) == target. -> (buf, next idx)"""
    while len(buf) < target:
        gap = target - len(buf)
        assert gap >= 14, gap
        take = 48 if gap >= 96 else (gap if gap < 62 else gap - 24)
        buf += _sph_note(idx, take)
        idx += 1
    return buf, idx


def sph_bytes(arr: np.ndarray, order: str, layout: str = "1024") -> bytes:
    a2 = arr.reshape(arr.shape[0], 1 if arr.ndim == 1 else arr.shape[1])
    hdr, lay = SPH_LAYOUTS[layout]
    fields = [("channel_count -i %d" % a2.shape[1]), ("sample_count -i %d" % a2.shape[0]), "sample_rate -i 8000", "sample_n_bytes -i 2",
              "sample_byte_format -s2 %s" % order, "sample_coding -s3 pcm"]
    fields = [(f + "\n").encode() for f in fields]
    buf = ("NIST_1A\n%7d\n" % hdr).encode()
    tail = b"".join(fields) + b"end_head\n"
    if lay == "short":
        buf += tail
    elif lay == "late":
        # database_id etc. as in the LDC corpora, then notes up to a few bytes into the last block
        buf += b"database_id -s8 TIDIGITS\nutterance_id -s9 dd_1233_a\nspeaker_id -s2 dd\nsample_min -i -2677\nsample_max -i 2234\n"
        buf, _ = _sph_fill(buf, hdr - 1024 + 20 + len(fields[1]) % 7, 0)
        buf += tail
    elif lay == "split":
        # a sample field, descriptive lines, a sample field, ...: positions chosen so that a line straddles every boundary
        stops = [hdr * (j + 1) // 7 for j in range(6)]
        idx = 0
        for f, stop in zip(fields, stops):
            for b in range(1024, hdr, 1024):
                if len(buf) < b - 40 <= stop:  # stop 17 bytes short of the boundary; the next line crosses it
                    buf, idx = _sph_fill(buf, b - 17, idx)
                    buf += _sph_note(idx, 40)
                    idx += 1
            if stop - len(buf) >= 14:
                buf, idx = _sph_fill(buf, stop, idx)
            buf += f
        buf += b"end_head\n"
    elif lay == "brim":
        buf += b"".join(fields[:3])
        buf, _ = _sph_fill(buf, hdr - len(b"".join(fields[3:])) - 9, 0)
        buf += b"".join(fields[3:]) + b"end_head\n"
        assert len(buf) == hdr
    else:
        raise ValueError(lay)
    assert len(buf) <= hdr, (len(buf), hdr)
    return buf.ljust(hdr, b" ") + a2.astype("<i2" if order == "01" else ">i2").tobytes()


def sph_own_read(blob: bytes):
    """Own reader: size from the second line, fields up to end_head anywhere in the header, samples after the header."""
    hdr = int(blob[:1024].split(b"\n")[1])
    fields = {}
    lines = blob[:hdr].split(b"\n")[2:]
    assert b"end_head" in lines
    for ln in lines:
        if ln == b"end_head":
            break
        parts = ln.decode().split()
        fields[parts[0]] = parts[2]
    c, n = int(fields["channel_count"]), int(fields["sample_count"])
    dt = "<i2" if fields["sample_byte_format"] == "01" else ">i2"
    x = np.frombuffer(blob[hdr:], dtype=dt).astype(np.int16)
    return x.reshape(n) if c == 1 else x.reshape(n, c)


def sph_describe(cont, blob: bytes) -> str:
    """For messages: how the SPHERE file at hand is framed."""
    if not cont.name.startswith("sph"):
        return ""
    try:
        return " (valid SPHERE file: header of %d bytes, first sample field at byte %d, end_head line ends at byte %d)" % sph_layout_facts(blob)
    except Exception:  # noqa
        return ""


def sph_layout_facts(blob: bytes):
    """(declared header size, offset of the first sample-describing field, offset of the end of end_head's line)"""
    hdr = int(blob[:1024].split(b"\n")[1])
    first = min(blob.index(b"\n" + k) + 1 for k in (b"channel_count", b"sample_count", b"sample_rate", b"sample_n_bytes", b"sample_byte_format", b"sample_coding"))
    return hdr, first, blob.index(b"\nend_head\n") + 10


# ----------------------------------------------------------------------------------------------
# containers
# ----------------------------------------------------------------------------------------------
HDF5_LAYOUTS = {
    # nested dict: name -> dict (group) | "A"/"B"/"C" (dataset holding that array)
    "flat": {"sig": "A"},
    "nested": {"a_grp": {"z_sub": {"deep": "A"}, "zz_ds": "C"}, "b_ds": "B"},
    "root_first": {"a_ds": "A", "b_grp": {"x": "B", "y": {"z": "C"}}},
    "empty_groups": {"a_grp": {}, "b_grp": {"c_grp": {"d": "A"}, "e": "B"}, "c_ds": "C"},
}


def hdf5_paths(layout, prefix=""):
    """Depth-first, children in name order: list of (path, label) of the datasets."""
    out = []
    for name in sorted(layout):
        v = layout[name]
        p = prefix + name
        if isinstance(v, dict):
            out += hdf5_paths(v, p + "/")
        else:
            out.append((p, v))
    return out


class Container:
    def __init__(self, name, suffix, stream_force, sdtypes, audio=False, one_d_only=False, keyed=False, variant=None,
                 extra_path_force=(), needs_dtype=False, min_len=0, sph_layout="1024"):
        self.sph_layout = sph_layout
        self.name, self.suffix, self.stream_force = name, suffix, tuple(stream_force)
        self.sdtypes, self.audio, self.one_d_only, self.keyed = tuple(sdtypes), audio, one_d_only, keyed
        self.variant, self.extra_path_force, self.needs_dtype, self.min_len = variant, tuple(extra_path_force), needs_dtype, min_len


CONTAINERS = [
    Container("wav_sf16", ".wav", ("wav", "soundfile"), ("int16",), audio=True, extra_path_force=("wav", "soundfile")),
    Container("wav_sf32", ".wav", ("wav", "soundfile"), ("int32",), audio=True, extra_path_force=("wav",)),
    Container("wav_wave16", ".wav", ("wav", "soundfile"), ("int16",), audio=True, extra_path_force=("wav",)),
    Container("wav_wave32", ".wav", ("wav", "soundfile"), ("int32",), audio=True, extra_path_force=("wav",)),
    Container("flac16", ".flac", ("flac", "soundfile"), ("int16",), audio=True),
    Container("aiff16", ".aiff", ("aiff", "soundfile"), ("int16",), audio=True),
    Container("npy", ".npy", ("npy",), ("int16", "float32", "int32", "float64", "int64", "uint8", "bool")),
    Container("npz", ".npz", ("npz",), ("int16", "float32", "float64", "int32"), keyed=True, variant="plain"),
    Container("npz_c", ".npz", ("npz",), ("int16", "float64"), keyed=True, variant="compressed"),
    Container("pt", ".pt", ("pt",), ("int16", "float32", "int32", "float64", "int64", "uint8", "bool")),
    Container("hdf5_nested", ".hdf5", ("hdf5",), ("int16", "float32", "float64", "int32"), keyed=True, variant="nested"),
    Container("hdf5_flat", ".hdf5", ("hdf5",), ("int16", "float64"), keyed=True, variant="flat"),
    Container("hdf5_root_first", ".hdf5", ("hdf5",), ("int16", "float32"), keyed=True, variant="root_first"),
    Container("hdf5_empty_groups", ".hdf5", ("hdf5",), ("int32", "float64"), keyed=True, variant="empty_groups"),
    Container("raw", ".raw", ("file",), ("int16", "float32", "int32", "float64", "uint8"), one_d_only=True, needs_dtype=True),
    Container("sph01", ".sph", ("sph",), ("int16",), audio=True, variant="01", min_len=1),
    Container("sph10", ".sph", ("sph",), ("int16",), audio=True, variant="10", min_len=1),
    # the same arrays in valid SPHERE framings other than the minimal one (see SPH_LAYOUTS)
    Container("sph10_late2048", ".sph", ("sph",), ("int16",), audio=True, variant="10", min_len=1, sph_layout="late2048"),
    Container("sph01_late3072", ".sph", ("sph",), ("int16",), audio=True, variant="01", min_len=1, sph_layout="late3072"),
    Container("sph01_split2048", ".sph", ("sph",), ("int16",), audio=True, variant="01", min_len=1, sph_layout="split2048"),
    Container("sph10_split3072", ".sph", ("sph",), ("int16",), audio=True, variant="10", min_len=1, sph_layout="split3072"),
    Container("sph01_pad2048", ".sph", ("sph",), ("int16",), audio=True, variant="01", min_len=1, sph_layout="pad2048"),
    Container("sph10_pad4096", ".sph", ("sph",), ("int16",), audio=True, variant="10", min_len=1, sph_layout="pad4096"),
    Container("sph10_brim2048", ".sph", ("sph",), ("int16",), audio=True, variant="10", min_len=1, sph_layout="brim2048"),
    Container("sph01_brim1024", ".sph", ("sph",), ("int16",), audio=True, variant="01", min_len=1, sph_layout="brim1024"),
]
CONT = {c.name: c for c in CONTAINERS}


def arrays_for(cont: Container, shape, sdtype, rng_range, seed):
    """The arrays that go into the file: A is the signal, B and C are other entries of keyed containers."""
    A = make_array(sdtype, shape, rng_range, seed, cont.name + ":A")
    out = {"A": A}
    if cont.keyed:
        out["B"] = make_array(sdtype, (shape[0] + 2,) + tuple(shape[1:]), rng_range, seed, cont.name + ":B")
        out["C"] = make_array("float32" if sdtype != "float32" else "int16", (3,), "small", seed, cont.name + ":C")
    return out


def key_table(cont: Container):
    """[(key argument, label of the array expected)] -- from the property: key selects the named entry,
    default arr_0 (npz) / first dataset depth-first (hdf5)."""
    if cont.name.startswith("npz"):
        return [(None, "A"), ("sig", "B"), ("arr_0", "A"), ("zz/other", "C")]
    if cont.name.startswith("hdf5"):
        paths = hdf5_paths(HDF5_LAYOUTS[cont.variant])
        tab = [(None, paths[0][1])]
        tab += [(p, lab) for p, lab in paths]
        return tab
    return [(None, "A")]


def write_container(cont: Container, path: str, arrs: dict):
    """Write with the container's own writer. Returns True when the container's own reader gives the array
    back (i.e. the container can hold it), else False."""
    A = arrs["A"]
    n = cont.name
    if n.startswith("wav_sf") or n in ("flac16", "aiff16"):
        import soundfile as sf

        fmt = {"wav": "WAV", "fla": "FLAC", "aif": "AIFF"}[n[:3]]
        sub = "PCM_32" if A.dtype == np.int32 else "PCM_16"
        try:
            with open(path, "wb") as f:
                sf.write(f, A, 8000, subtype=sub, format=fmt)
            back = sf.read(path, dtype=str(A.dtype))[0]
        except Exception:  # noqa
            return False
        return back.shape == A.shape and np.array_equal(back, A)
    if n.startswith("wav_wave"):
        import wave

        a2 = A.reshape(A.shape[0], 1 if A.ndim == 1 else A.shape[1])
        w = wave.open(path, "wb")
        try:
            w.setnchannels(a2.shape[1])
            w.setsampwidth(A.dtype.itemsize)
            w.setframerate(8000)
            w.writeframes(a2.astype("<i%d" % A.dtype.itemsize).tobytes())
        finally:
            w.close()
        r = wave.open(path, "rb")
        try:
            ok = r.getnchannels() == a2.shape[1] and r.getnframes() == a2.shape[0] and r.readframes(r.getnframes()) == a2.astype(
                "<i%d" % A.dtype.itemsize).tobytes()
        finally:
            r.close()
        return ok
    if n == "npy":
        with open(path, "wb") as f:
            np.save(f, A)
        return True
    if n.startswith("npz"):
        with open(path, "wb") as f:
            (np.savez_compressed if cont.variant == "compressed" else np.savez)(f, A, **{"sig": arrs["B"], "zz/other": arrs["C"]})
        return True
    if n == "pt":
        import torch

        torch.save(torch.from_numpy(A.copy()), path)
        return True
    if n.startswith("hdf5"):
        import h5py

        def fill(group, layout):
            for name, v in layout.items():
                if isinstance(v, dict):
                    fill(group.create_group(name), v)
                else:
                    group.create_dataset(name, data=arrs[v])

        with h5py.File(path, "w") as f:
            fill(f, HDF5_LAYOUTS[cont.variant])
        return True
    if n == "raw":
        A.tofile(path)
        return True
    if n.startswith("sph"):
        blob = sph_bytes(A, cont.variant, cont.sph_layout)
        with open(path, "wb") as f:
            f.write(blob)
        back = sph_own_read(blob)
        return back.shape == A.shape and np.array_equal(back, A)
    raise ValueError(n)


def shape_ok(cont: Container, shape) -> bool:
    if cont.one_d_only and len(shape) != 1:
        return False
    if shape[0] < cont.min_len:
        return False
    if cont.audio and len(shape) == 2 and shape[1] == 1:
        return False  # one channel is (n,) for audio; (n, 1) is not a shape an audio file can hold
    return True


def dtype_requests(sdtype: str, rng_range: str, cont: Container):
    """`dtype` arguments to try. int16 is requested only where the cast is value-defined (small range or the
    stored type is already int16); see the note on out-of-range narrowing in run()."""
    if cont.needs_dtype:  # raw: dtype is the interpretation of the bytes, mandatory
        return [sdtype]
    reqs = [None, "float32", "float64"]
    if rng_range == "small" or sdtype in ("int16", "uint8", "bool"):
        reqs.append("int16")
    if sdtype == "bool":
        reqs = [None, "float32", "int16"]
    return reqs


def do_read(util, case, path, blob):
    via = case["via"]
    kw = {}
    if case.get("dtype") is not None:
        kw["dtype"] = np.dtype(case["dtype"]) if case.get("dtype_as", "np") == "np" else case["dtype"]
    if case.get("key") is not None:
        kw["key"] = case["key"]
    with warnings.catch_warnings():
        warnings.simplefilter("ignore")
        if via == "path":
            if case.get("force_as"):
                kw["force_as"] = case["force_as"]
            return util.read_signal(path, **kw)
        if via == "file":
            with open(path, "rb") as f:
                return util.read_signal(f, force_as=case["force_as"], **kw)
        if via == "bytesio":
            return util.read_signal(io.BytesIO(blob), force_as=case["force_as"], **kw)
    raise ValueError(via)


def compare(out, exp, clause):
    if not isinstance(out, np.ndarray):
        return [(clause, "result is %s, not an ndarray" % type(out).__name__)]
    if out.shape != exp.shape:
        return [(clause, "shape %s, expected %s" % (out.shape, exp.shape))]
    if out.dtype != exp.dtype:
        return [(clause, "dtype %s, expected %s" % (out.dtype, exp.dtype))]
    if not np.array_equal(out, exp, equal_nan=(exp.dtype.kind == "f")):
        bad = np.argwhere(out != exp)
        i = tuple(bad[0])
        return [(clause, "%d of %d values differ, first at %s: got %r expected %r" % (len(bad), exp.size, list(map(int, i)), out[i], exp[i]))]
    return []


def check_roundtrip(case, tmpdir, util, prepared=None):
    cont = CONT[case["container"]]
    shape = tuple(case["shape"])
    if prepared is None:
        arrs = arrays_for(cont, shape, case["sdtype"], case["range"], case["seed"])
        path = os.path.join(tmpdir, case.get("fname", "sig" + cont.suffix))
        os.makedirs(os.path.dirname(path), exist_ok=True)
        if not write_container(cont, path, arrs):
            return [("C11.roundtrip_path", "container's own reader cannot read this shape back (case should have been skipped)")]
        with open(path, "rb") as f:
            blob = f.read()
    else:
        arrs, path, blob = prepared
    label = dict(key_table(cont)).get(case.get("key"), None) if cont.keyed else "A"
    if label is None:
        return [("C11.key_selects", "unknown key %r in case" % case.get("key"))]
    exp = arrs[label]
    if case.get("dtype") is not None and not cont.needs_dtype:
        with warnings.catch_warnings():
            warnings.simplefilter("ignore")
            exp = exp.astype(case["dtype"])
        clause = "C11.final_cast"
    elif case.get("kind") == "infer":
        clause = "C11.suffix_inference"
    elif cont.keyed and (case.get("key") is not None or label != "A" or cont.variant not in (None, "flat")):
        clause = "C11.key_selects"
    else:
        clause = "C11.roundtrip_path" if case["via"] == "path" else "C11.roundtrip_stream"
    try:
        out = do_read(util, case, path, blob)
    except Exception as e:  # noqa
        return [(clause, "raised %s: %s%s" % (type(e).__name__, e, sph_describe(cont, blob)))]
    return [(c, m + sph_describe(cont, blob)) for c, m in compare(out, exp, clause)]


# ----------------------------------------------------------------------------------------------
# streams that are not at position 0
# ----------------------------------------------------------------------------------------------
# flac: libsndfile's FLAC decoder addresses its virtual-io stream absolutely (it seeks to byte 0 on open), and HDF5
# addresses the file by absolute offsets from the superblock at byte 0 (h5py's file-object driver): neither can be
# handed a stream positioned inside a larger one -- on HEAD flac/hdf5 return the FIRST payload of the stream or raise
# on a junk prefix. Every other reader (wave, libsndfile wav/aiff, np.load for npy, zipfile for npz -- which locates
# the archive from the END of the stream --, torch.load, np.fromfile, the SPHERE reader) honours the position.
OFFSET_UNSUPPORTED = ("flac16", "hdf5_nested", "hdf5_flat", "hdf5_root_first", "hdf5_empty_groups")
OFFSET_SHAPES = {False: ((9, 3), (12,), (1,)), True: ((12,), (1,))}  # keyed by one_d_only
OFFSET_PREFIX_SHAPES = {False: (5, 2), True: (7,)}


def offset_prefix_container(cont: Container) -> Container:
    """The payload that sits in front: the next container variant with the same suffix (so a 16-bit wav is preceded
    by a 32-bit one written by the other writer, npz by compressed npz, sph01 by sph10, ...)."""
    fam = [c for c in CONTAINERS if c.suffix == cont.suffix and c.name not in OFFSET_UNSUPPORTED]
    return fam[(fam.index(cont) + 1) % len(fam)]


def junk_bytes(seed: int, length: int) -> bytes:
    return _common.make_rng(seed, "c11junk:%d" % length).integers(0, 256, size=length, dtype=np.uint8).tobytes()


def offset_prepare(case, tmpdir):
    """-> (arrs of the payload under test, bytes of the whole stream, offset of the payload) or None when a
    container's own reader cannot hold one of the shapes."""
    cont = CONT[case["container"]]
    arrs = arrays_for(cont, tuple(case["shape"]), case["sdtype"], case.get("range", "full"), case["seed"])
    p = os.path.join(tmpdir, "off_payload" + cont.suffix)
    if not write_container(cont, p, arrs):
        return None
    with open(p, "rb") as f:
        payload = f.read()
    os.remove(p)
    pre = case["prefix"]
    if pre["kind"] == "junk":
        prefix = junk_bytes(case["seed"], int(pre["length"]))
    elif pre["kind"] == "payload":
        pc = CONT[pre["container"]]
        parrs = arrays_for(pc, tuple(pre["shape"]), pre["sdtype"], "full", case["seed"] + 7919)
        p = os.path.join(tmpdir, "off_prefix" + pc.suffix)
        if not write_container(pc, p, parrs):
            return None
        with open(p, "rb") as f:
            prefix = f.read()
        os.remove(p)
    else:
        raise ValueError(pre["kind"])
    return arrs, prefix + payload, len(prefix)


def check_offset(case, tmpdir, util, prepared=None):
    cont = CONT[case["container"]]
    clause = "C11.stream_position"
    if prepared is None:
        prepared = offset_prepare(case, tmpdir)
        if prepared is None:
            return [(clause, "container's own reader cannot read this shape back (case should have been skipped)")]
    arrs, blob, off = prepared
    label = dict(key_table(cont)).get(case.get("key"), None) if cont.keyed else "A"
    if label is None:
        return [("C11.key_selects", "unknown key %r in case" % case.get("key"))]
    exp = arrs[label]
    kw = {}
    if case.get("dtype") is not None:
        kw["dtype"] = np.dtype(case["dtype"])
        if not cont.needs_dtype:
            with warnings.catch_warnings():
                warnings.simplefilter("ignore")
                exp = exp.astype(case["dtype"])
    if case.get("key") is not None:
        kw["key"] = case["key"]
    path = None
    try:
        with warnings.catch_warnings():
            warnings.simplefilter("ignore")
            if case["via"] == "bytesio":
                s = io.BytesIO(blob)
                s.seek(off)
                out = util.read_signal(s, force_as=case["force_as"], **kw)
            elif case["via"] == "file":
                path = os.path.join(tmpdir, "off_stream.bin")
                with open(path, "wb") as f:
                    f.write(blob)
                with open(path, "rb") as s:
                    s.seek(off)
                    out = util.read_signal(s, force_as=case["force_as"], **kw)
            else:
                raise ValueError(case["via"])
    except Exception as e:  # noqa
        return [(clause, "stream positioned at byte %d of %d: raised %s: %s%s" % (off, len(blob), type(e).__name__, e, sph_describe(cont, blob[off:])))]
    finally:
        if path is not None and os.path.exists(path):
            os.remove(path)
    return [(c, "stream positioned at byte %d of %d: %s%s" % (off, len(blob), m, sph_describe(cont, blob[off:]))) for c, m in compare(out, exp, clause)]


def enumerate_offsets(tier, seed):
    """Yield (base case, cases sharing one stream content)."""
    quick = tier == "quick"
    for cont in CONTAINERS:
        if cont.name in OFFSET_UNSUPPORTED:
            continue
        pc = offset_prefix_container(cont)
        for shape in OFFSET_SHAPES[cont.one_d_only]:
            if not shape_ok(cont, shape):
                continue
            for si, sdtype in enumerate(cont.sdtypes):
                if quick and shape != OFFSET_SHAPES[cont.one_d_only][0] and si > 0:
                    continue
                prefixes = [dict(kind="payload", container=pc.name, shape=list(OFFSET_PREFIX_SHAPES[cont.one_d_only]), sdtype=pc.sdtypes[-1 - si % len(pc.sdtypes)]),
                            dict(kind="junk", length=[1, 44, 1000, 1024, 37][(si + len(shape) + shape[0]) % 5])]
                if not quick:
                    prefixes += [dict(kind="junk", length=n) for n in (1, 2, 1024, 4096, 16384 + 3)]
                for pre in prefixes:
                    base = dict(kind="offset", container=cont.name, shape=list(shape), sdtype=sdtype, range="full", seed=seed, prefix=pre)
                    cases = []
                    for fa in cont.stream_force:
                        for via in ("bytesio", "file"):
                            if fa == "file" and via == "bytesio":
                                continue  # np.fromfile needs a real file object
                            dts = [sdtype] if cont.needs_dtype else [None, "float64"]
                            for dt in dts:
                                for key, _lab in key_table(cont):
                                    if dt is not None and key is not None and not cont.needs_dtype:
                                        continue
                                    c = dict(base, via=via, force_as=fa)
                                    if dt is not None:
                                        c["dtype"] = dt
                                    if key is not None:
                                        c["key"] = key
                                    cases.append(c)
                    yield base, cases


# ----------------------------------------------------------------------------------------------
# error clauses
# ----------------------------------------------------------------------------------------------
BAD_NAMES = ("noext", "sig.txt", "sig.raw", "sig.bin", "sig.wavx", "sig.npy.bak", "sig.mp3", "sig.npy ", "npy", "sig.", "sig.pth",
             "sig.np", "sig.npyz", "sig.hdf", "sig.sphere", "wav", "sig.npy.txt", "sig_npy", "sig.kaldi")
BAD_FORCE = ("mp3", "xyz", "", "WAV", "numpy", "h5", "torch", "raw", "binary", " npy", "npy ", "sphere")


def valid_npy_bytes(seed):
    b = io.BytesIO()
    np.save(b, make_array("float32", (7,), "small", seed, "err"))
    return b.getvalue()


def check_error(case, tmpdir, util):
    sub = case["sub"]
    blob = valid_npy_bytes(case["seed"])
    want, clause = {
        "no_suffix": (IOError, "C11.no_suffix_ioerror"),
        "stream_no_force_as": (ValueError, "C11.stream_needs_force_as"),
        "unknown_force_as": (ValueError, "C11.unknown_force_as"),
        "kaldi_stream": (ValueError, "C11.kaldi_stream"),
    }[sub]
    kw = {}
    if case.get("dtype"):
        kw["dtype"] = case["dtype"]
    if case.get("key"):
        kw["key"] = case["key"]
    path = os.path.join(tmpdir, case.get("name", "err.npy"))
    with open(path, "wb") as f:
        f.write(blob)
    fh = None
    try:
        with warnings.catch_warnings():
            warnings.simplefilter("ignore")
            if sub == "no_suffix":
                out = util.read_signal(path, **kw)
            else:
                if case["via"] == "path":
                    src = path
                elif case["via"] == "file":
                    src = fh = open(path, "rb")
                else:
                    src = io.BytesIO(blob)
                if sub != "stream_no_force_as":
                    kw["force_as"] = case["force_as"]
                out = util.read_signal(src, **kw)
    except BaseException as e:  # noqa
        if isinstance(e, want) and (want is IOError or not isinstance(e, IOError)):
            return []
        return [(clause, "raised %s (%s), expected %s" % (type(e).__name__, e, want.__name__))]
    finally:
        if fh is not None:
            fh.close()
        if os.path.exists(path):
            os.remove(path)
    return [(clause, "returned %s, expected %s" % (type(out).__name__, want.__name__))]


# ----------------------------------------------------------------------------------------------
# wds_read_signal
# ----------------------------------------------------------------------------------------------
WDS_CONTAINERS = ("wav_sf16", "wav_wave32", "flac16", "aiff16", "npy", "npz", "pt", "hdf5_nested", "hdf5_flat", "sph01", "sph10",
                  "sph10_late2048", "sph01_late3072", "sph01_split2048", "sph10_brim2048")
WDS_SUFFIXES = ("wav", "flac", "aiff", "ogg", "npy", "npz", "pt", "hdf5", "sph", "txt", "", "file", "raw", "json")
MAGICS = {
    "riff": b"RIFF\x24\x08\x00\x00WAVEfmt \x10\x00\x00\x00\x01\x00\x01\x00\x40\x1f\x00\x00\x80\x3e\x00\x00\x02\x00\x10\x00data\x00\x08\x00\x00",
    "flac": b"fLaC\x00\x00\x00\x22",
    "aiff": b"FORM\x00\x00\x10\x00AIFFCOMM\x00\x00\x00\x12",
    "ogg": b"OggS\x00\x02",
    "npy": b"\x93NUMPY\x01\x00\x76\x00{'descr': '<f4', 'fortran_order': False, 'shape': (1000,), }",
    "npy_short": b"\x93NUMPY\x01\x00",
    "zip": b"PK\x03\x04\x14\x00\x00\x00\x00\x00",
    "hdf5": b"\x89HDF\r\n\x1a\n\x00\x00\x00\x00\x00\x08\x08\x00\x04\x00\x10\x00",
    "sph": b"NIST_1A\n   1024\n",
    "sph_fields": b"NIST_1A\n   1024\nchannel_count -i 2\nsample_count -i 100\nsample_rate -i 8000\nsample_n_bytes -i 2\nsample_byte_format -s2 01\nend_head\n",
    "sph_nonint": b"NIST_1A\n   abcd\nchannel_count -i x\n",
    "pickle": b"\x80\x02}q\x00.",
    "pickle_reduce": b"\x80\x02cbuiltins\nSystemExit\nq\x00)Rq\x01.",
}
MAGIC_SUFFIX = {"riff": "wav", "flac": "flac", "aiff": "aiff", "ogg": "ogg", "npy": "npy", "npy_short": "npy", "zip": "npz", "hdf5": "hdf5",
                "sph": "sph", "sph_fields": "sph", "sph_nonint": "sph", "pickle": "pt", "pickle_reduce": "pt"}


ODD_RETURNS = []


def wds_key(suffix, style):
    base = {0: "utt1", 1: "a/b/utt.x", 2: "s01.wav.npy.tmp"}[style]
    return base + ("." + suffix if suffix else "")


def wds_valid_blob(case, tmpdir):
    cont = CONT[case["container"]]
    arrs = arrays_for(cont, tuple(case["shape"]), case["sdtype"], "full", case["seed"])
    path = os.path.join(tmpdir, "wds" + cont.suffix)
    ok = write_container(cont, path, arrs)
    with open(path, "rb") as f:
        blob = f.read()
    os.remove(path)
    return cont, arrs, blob, ok


def call_wds(util, key, data):
    """-> (raised?, value or exception)"""
    import sys

    hook = sys.unraisablehook
    sys.unraisablehook = lambda *a, **k: None  # libsndfile's virtual-io callbacks complain on stderr for garbage
    try:
        with warnings.catch_warnings():
            warnings.simplefilter("ignore")
            try:
                return False, util.wds_read_signal(key, data)
            except BaseException as e:  # noqa -- the clause is literally "never raises"
                return True, e
    finally:
        sys.unraisablehook = hook


def check_wds(case, tmpdir, util):
    sub = case["sub"]
    if sub == "valid":
        cont, arrs, blob, ok = wds_valid_blob(case, tmpdir)
        key = wds_key(cont.suffix[1:], case.get("style", 0))
        raised, val = call_wds(util, key, blob)
        if raised:
            return [("C11.wds_never_raises", "raised %s: %s" % (type(val).__name__, val))]
        exp = arrs[dict(key_table(cont))[None]]
        if val is None:
            return [("C11.wds_valid", "returned None for valid %s bytes under key %r%s" % (cont.name, key, sph_describe(cont, blob)))]
        return [(c, m + sph_describe(cont, blob)) for c, m in compare(val, exp, "C11.wds_valid")]
    must_be_none = False
    if sub == "random":
        rng = _common.make_rng(case["seed"], "c11wds:%d" % case["length"])
        data = rng.integers(0, 256, size=case["length"], dtype=np.uint8).tobytes()
        key = case["key"]
        # libsndfile sniffs the format (incl. MPEG sync words) whatever the suffix says: if it does decode random
        # bytes that is a decode, not a violation; every other reader needs a magic number random bytes lack
        must_be_none = key.rsplit(".", 1)[-1] not in ("flac", "aiff", "ogg")
    elif sub == "magic":
        rng = _common.make_rng(case["seed"], "c11magic:%s:%d" % (case["magic"], case["length"]))
        data = MAGICS[case["magic"]] + rng.integers(0, 256, size=case["length"], dtype=np.uint8).tobytes()
        key = wds_key(MAGIC_SUFFIX[case["magic"]], case.get("style", 0))
    elif sub in ("truncated", "flipped", "wrong_suffix"):
        cont, arrs, blob, ok = wds_valid_blob(case, tmpdir)
        key = wds_key(cont.suffix[1:], case.get("style", 0))
        if sub == "truncated":
            data = blob[: max(0, min(len(blob), int(round(case["frac"] * len(blob))) + case.get("plus", 0)))]
        elif sub == "flipped":
            rng = _common.make_rng(case["seed"], "c11flip:%s" % case["container"])
            b = bytearray(blob)
            for _ in range(case["flips"]):
                pos = int(rng.integers(0, min(len(b), case.get("within", len(b)))))
                b[pos] ^= 1 << int(rng.integers(0, 8))
            data = bytes(b)
        else:
            data = blob
            key = wds_key(case["suffix"], 0)
            must_be_none = case["suffix"] in ("txt", "", "file", "raw", "json")
    elif sub == "kaldi_key":
        data = valid_npy_bytes(case["seed"])
        key = case["key"]
        must_be_none = True
    else:
        raise ValueError(sub)
    raised, val = call_wds(util, key, data)
    if raised:
        return [("C11.wds_never_raises", "key %r, %d bytes: raised %s: %s" % (key, len(data), type(val).__name__, val))]
    if must_be_none and val is not None:
        return [("C11.wds_none", "key %r, %d undecodable bytes: returned %s" % (key, len(data), type(val).__name__))]
    if val is not None and not isinstance(val, np.ndarray):
        # not a clause of the statement (it only says: no exception, None when undecodable); tallied in a note
        ODD_RETURNS.append("%s bytes under key %r -> %s" % (case.get("container", sub), key, type(val).__name__))
    return []


# ----------------------------------------------------------------------------------------------
def check_case(case, tmpdir, util, prepared=None):
    kind = case["kind"]
    if kind in ("roundtrip", "infer"):
        return check_roundtrip(case, tmpdir, util, prepared)
    if kind == "offset":
        return check_offset(case, tmpdir, util, prepared)
    if kind == "error":
        return check_error(case, tmpdir, util)
    if kind == "wds":
        return check_wds(case, tmpdir, util)
    raise ValueError(kind)


INFER_NAMES = (
    ("sig.wav.npy", "npy"), ("sig.npz.npy", "npy"), ("sig.npy.npz", "npz"), ("sig.pt.hdf5", "hdf5_nested"), ("sig.sph.pt", "pt"),
    ("sig.hdf5.sph", "sph01"), ("sig.npy.wav", "wav_sf16"), ("sig.npz.flac", "flac16"), ("a.b.c.aiff", "aiff16"),
    ("dir.npy/sig.npz", "npz"), ("dir.wav/sig.npy", "npy"), ("ark.npy", "npy"), ("scp.pt", "pt"), (".npy", "npy"), ("x|.npz", "npz"),
    ("dir.sph/x.hdf5", "hdf5_flat"), ("sig.flac.wav", "wav_wave16"), ("sig.txt.sph", "sph10"),
)


def enumerate_groups(tier, seed):
    """Yield (group descriptor, list of cases sharing one written file) for round trips; single cases otherwise."""
    quick = tier == "quick"
    # --- round trips: most structure first (multi-channel, keyed), then the rest; then seeded random shapes
    rng = _common.make_rng(seed, "c11shapes")
    plan = [(shape, seed) for shape in SHAPES]
    for i in range(2 if quick else 16):
        n = int(rng.integers(2, 400))
        plan.append((((n,) if i % 2 else (n, int(rng.integers(1, 7)))), int(rng.integers(0, 2 ** 31))))
    if not quick:
        plan += [(shape, seed + 1 + r) for r in range(2) for shape in SHAPES]
    # data sections longer than the SPHERE reader's 16 KiB block with channel counts that do not divide it (3, 5, 6, 7 channels): a
    # block boundary then falls INSIDE a multi-channel sample; only for the plain SPHERE containers (the other readers have no blocks)
    big = [((2800, 3), seed), ((1700, 5), seed), ((1400, 6), seed + 1), ((1200, 7), seed + 2)]
    plan = plan[:2] + [(sh, ds, ("sph01", "sph10")) for sh, ds in (big[:2] if quick else big)] + plan[2:]
    for entry in plan:
        shape, dseed = entry[0], entry[1]
        only = entry[2] if len(entry) > 2 else None
        for cont in CONTAINERS:
            if only is not None and cont.name not in only:
                continue
            if not shape_ok(cont, shape):
                continue
            for si, sdtype in enumerate(cont.sdtypes):
                for rng_range in ("full", "small"):
                    if rng_range == "small" and sdtype in ("uint8", "bool"):
                        continue
                    base = dict(kind="roundtrip", container=cont.name, shape=list(shape), sdtype=sdtype, range=rng_range, seed=dseed)
                    cases = []
                    readers = [("path", None)] + [("path", fa) for fa in cont.extra_path_force]
                    if cont.needs_dtype:
                        readers = [("path", "file")]
                    for fa in cont.stream_force:
                        readers.append(("file", fa))
                        if fa != "file":  # np.fromfile needs a real file object
                            readers.append(("bytesio", fa))
                    for via, fa in readers:
                        for dt in dtype_requests(sdtype, rng_range, cont):
                            if rng_range == "small" and dt != "int16" and not cont.needs_dtype:
                                continue  # the small-range file exists for the int16 request
                            for key, _lab in key_table(cont):
                                c = dict(base, via=via)
                                if fa:
                                    c["force_as"] = fa
                                if dt is not None:
                                    c["dtype"] = dt
                                if key is not None:
                                    c["key"] = key
                                cases.append(c)
                    yield base, cases
    # a dtype given as a string / type object rather than np.dtype
    for cont_name in ("npy", "pt", "wav_sf16", "hdf5_nested", "npz", "sph01"):
        cont = CONT[cont_name]
        base = dict(kind="roundtrip", container=cont_name, shape=[7], sdtype=cont.sdtypes[0], range="small", seed=seed)
        yield base, [dict(base, via="path", dtype="float64", dtype_as="str"), dict(base, via="bytesio", force_as=cont.stream_force[0], dtype="int16", dtype_as="str")]
    # --- suffix inference on odd names
    for fname, cname in INFER_NAMES:
        cont = CONT[cname]
        base = dict(kind="infer", container=cname, shape=[5, 2] if not cont.one_d_only else [7], sdtype=cont.sdtypes[0], range="full", seed=seed, fname=fname)
        yield base, [dict(base, via="path"), dict(base, via="path", dtype="float32")]


def enumerate_singles(tier, seed):
    quick = tier == "quick"
    for name in BAD_NAMES:
        yield dict(kind="error", sub="no_suffix", name=name, seed=seed)
        yield dict(kind="error", sub="no_suffix", name=name, seed=seed, dtype="float32", key="arr_0")
    for via in ("bytesio", "file"):
        yield dict(kind="error", sub="stream_no_force_as", via=via, seed=seed)
        yield dict(kind="error", sub="stream_no_force_as", via=via, seed=seed, dtype="float64")
        for fa in ("kaldi", "table"):
            yield dict(kind="error", sub="kaldi_stream", via=via, force_as=fa, seed=seed)
            yield dict(kind="error", sub="kaldi_stream", via=via, force_as=fa, seed=seed, dtype="float32", key="a")
    for fa in BAD_FORCE:
        for via in ("path", "bytesio", "file"):
            yield dict(kind="error", sub="unknown_force_as", via=via, force_as=fa, seed=seed)
    # wds: valid bytes
    for cname in WDS_CONTAINERS:
        cont = CONT[cname]
        for shape in ((64, 3), (7,), (5, 2), (1,)):
            if not shape_ok(cont, shape):
                continue
            for style in (0, 1, 2):
                yield dict(kind="wds", sub="valid", container=cname, shape=list(shape), sdtype=cont.sdtypes[0], seed=seed, style=style)
    for key in ("ark:foo.npy", "scp,p:x.npy", "ark,s,cs:-", "cat x.npy |", "x.npy|"):
        yield dict(kind="wds", sub="kaldi_key", key=key, seed=seed)
    for cname in WDS_CONTAINERS:
        for sfx in WDS_SUFFIXES:
            if "." + sfx == CONT[cname].suffix:
                continue
            yield dict(kind="wds", sub="wrong_suffix", container=cname, shape=[7], sdtype=CONT[cname].sdtypes[0], seed=seed, suffix=sfx)
    # wds: truncated valid files
    for cname in WDS_CONTAINERS:
        for frac, plus in ((0.0, 0), (0.0, 1), (0.0, 7), (0.0, 12), (0.0, 44), (0.0, 100), (0.25, 0), (0.5, 0), (0.5, 1), (0.9, 0), (1.0, -1), (1.0, -2)):
            yield dict(kind="wds", sub="truncated", container=cname, shape=[64, 3] if not CONT[cname].one_d_only else [100], sdtype=CONT[cname].sdtypes[0],
                       seed=seed, frac=frac, plus=plus)
    # wds: magic-prefixed garbage
    for m in MAGICS:
        for length in (0, 1, 40, 1000, 5000):
            for rep in range(2 if quick else 10):
                yield dict(kind="wds", sub="magic", magic=m, length=length, seed=seed + rep, style=rep % 3)
    # wds: random bytes x suffixes
    rng = _common.make_rng(seed, "c11wdsrandom")
    n_rand = 300 if quick else 1500
    lengths = (0, 1, 3, 16, 100, 1024, 5000)
    for i in range(n_rand):
        length = lengths[i % len(lengths)] if i < 2 * len(lengths) else int(rng.integers(0, 6000))
        s = int(rng.integers(0, 2 ** 31))
        sfxs = WDS_SUFFIXES[:9] if quick else WDS_SUFFIXES
        for sfx in sfxs:
            yield dict(kind="wds", sub="random", key=wds_key(sfx, i % 3), length=length, seed=s)
    # wds: bit-flipped valid files (not hdf5: a corrupted HDF5 superblock can abort the process inside libhdf5)
    for cname in WDS_CONTAINERS:
        if cname.startswith("hdf5"):
            continue
        for rep in range(6 if quick else 60):
            yield dict(kind="wds", sub="flipped", container=cname, shape=[64, 3] if not CONT[cname].one_d_only else [100], sdtype=CONT[cname].sdtypes[0],
                       seed=seed + 1000 + rep, flips=1 + rep % 4, within=[64, 1100, 10 ** 9][rep % 3])


def narrowing_note(util, tmpdir):
    """Informational: what an out-of-range int16 request gives per container (not judged, see report)."""
    try:
        import h5py

        x = np.array([70000, -70000, 5], dtype=np.int32)
        p = os.path.join(tmpdir, "narrow.hdf5")
        with h5py.File(p, "w") as f:
            f.create_dataset("x", data=x)
        q = os.path.join(tmpdir, "narrow.npy")
        np.save(q, x)
        with warnings.catch_warnings():
            warnings.simplefilter("ignore")
            h = util.read_signal(p, dtype=np.int16).tolist()
            n = util.read_signal(q, dtype=np.int16).tolist()
        return ("out-of-range narrowing is NOT compared (int16 is requested only on data within +-30000): int32 [70000,-70000,5] read with dtype=int16 "
                "gives %s from hdf5 (HDF5 conversion saturates) and %s from npy (numpy astype wraps) -- the 'final cast' is not the same function in every helper" % (h, n))
    except Exception as e:  # noqa
        return "narrowing probe failed: %s" % e


def run(tier: str, seed: int) -> dict:
    _common.use_repo()
    from pydrobert.speech import util

    col = _common.Collector(PROPERTY, tier, seed, budget_s=50 if tier == "quick" else 560)
    del ODD_RETURNS[:]
    tmpdir = tempfile.mkdtemp(prefix="c11_")
    per = {}
    skipped = []
    stop = False

    def account(case, fails, nontrivial=True):
        k = case["kind"] + (":" + case["sub"] if "sub" in case else ":" + case["container"])
        col.case(case, nontrivial=nontrivial, sample=case if per.get(case["kind"] + case.get("sub", ""), 0) == 0 else None)
        per[case["kind"] + case.get("sub", "")] = per.get(case["kind"] + case.get("sub", ""), 0) + 1
        per[k] = per.get(k, 0) + 1
        for clause, msg in fails:
            # at most 2 recorded failures per (clause, container / sub-kind), so that one defect seen through the first clause in the
            # plan does not use up the failure cap before the other access paths are reached; the others are tallied in a note
            fk = (clause, case.get("container", case.get("sub")))
            seen[fk] = seen.get(fk, 0) + 1
            if seen[fk] <= 2:
                col.fail(clause, case, msg)

    seen = {}
    try:
        # interleave: error clauses and wds first 400 singles are cheap -> run the structured singles first
        singles = enumerate_singles(tier, seed)
        cheap = []
        for c in singles:
            if c["kind"] == "wds" and c["sub"] in ("random", "flipped", "magic"):
                rest_first = c
                break
            cheap.append(c)
        else:
            rest_first = None
        for c in cheap:
            account(c, check_case(c, tmpdir, util))
        for base, cases in enumerate_offsets(tier, seed):
            if col.out_of_time() or col.too_many_failures():
                stop = True
                break
            prepared = offset_prepare(base, tmpdir)
            if prepared is None:
                skipped.append("%s%s@offset" % (base["container"], tuple(base["shape"])))
                continue
            cont = CONT[base["container"]]
            for c in cases:
                lab = dict(key_table(cont)).get(c.get("key"), "A")
                account(c, check_case(c, tmpdir, util, prepared=prepared), nontrivial=prepared[0][lab].size > 0 and prepared[2] > 0)
        for base, cases in enumerate_groups(tier, seed):
            if stop or col.out_of_time() or col.too_many_failures():
                stop = True
                break
            cont = CONT[base["container"]]
            arrs = arrays_for(cont, tuple(base["shape"]), base["sdtype"], base["range"], base["seed"])
            path = os.path.join(tmpdir, base.get("fname", "sig" + cont.suffix))
            os.makedirs(os.path.dirname(path), exist_ok=True)
            if not write_container(cont, path, arrs):
                skipped.append("%s%s" % (cont.name, tuple(base["shape"])))
                continue
            with open(path, "rb") as f:
                blob = f.read()
            for c in cases:
                # a case is non-trivial when the expected array has at least one element
                lab = dict(key_table(cont)).get(c.get("key"), "A")
                account(c, check_case(c, tmpdir, util, prepared=(arrs, path, blob)), nontrivial=arrs[lab].size > 0)
            try:
                os.remove(path)
            except OSError:
                pass
        if not stop and rest_first is not None:
            import itertools

            for c in itertools.chain([rest_first], singles):
                if col.out_of_time() or col.too_many_failures():
                    stop = True
                    break
                account(c, check_case(c, tmpdir, util))
        if stop:
            col.note("stopped early: " + ("time budget" if col.out_of_time() else "failure cap"))
        col.note(narrowing_note(util, tmpdir))
        if ODD_RETURNS:
            col.note("wds_read_signal returned something that is neither None nor an ndarray in %d calls (not judged: the statement only forbids "
                     "exceptions), e.g. %s" % (len(ODD_RETURNS), ODD_RETURNS[:3]))
    finally:
        shutil.rmtree(tmpdir, ignore_errors=True)
    more = {k: v - 2 for k, v in seen.items() if v > 2}
    if more:
        col.note("further failing cases not listed (only 2 per clause and container are recorded): " + ", ".join("%s/%s=%d" % (k[0], k[1], v) for k, v in sorted(more.items(), key=str)))
    col.note("cases: " + ", ".join("%s=%d" % kv for kv in sorted(per.items()) if ":" not in kv[0]))
    col.note("round-trip cases per container: " + ", ".join("%s=%d" % (k.split(":")[1], v) for k, v in sorted(per.items()) if k.startswith("roundtrip:")))
    col.note("stream-position cases per container: " + ", ".join("%s=%d" % (k.split(":")[1], v) for k, v in sorted(per.items()) if k.startswith("offset:")))
    col.note("C11.stream_position is NOT run for %s: libsndfile's FLAC decoder and libhdf5 (h5py file-object driver) address the stream absolutely from byte 0, "
             "so on HEAD a flac/hdf5 payload that follows another one in the same stream reads back as the FIRST payload and a junk prefix raises; read_signal passes the "
             "stream through unchanged, i.e. these two containers need a stream that starts at the payload. npz works at an offset only because zipfile locates the archive "
             "from the END of the stream (the payload under test is always the last thing in the stream); raw reads to EOF, so the expected value is the second payload only" % (
                 ", ".join(OFFSET_UNSUPPORTED),))
    facts = []
    for c in CONTAINERS:
        if c.name.startswith("sph"):
            hdr, first, end = sph_layout_facts(sph_bytes(make_array("int16", (64, 3), "full", seed, "facts"), c.variant, c.sph_layout))
            facts.append("%s: header %d, first sample field at byte %d, end_head line ends at byte %d" % (c.name, hdr, first, end))
    col.note("SPHERE framings (each read by name, from an open file, from a BytesIO, at a stream offset behind another SPHERE payload / junk, and -- four of "
             "the long ones -- through wds_read_signal, incl. truncated / bit-flipped): " + "; ".join(facts))
    col.note("shapes skipped because the container's own reader cannot give them back: %s; SPHERE (0,) skipped (a zero sample_count is rejected as a missing field, see C12); "
             "raw holds 1-d only and needs dtype to interpret the bytes; np.fromfile needs a real file object, so raw has no BytesIO path; "
             "bit-flipped HDF5 bytes are not fed to wds_read_signal (libhdf5 may abort the process)" % (sorted(set(skipped)) or "none"))
    return col.result(
        rule="one case = one read_signal / wds_read_signal call on a file written here with the container's own writer (or on crafted bytes / names for the "
             "error and wds clauses); a round-trip case is non-trivial when the expected array is non-empty, every error / wds case counts",
        bound="25 container variants (wav 16/32 by soundfile and by wave, flac16, aiff16, npy, npz plain/compressed 3 entries, pt, hdf5 in 4 group layouts, raw, "
              "sph both byte orders with the minimal 1024-byte header + 8 other valid SPHERE framings: headers of 2048 / 3072 bytes whose sample fields all lie in "
              "the last 1024-byte block behind descriptive fields, or are spread over all blocks with a line straddling each block boundary, headers of 2048 / 4096 "
              "bytes that are merely padded, headers of 1024 / 2048 bytes filled to the last byte by end_head) x shapes {(0,),(1,),(7,),(100,),(5,2),(64,3)} + %d seeded random shapes x stored dtypes x {name, name+force_as, open file, BytesIO} x "
              "dtype {None,f32,f64,i16 (in-range data)} x every key; streams positioned off byte 0: 20 container variants (all but flac/hdf5) x shapes {(9,3),(12,),(1,)} x "
              "{after another payload of the same family, after 1..1024 junk bytes} x {open file, BytesIO} x force_as x dtype {None,f64} x every key; 19 suffix-less names, 12 unknown force_as; wds: valid bytes of 15 containers (4 of them SPHERE with a long header) x 3 key styles, "
              "%s random byte strings x %d suffixes, 13 magic prefixes + garbage, 12 truncations and bit flips of each valid file" % (
                  2 if tier == "quick" else 16, "300" if tier == "quick" else "1500", 9 if tier == "quick" else len(WDS_SUFFIXES)),
        assumptions=["A-IO-CONTAINER", "A-IO-STREAM"],
    )


def replay(case: dict):
    _common.use_repo()
    from pydrobert.speech import util

    tmpdir = tempfile.mkdtemp(prefix="c11r_")
    try:
        case = dict(case)
        case.setdefault("seed", 0)
        if case.get("kind") in ("roundtrip", "infer"):
            case.setdefault("range", "full")
            case.setdefault("via", "path")
        if case.get("kind") == "offset":
            case.setdefault("range", "full")
            case.setdefault("via", "bytesio")
            case.setdefault("prefix", {"kind": "junk", "length": 44})
            case.setdefault("force_as", CONT[case["container"]].stream_force[0])
        fails = check_case(case, tmpdir, util)
    finally:
        shutil.rmtree(tmpdir, ignore_errors=True)
    if fails:
        return False, "; ".join("%s: %s" % f for f in fails)
    return True, "C11 holds on %s" % (case,)


if __name__ == "__main__":
    from rtc import _common
    import sys

    _common.main(sys.modules[__name__])

"""Replay of counterexamples of the shorten bit-reader contract (contracts/shorten.py) on the REAL code.

`uvar_get` / `var_get` are closures of _sphere.copy_shortened_samples and cannot be called from outside. The replay executes
their source text - extracted mechanically from the tree under check on every call, never copied - in CPython, in a namespace
that provides what the closure captures: `masktab` (built by executing the enclosing function's own table-building statements),
the module's integer constants, and `word_get` delivering the words of the case. The result is compared with a bit-by-bit
reading of the same stream written from the property statement (q zero bits, a one, nbin bits, most significant first).
"""
import ast

from pyvc import extract
from rtc import _common


def _namespace(words):
    fx = extract.get_function("_sphere", "copy_shortened_samples")
    env = {k: v for k, v in extract.module_constants("_sphere").items() if isinstance(v, int)}
    import numpy as np
    env["np"] = np
    stmts, on = [], False
    for s in fx.node.body:
        if ast.unparse(s).startswith("masktab ="):
            on = True
        if on:
            if isinstance(s, ast.FunctionDef):
                break
            stmts.append(s)
    exec(compile(ast.Module(body=stmts, type_ignores=[]), "<masktab>", "exec"), env)
    it = iter(words)
    state = {"used": 0}

    def word_get():
        state["used"] += 1
        w = next(it) & 0xFFFFFFFF
        return w - (1 << 32) if w & 0x80000000 else w  # struct.unpack('>l'): signed

    env["word_get"] = word_get
    for name in ("uvar_get", "var_get"):
        f = extract.get_function("_sphere", "copy_shortened_samples.<locals>." + name)
        exec(compile(ast.Module(body=[f.node], type_ignores=[]), "<%s>" % name, "exec"), env)
    return env, state


def _bits(g, nbitget, words):
    out = [(g >> i) & 1 for i in range(nbitget - 1, -1, -1)]
    for w in words:
        out += [((w & 0xFFFFFFFF) >> i) & 1 for i in range(31, -1, -1)]
    return out


def replay_bitreader(case):
    _common.use_repo()
    if case["fn"] == "var_get":
        env, _ = _namespace([])
        u = int(case["uvar"])
        env["uvar_get"] = lambda nbin: u
        got = env["var_get"](int(case.get("nbin", 0)))
        want = u // 2 if u % 2 == 0 else -(u + 1) // 2
        return got == want, "var_get on uvar_get()=%d returned %d, the zig-zag inverse is %d" % (u, got, want)
    g, nb, words, nbin = int(case["g"]), int(case["nbitget"]), [int(w) for w in case["words"]], int(case["nbin"])
    env, state = _namespace(words)
    f = env["uvar_get"]
    gs = (g & 0xFFFFFFFF)
    f.gbuffer = gs - (1 << 32) if gs & 0x80000000 else gs
    f.nbitget = nb
    bits = _bits(gs, nb, words)
    q = 0
    while q < len(bits) and bits[q] == 0:
        q += 1
    if q + 1 + nbin > len(bits):
        return True, "stream too short for this code (outside the precondition)"
    want = q
    for b in bits[q + 1:q + 1 + nbin]:
        want = (want << 1) | b
    try:
        got = f(nbin)
    except StopIteration:
        return False, "uvar_get(%d) asked for more words than the code needs (q=%d)" % (nbin, q)
    except Exception as e:
        return False, "uvar_get(%d) raised %s: %s" % (nbin, type(e).__name__, e)
    consumed = state["used"] * 32 - f.nbitget + nb
    if got != want:
        return False, "uvar_get(%d) at nbitget=%d returned %d; the stream holds q=%d zeros, a one and the field, i.e. %d" % (nbin, nb, got, q, want)
    if consumed != q + 1 + nbin:
        return False, "uvar_get(%d) consumed %d bits, the code is %d bits long" % (nbin, consumed, q + 1 + nbin)
    rest = bits[consumed:consumed + f.nbitget]
    have = [(f.gbuffer >> i) & 1 for i in range(f.nbitget - 1, -1, -1)]
    if rest != have:
        return False, "after uvar_get(%d) the unread bits of gbuffer are not the next bits of the stream" % nbin
    return True, "uvar_get(%d) = %d, %d bits consumed" % (nbin, got, consumed)

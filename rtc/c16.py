"""Bounded stand-in for C16: Standardize normalises with exactly the statistics it was given.

Clauses (from the property statement)
  C16.global_values        with accumulated statistics apply == (x - mean)/std (x - mean when norm_var False), mean and
                           POPULATION variance of all vectors accumulated so far, computed in one shot by numpy
  C16.additive             every split / order / axis / vector-vs-tensor presentation of the same vectors gives the
                           same transform (each plan is compared with the one-shot oracle AND with the first plan)
  C16.loaded_values        the same with statistics loaded from a file (the file is written by the stand-in from sums
                           it computed itself, not by Standardize.save), also after accumulating more on top
  C16.local_values / C16.local_moments
                           without statistics a tensor is standardised with its own moments over the other axes;
                           result has mean 0 and (norm_var) variance 1
  C16.dtype_shape          result is float64 and has the input's shape
  C16.have_stats           falsy before the first vector, truthy afterwards
  C16.mismatch_raises      a mismatching feature dimension raises ValueError (accumulate and apply, vectors and
                           tensors) and leaves statistics and input as they were
  C16.input_unmodified     inputs of accumulate, and of apply unless in_place, keep their bytes (they are read-only)
  C16.in_place             with in_place and a float64 input the values are still right (the result may be the input)
  C16.raises               the real code raised inside the quantifier
  C16.axis_names           part "axes": "per coefficient of the chosen axis" / "along any axis, as vectors or tensors" for EVERY
                           legal name of every axis: rank 1..4, each position p named p and p - rank (so a vector's only axis
                           is named 0 and -1), python int or numpy integer, C / F / strided layout, for accumulate, apply with
                           statistics (in_place False and True), apply without statistics and the mismatch ValueError
  part "many" (first in the enumeration)
                           "mean and variance are those of all feature vectors accumulated so far; accumulation is additive, so
                           any split or order of the same vectors across accumulate calls - along any axis, as vectors or tensors
                           - gives the same transform" for tensors of MANY vectors: N at, one below and one above every power of
                           two 2^8..2^13 (thorough 2^6..2^14, also +-2) and some multiples (3*1024, 5*512, 3*256, 2000, 3*4096,
                           1000, ...), i.e. at and around any plausible internal block length; 1..3 coefficients (cheap). The N
                           vectors are given whole as ONE tensor in six rank 2..4 presentations (coefficient axis first, middle,
                           last; C and F order), in two calls (cut at N//2, at the largest power of two below N, one vector off
                           either end), in random chunks in random order, after a few single vectors, and vector by vector; each
                           history against the one-shot numpy moments (C16.additive, naming a history that does give the right
                           transform). Also apply() on the N-vector tensor itself with statistics (C16.global_values) and without
                           (C16.local_values), in and out of place.

Tolerance: rtol 1e-9 on well-conditioned data: every coefficient has (mean^2 + var)/var <= 1e4, so the cancellation in
E[x^2] - mean^2 stays far below it; absolute part 1e-9 * (|x| + |mean|)/std for the cancellation in x - mean.
Zero-variance coefficients are outside the real-arithmetic clause (DESIGN: precondition var > 0); they are exercised
(some data sets carry a constant column) and only the other columns are compared.
"""
import os
import shutil
import tempfile
import warnings

import numpy as np

from rtc import _common

PROPERTY = "C16"
ASSUMPTIONS = ["A-REAL", "A-NP-RED", "A-NP-SLICE", "A-IO-CONTAINER"]
RTOL = 1e-9
DTYPES = ("float64", "float32", "int16", "int32")
PARTS = ("axes", "global", "global", "global", "local", "mismatch", "loaded")
MAX_RANK = 4


# --------------------------------------------------------------------------- data
def _dataset(rng, N, n, dtype, const_col):
    """N vectors of n coefficients, well conditioned per coefficient (kappa <= 1e4) unless N == 1."""
    dt = np.dtype(dtype)
    for attempt in range(200):
        std = np.exp(rng.uniform(np.log(0.1), np.log(10.0), size=n))
        mean = std * rng.uniform(-50.0, 50.0, size=n) * (1.0 if attempt < 100 else 0.05)
        if dt.kind == "i":
            std = std + 3.0
        D = rng.standard_normal((N, n)) * std + mean
        D = D.astype(dt)
        if const_col is not None:
            D[:, const_col] = D[0, const_col]
        D64 = D.astype(np.float64)
        if N == 1:
            return D
        v = D64.var(axis=0)
        m2 = D64.mean(axis=0) ** 2
        ok = np.ones(n, dtype=bool)
        if const_col is not None:
            ok[const_col] = False
        if np.all(v[ok] > 0) and np.all((m2[ok] + v[ok]) / v[ok] <= 1e4):
            return D
    raise RuntimeError("could not draw a well-conditioned data set")


def _factor_pairs(k):
    return [(a, k // a) for a in range(1, k + 1) if k % a == 0]


def _present(rng, chunk):
    """Present a (k, n) chunk of vectors as one of the accepted shapes. Returns list of (array, axis, descr)."""
    k, n = chunk.shape
    how = int(rng.integers(6))
    neg = bool(rng.integers(2))
    if how == 0:  # one vector at a time
        return [(np.array(chunk[i]), -1 if neg else 0, "vec") for i in range(k)]  # a vector's only axis is named -1 or 0
    if how == 1:
        return [(np.array(chunk), -1 if neg else 1, "2d(k,n)")]
    if how == 2:
        return [(np.array(chunk.T), -2 if neg else 0, "2d(n,k)")]
    a, b = _factor_pairs(k)[int(rng.integers(len(_factor_pairs(k))))]
    t = chunk.reshape(a, b, n)
    if how == 3:
        return [(np.array(t), -1 if neg else 2, f"3d({a},{b},n)")]
    if how == 4:
        return [(np.array(np.transpose(t, (0, 2, 1))), -2 if neg else 1, f"3d({a},n,{b})")]
    t4 = chunk.reshape(a, 1, b, n)
    return [(np.asfortranarray(np.transpose(t4, (3, 0, 1, 2))), -4 if neg else 0, f"4d(n,{a},1,{b})F")]


def _plan(rng, D, shuffle=True):
    """A random order + split + presentation of the rows of D."""
    N = D.shape[0]
    order = rng.permutation(N) if shuffle else np.arange(N)
    rows = D[order]
    calls = []
    i = 0
    while i < N:
        k = int(rng.integers(1, min(N - i, 12) + 1))
        calls.extend(_present(rng, rows[i : i + k]))
        i += k
    return calls


def _ro(a):
    a = np.array(a, copy=True, order="K")
    a.flags.writeable = False
    return a


def _accumulate(std, calls, fails, tag):
    for arr, axis, descr in calls:
        x = _ro(arr)
        try:
            with warnings.catch_warnings():
                warnings.simplefilter("ignore")
                std.accumulate(x, axis=axis)
        except Exception as e:  # noqa
            clause = "C16.input_unmodified" if "read-only" in str(e) else "C16.raises"
            fails.append((clause, f"{tag}: accumulate({descr}, axis={axis}) raised {type(e).__name__}: {e}"))
            return False
        if x.tobytes() != np.asarray(arr).tobytes():
            fails.append(("C16.input_unmodified", f"{tag}: accumulate changed its input ({descr})"))
    return True


def _apply_inputs(rng, n):
    """Inputs to apply(): a vector and tensors of rank 2..4 with the coefficient axis anywhere."""
    out = []
    dts = list(DTYPES)
    out.append({"shape": (n,), "axis": -1 if rng.integers(2) else 0, "dtype": dts[int(rng.integers(4))], "order": "C"})
    for _ in range(3):
        rank = int(rng.integers(2, 5))
        pos = int(rng.integers(rank))
        shape = [int(rng.integers(1, 4)) for _ in range(rank)]
        shape[pos] = n
        axis = pos - rank if rng.integers(2) else pos
        out.append({"shape": tuple(shape), "axis": axis, "dtype": dts[int(rng.integers(4))], "order": "CF"[int(rng.integers(2))]})
    return out


def _draw_input(rng, spec, loc, scale):
    """Values around the data's location so that results are O(1)."""
    shape, axis = spec["shape"], spec["axis"]
    nd = len(shape)
    b = [1] * nd
    b[axis % nd] = shape[axis % nd]
    y = rng.standard_normal(shape) * scale.reshape(b) * 2 + loc.reshape(b)
    y = y.astype(np.dtype(spec["dtype"]))
    return np.asfortranarray(y) if spec["order"] == "F" else np.ascontiguousarray(y)


def _expected(y, axis, mean, std):
    nd = y.ndim
    b = [1] * nd
    b[axis % nd] = y.shape[axis % nd]
    y64 = y.astype(np.float64)
    m = mean.reshape(b)
    if std is None:
        return y64 - m, np.abs(y64) + np.abs(m)
    s = std.reshape(b)
    return (y64 - m) / s, (np.abs(y64) + np.abs(m)) / s


def _compare(res, exp, mag, skip_col, axis):
    """max over compared entries of (|res-exp| - RTOL*|exp|)/mag ; returns (ok, worst ratio, message)"""
    err = np.abs(res - exp)
    tol = RTOL * (np.abs(exp) + mag)
    bad = ~(err <= tol)
    if skip_col is not None:
        sl = [slice(None)] * res.ndim
        sl[axis % res.ndim] = skip_col
        bad[tuple(sl)] = False
        err = err.copy()
        err[tuple(sl)] = 0
    with np.errstate(divide="ignore", invalid="ignore"):
        ratio = np.where(mag > 0, err / np.where(mag > 0, mag, 1), 0.0)
    worst = float(np.max(ratio)) if ratio.size else 0.0
    if np.any(bad):
        j = tuple(int(v) for v in np.argwhere(bad)[0])
        return False, worst, f"index {j}: got {res[j]!r} expected {exp[j]!r} (tol {tol[j]:.3g})"
    return True, worst, ""


def _layout(a, how, writeable):
    """A copy of `a` with the same values and memory layout `how`: "C", "F", or "S" (a strided view: every second
    element along the last axis of a buffer twice as long; the gaps hold a sentinel nobody may read or write)."""
    if how == "S" and a.ndim >= 1:
        big = np.full(a.shape[:-1] + (2 * a.shape[-1],), 77, dtype=a.dtype)
        big[..., ::2] = a
        big.flags.writeable = bool(writeable)
        return big[..., ::2]
    out = np.array(a, copy=True, order="F" if how == "F" else "C")
    out.flags.writeable = bool(writeable)
    return out


def _apply_check(std, rng, n, mean, sd, norm_var, skip_col, fails, clause, tag, slack, specs=None):
    """Run apply() on a vector and tensors, in and out of place, against the oracle. `specs` (optional) fixes the inputs:
    dicts with shape, axis, dtype, order and optionally in_place, layout ("C"/"F"/"S") and axis_np (axis as np.int64)."""
    results = []
    for spec in (_apply_inputs(rng, n) if specs is None else specs):
        y = _draw_input(rng, spec, mean, sd if sd is not None else np.ones(n))
        in_place = bool(spec["in_place"]) if "in_place" in spec else bool(rng.integers(3) == 0)
        if "layout" in spec:
            y_in = _layout(y, spec["layout"], writeable=in_place)
        else:
            y_in = np.array(y, copy=True, order="K")
            if not in_place:
                y_in.flags.writeable = False
        try:
            with warnings.catch_warnings():
                warnings.simplefilter("ignore")
                res = std.apply(y_in, axis=np.int64(spec["axis"]) if spec.get("axis_np") else spec["axis"], in_place=in_place)
        except Exception as e:  # noqa
            c = "C16.input_unmodified" if "read-only" in str(e) else "C16.raises"
            fails.append((c, f"{tag}: apply({spec}) in_place={in_place} raised {type(e).__name__}: {e}"))
            continue
        if not isinstance(res, np.ndarray) or res.dtype != np.float64 or res.shape != y.shape:
            fails.append(("C16.dtype_shape", f"{tag}: apply({spec}) returned {getattr(res, 'dtype', None)} {getattr(res, 'shape', None)}"))
            continue
        if (not in_place or y.dtype != np.float64) and y_in.tobytes() != y.tobytes():
            fails.append(("C16.input_unmodified", f"{tag}: apply({spec}) in_place={in_place} changed its input"))
        exp, mag = _expected(y, spec["axis"], mean, sd if norm_var else None)
        ok, worst, msg = _compare(res, exp, mag, skip_col if norm_var else None, spec["axis"])
        slack[0] = max(slack[0], worst)
        if not ok:
            fails.append(("C16.in_place" if in_place and y.dtype == np.float64 else clause, f"{tag}: apply({spec}) in_place={in_place}: {msg}"))
        results.append((np.array(res, copy=True), spec["axis"]))
    return results


# --------------------------------------------------------------------------- parts
def _part_global(case, fails, slack):
    from pydrobert.speech.post import Standardize

    rng = _common.make_rng(int(case["seed"]), "c16-global")
    n, N, norm_var = int(case["n"]), int(case["N"]), bool(case["norm_var"])
    const_col = int(rng.integers(n)) if (case.get("const_col") and n > 1) else None
    D = _dataset(rng, N, n, case["dtype"], const_col)
    D64 = D.astype(np.float64)
    mean = D64.mean(axis=0)
    sd = np.sqrt(D64.var(axis=0))  # population variance, one shot
    if N == 1:
        if norm_var:
            return False  # variance 0 everywhere: outside the clause
    skip = const_col
    sd_safe = np.where(sd > 0, sd, 1.0)
    first = None
    nplans = int(case.get("plans", 4))
    for p in range(nplans):
        prng = _common.make_rng(int(case["seed"]), f"c16-plan-{p}")
        calls = _plan(prng, D, shuffle=p > 0)
        std = Standardize(norm_var=norm_var)
        if std.have_stats:
            fails.append(("C16.have_stats", "have_stats is truthy before anything was accumulated"))
        if not _accumulate(std, calls, fails, f"plan {p}"):
            return True
        if not std.have_stats:
            fails.append(("C16.have_stats", f"plan {p}: have_stats is falsy after {N} vectors"))
            return True
        # same apply inputs for every plan
        arng = _common.make_rng(int(case["seed"]), "c16-apply")
        descr = "+".join(d for _, _, d in calls)[:120]
        res = _apply_check(std, arng, n, mean, sd_safe, norm_var, skip, fails, "C16.global_values", f"plan {p} [{descr}]", slack)
        if first is None:
            first = res
        else:
            for (r0, ax0), (r1, _) in zip(first, res):
                if r0.shape != r1.shape:
                    continue
                d = np.abs(r0 - r1)
                if skip is not None and norm_var:  # the constant column is outside the clause
                    sl = [slice(None)] * d.ndim
                    sl[ax0 % d.ndim] = skip
                    d[tuple(sl)] = 0
                lim = 2 * RTOL * (np.abs(r0) + 1.0 + np.abs(mean).max() / sd_safe.min())
                if np.any(~(d <= lim)):
                    fails.append(("C16.additive", f"plan {p} [{descr}] gives a different transform than plan 0: max diff {float(d.max()):.3g}"))
                if d.size:
                    slack[1] = max(slack[1], float(np.max(d / (np.abs(r0) + 1.0))))
        if fails:
            return True
    return True


def _part_loaded(case, fails, slack, tmpdir):
    from pydrobert.speech.post import Standardize

    rng = _common.make_rng(int(case["seed"]), "c16-loaded")
    n, N, norm_var = int(case["n"]), max(2, int(case["N"])), bool(case["norm_var"])
    D = _dataset(rng, N, n, case["dtype"], None)
    D64 = D.astype(np.float64)
    cut = int(rng.integers(1, N + 1))  # first `cut` rows come from the file, the rest are accumulated on top
    if rng.integers(4) == 0:
        # a statistics file that holds no vector yet: "without statistics" -> local standardisation, have_stats falsy
        path0 = os.path.join(tmpdir, f"stats0_{case['seed']}.npy")
        np.save(path0, np.zeros((2, n + 1)))
        try:
            with warnings.catch_warnings():
                warnings.simplefilter("ignore")
                std0 = Standardize(path0, norm_var=norm_var)
                hs = std0.have_stats
                x = _ro(D)
                res0 = std0.apply(x, axis=-1)
        except Exception as e:  # noqa
            fails.append(("C16.raises", f"empty statistics file: {type(e).__name__}: {e}"))
            return True
        if hs:
            fails.append(("C16.have_stats", "have_stats is truthy for a loaded file that holds zero vectors"))
        m0, s0 = D64.mean(axis=0), np.sqrt(D64.var(axis=0))
        exp0, mag0 = _expected(D, -1, m0, s0 if norm_var else None)
        ok0, worst0, msg0 = _compare(res0, exp0, mag0, None, -1)
        if not ok0:
            fails.append(("C16.local_values", f"empty statistics file, local standardisation: {msg0}"))
    head = D64[:cut]
    stats = np.zeros((2, n + 1))
    for row in head:  # sums written by hand
        stats[0, :n] += row
        stats[1, :n] += row * row
        stats[0, n] += 1
    path = os.path.join(tmpdir, f"stats_{case['seed']}.npy")
    np.save(path, stats)
    try:
        with warnings.catch_warnings():
            warnings.simplefilter("ignore")
            std = Standardize(path, norm_var=norm_var)
    except Exception as e:  # noqa
        fails.append(("C16.raises", f"loading raised {type(e).__name__}: {e}"))
        return True
    if not std.have_stats:
        fails.append(("C16.have_stats", "have_stats is falsy after loading statistics"))
        return True
    if cut >= 2 or not norm_var:
        mean, sd = head.mean(axis=0), np.sqrt(head.var(axis=0))
        if not norm_var or (np.all(sd > 0) and np.all((mean ** 2 + sd ** 2) / sd ** 2 <= 1e6)):
            arng = _common.make_rng(int(case["seed"]), "c16-apply")
            _apply_check(std, arng, n, mean, np.where(sd > 0, sd, 1.0), norm_var, None, fails, "C16.loaded_values", f"loaded {cut} rows", slack)
    if cut < N:
        calls = _plan(rng, D[cut:])
        if not _accumulate(std, calls, fails, "on top of loaded"):
            return True
    mean, sd = D64.mean(axis=0), np.sqrt(D64.var(axis=0))
    arng = _common.make_rng(int(case["seed"]), "c16-apply2")
    _apply_check(std, arng, n, mean, sd, norm_var, None, fails, "C16.loaded_values", f"loaded {cut} rows + accumulated {N - cut}", slack)
    return True


def _part_local(case, fails, slack):
    from pydrobert.speech.post import Standardize

    rng = _common.make_rng(int(case["seed"]), "c16-local")
    n, N, norm_var = int(case["n"]), max(2, int(case["N"])), bool(case["norm_var"])
    D = _dataset(rng, N, n, case["dtype"], None)
    present = None
    for _ in range(20):  # any tensor presentation (not single vectors)
        cand = _present(rng, D)
        if len(cand) == 1 and cand[0][0].ndim >= 2:
            present = cand[0]
            break
    if present is None:
        present = (np.array(D), -1, "2d(k,n)")
    x, axis, descr = present
    in_place = bool(rng.integers(3) == 0)
    x_in = np.array(x, copy=True, order="K")
    if not in_place:
        x_in.flags.writeable = False
    std = Standardize(norm_var=norm_var)
    try:
        with warnings.catch_warnings():
            warnings.simplefilter("ignore")
            res = std.apply(x_in, axis=axis, in_place=in_place)
    except Exception as e:  # noqa
        c = "C16.input_unmodified" if "read-only" in str(e) else "C16.raises"
        fails.append((c, f"local apply({descr}, axis={axis}) raised {type(e).__name__}: {e}"))
        return True
    if not isinstance(res, np.ndarray) or res.dtype != np.float64 or res.shape != x.shape:
        fails.append(("C16.dtype_shape", f"local apply({descr}) returned {getattr(res, 'dtype', None)} {getattr(res, 'shape', None)}"))
        return True
    if (not in_place or x.dtype != np.float64) and x_in.tobytes() != x.tobytes():
        fails.append(("C16.input_unmodified", f"local apply({descr}) in_place={in_place} changed its input"))
    if std.have_stats:
        fails.append(("C16.have_stats", "apply without statistics made have_stats truthy"))
    ax = axis % x.ndim
    others = tuple(i for i in range(x.ndim) if i != ax)
    x64 = x.astype(np.float64)
    mean = x64.mean(axis=others)
    sd = np.sqrt(x64.var(axis=others))
    exp, mag = _expected(x, axis, mean, sd if norm_var else None)
    ok, worst, msg = _compare(res, exp, mag, None, axis)
    slack[0] = max(slack[0], worst)
    if not ok:
        fails.append(("C16.in_place" if in_place and x.dtype == np.float64 else "C16.local_values", f"local apply({descr}, axis={axis}) in_place={in_place}: {msg}"))
    # moments of the result, as the statement says
    rm = res.mean(axis=others)
    scale = (np.abs(mean) + sd) / (sd if norm_var else 1.0)
    if np.any(~(np.abs(rm) <= 1e-9 * scale)):
        fails.append(("C16.local_moments", f"local apply({descr}): result mean {rm} is not 0"))
    if norm_var:
        rv = res.var(axis=others)
        if np.any(~(np.abs(rv - 1) <= 1e-9 * (1 + (mean / sd) ** 2))):
            fails.append(("C16.local_moments", f"local apply({descr}): result variance {rv} is not 1"))
    return True


def _expect_value_error(fn, what, fails):
    try:
        with warnings.catch_warnings():
            warnings.simplefilter("ignore")
            fn()
    except ValueError as e:
        if "read-only" in str(e):
            fails.append(("C16.mismatch_raises", f"{what}: wrote to its input before raising ({e})"))
        return
    except Exception as e:  # noqa
        fails.append(("C16.mismatch_raises", f"{what}: raised {type(e).__name__} ({e}) instead of ValueError"))
        return
    fails.append(("C16.mismatch_raises", f"{what}: no exception"))


def _part_mismatch(case, fails, slack):
    from pydrobert.speech.post import Standardize

    rng = _common.make_rng(int(case["seed"]), "c16-mismatch")
    n, N, norm_var = int(case["n"]), max(2, int(case["N"])), bool(case["norm_var"])
    D = _dataset(rng, N, n, case["dtype"], None)
    std = Standardize(norm_var=norm_var)
    if not _accumulate(std, _plan(rng, D), fails, "setup"):
        return True
    probe = _ro(D[:2].astype(np.float64))
    try:
        with warnings.catch_warnings():
            warnings.simplefilter("ignore")
            before = std.apply(probe, axis=-1)
    except Exception as e:  # noqa
        fails.append(("C16.input_unmodified" if "read-only" in str(e) else "C16.raises", f"apply on a matching (2,{n}) tensor raised {type(e).__name__}: {e}"))
        return True
    m = n + int(rng.choice([-1, 1, 2])) if n > 1 else n + int(rng.choice([1, 2]))
    k = int(rng.integers(2, 4))
    dt = np.dtype(case["dtype"])
    for in_place in (False, True):
        bads = [
            ("vector", rng.standard_normal(m).astype(dt), -1),
            ("tensor(k,m)", rng.standard_normal((k, m)).astype(dt), -1),
            ("tensor(m,k)", rng.standard_normal((m, k)).astype(dt), 0),
            ("tensor(k,m,2)", rng.standard_normal((k, m, 2)).astype(dt), -2),
        ]
        if k != n:
            # the OTHER axis has the right length n, the chosen one has not
            bads.append(("tensor(n,k) axis -1", rng.standard_normal((n, k)).astype(dt), -1))
        for name, arr, axis in bads:
            x = _ro(arr)
            _expect_value_error(lambda: std.apply(x, axis=axis, in_place=in_place), f"apply {name} in_place={in_place} after {n}-coefficient statistics", fails)
            if x.tobytes() != arr.tobytes():
                fails.append(("C16.mismatch_raises", f"apply {name}: input changed although ValueError"))
            if not in_place:
                _expect_value_error(lambda: std.accumulate(x, axis=axis), f"accumulate {name} after {n}-coefficient statistics", fails)
    try:
        with warnings.catch_warnings():
            warnings.simplefilter("ignore")
            after = std.apply(probe, axis=-1)
    except Exception as e:  # noqa
        fails.append(("C16.mismatch_raises", f"apply fails after rejected calls: {type(e).__name__}: {e}"))
        return True
    if before.tobytes() != after.tobytes():
        fails.append(("C16.mismatch_raises", "rejected calls changed the statistics"))
    # and the transform is still the right one
    D64 = D.astype(np.float64)
    mean, sd = D64.mean(axis=0), np.sqrt(D64.var(axis=0))
    arng = _common.make_rng(int(case["seed"]), "c16-apply")
    _apply_check(std, arng, n, mean, sd, norm_var, None, fails, "C16.global_values", "after rejected calls", slack)
    return True


def _axis_names(rank):
    """Every legal name of every axis of an array of this rank: position p is named p and p - rank."""
    return [(pos, name) for pos in range(rank) for name in (pos, pos - rank)]


def _other_dims(rng, total, k):
    """k positive integers (1 allowed) with product `total`, in random order."""
    if k == 0:
        return []
    dims, rem = [], int(total)
    for _ in range(k - 1):
        divs = [d for d in range(1, rem + 1) if rem % d == 0]
        d = int(divs[int(rng.integers(len(divs)))])
        dims.append(d)
        rem //= d
    dims.append(rem)
    return [dims[i] for i in rng.permutation(k)]


def _part_axes(case, fails, slack):
    """"apply returns (x - mean)/std per coefficient of the chosen axis"; "any split or order of the same vectors across
    accumulate calls - along any axis, as vectors or tensors - gives the same transform"; "a tensor is standardised with its
    own per-coefficient mean and variance over the other axes"; "a mismatching feature dimension raises ValueError"; "the
    input is untouched unless in_place" -- each for EVERY legal (rank, axis name): rank 1..MAX_RANK, position p named p and
    p - rank. Rank 1 is a feature vector: its only axis is named 0 or -1."""
    from pydrobert.speech.post import Standardize

    rng = _common.make_rng(int(case["seed"]), "c16-axes")
    n, N, norm_var = int(case["n"]), max(2, int(case["N"])), bool(case["norm_var"])
    axis_np = bool(case.get("axis_np"))
    dt = np.dtype(case["dtype"])
    D = _dataset(rng, N, n, case["dtype"], None)
    D64 = D.astype(np.float64)
    mean, sd = D64.mean(axis=0), np.sqrt(D64.var(axis=0))
    ax_of = (lambda a: np.int64(a)) if axis_np else (lambda a: a)
    probe_spec = {"shape": (3, n), "axis": -1, "dtype": "float64", "order": "C", "in_place": False}
    LIMIT = 4  # messages per case

    names = [(rank, pos, name) for rank in range(1, MAX_RANK + 1) for pos, name in _axis_names(rank)]
    # ---- accumulate along every axis name: same vectors, same transform ------------------------------------------------
    for rank, pos, name in names:
        if len(fails) >= LIMIT:
            return True
        layout = "CFS"[int(rng.integers(3))]
        if rank == 1:
            calls = [(D[i], f"vector({n},)") for i in range(N)]
        else:
            dims = _other_dims(rng, N, rank - 1)
            t = np.moveaxis(D.reshape(dims + [n]), -1, pos)
            calls = [(t, f"tensor{tuple(t.shape)}")]
        std = Standardize(norm_var=norm_var)
        ok = True
        for arr, descr in calls:
            x = _layout(arr, layout, writeable=False)
            try:
                with warnings.catch_warnings():
                    warnings.simplefilter("ignore")
                    std.accumulate(x, axis=ax_of(name))
            except Exception as e:  # noqa
                c = "C16.input_unmodified" if "read-only" in str(e) else "C16.raises"
                fails.append((c, f"axes: accumulate({descr} {dt.name} layout {layout}, axis={name}) with {n}-coefficient vectors raised {type(e).__name__}: {e}"))
                ok = False
                break
            if x.tobytes() != np.ascontiguousarray(arr).tobytes():
                fails.append(("C16.input_unmodified", f"axes: accumulate({descr}, axis={name}) changed its input"))
        if not ok:
            continue
        if not std.have_stats:
            fails.append(("C16.have_stats", f"axes: have_stats falsy after accumulate({calls[0][1]}, axis={name})"))
            continue
        prng = _common.make_rng(int(case["seed"]), "c16-axes-probe")
        _apply_check(std, prng, n, mean, sd, norm_var, None, fails, "C16.additive", f"axes: after accumulate({calls[0][1]} x{len(calls)}, axis={name}, layout {layout})", slack, specs=[probe_spec])

    # ---- apply with statistics, every axis name, in_place False and True -----------------------------------------------
    std = Standardize(norm_var=norm_var)
    try:
        with warnings.catch_warnings():
            warnings.simplefilter("ignore")
            std.accumulate(_ro(D), axis=-1)
    except Exception as e:  # noqa
        fails.append(("C16.raises", f"axes: accumulate(({N},{n}), axis=-1) raised {type(e).__name__}: {e}"))
        return True
    specs = []
    for rank, pos, name in names:
        shape = [int(rng.choice([1, 2, 3, n])) for _ in range(rank)]  # other axes may have length n too, or 1
        shape[pos] = n
        for in_place in (False, True):
            specs.append({"shape": tuple(shape), "axis": name, "dtype": dt.name, "order": "C", "in_place": in_place, "layout": "CFS"[int(rng.integers(3))], "axis_np": axis_np})
    for spec in specs:
        if len(fails) >= LIMIT:
            return True
        _apply_check(std, rng, n, mean, sd, norm_var, None, fails, "C16.global_values", "axes: with statistics", slack, specs=[spec])

    # ---- apply without statistics: own moments over the other axes, every axis name of rank >= 2 -----------------------
    for rank, pos, name in names:
        if rank == 1:
            continue  # "a tensor is standardised with its own ..." : a lone vector is outside the clause
        if len(fails) >= LIMIT:
            return True
        dims = _other_dims(rng, N, rank - 1)
        t = np.moveaxis(D.reshape(dims + [n]), -1, pos)
        exp, mag = _expected(t, name, mean, sd if norm_var else None)
        for in_place in (False, True):
            layout = "CFS"[int(rng.integers(3))]
            x = _layout(t, layout, writeable=in_place)
            what = f"axes: no statistics, apply(tensor{tuple(t.shape)} {dt.name} layout {layout}, axis={name}, in_place={in_place})"
            loc = Standardize(norm_var=norm_var)
            try:
                with warnings.catch_warnings():
                    warnings.simplefilter("ignore")
                    res = loc.apply(x, axis=ax_of(name), in_place=in_place)
            except Exception as e:  # noqa
                fails.append(("C16.input_unmodified" if "read-only" in str(e) else "C16.raises", f"{what} raised {type(e).__name__}: {e}"))
                continue
            if not isinstance(res, np.ndarray) or res.dtype != np.float64 or res.shape != t.shape:
                fails.append(("C16.dtype_shape", f"{what} returned {getattr(res, 'dtype', None)} {getattr(res, 'shape', None)}"))
                continue
            if (not in_place or dt != np.float64) and x.tobytes() != np.ascontiguousarray(t).tobytes():
                fails.append(("C16.input_unmodified", f"{what} changed its input"))
            okc, worst, msg = _compare(res, exp, mag, None, name)
            slack[0] = max(slack[0], worst)
            if not okc:
                fails.append(("C16.in_place" if in_place and dt == np.float64 else "C16.local_values", f"{what}: {msg}"))

    # ---- mismatching feature dimension on the chosen axis, every axis name ---------------------------------------------
    m = n + int(rng.choice([1, 2])) if n == 1 else n + int(rng.choice([-1, 1, 2]))
    probe = _ro(D64[:2])
    with warnings.catch_warnings():
        warnings.simplefilter("ignore")
        try:
            before = std.apply(probe, axis=-1)
        except Exception as e:  # noqa
            fails.append(("C16.raises", f"axes: apply(({2},{n}), axis=-1) raised {type(e).__name__}: {e}"))
            return True
    for rank, pos, name in names:
        if len(fails) >= LIMIT:
            return True
        shape = [int(rng.choice([1, 2, n])) for _ in range(rank)]  # the OTHER axes may well have the right length
        shape[pos] = m
        arr = (rng.standard_normal(shape) * 3).astype(dt)
        x = _ro(arr)
        what = f"tensor{tuple(shape)} {dt.name} axis={name} after {n}-coefficient statistics"
        _expect_value_error(lambda: std.apply(x, axis=ax_of(name), in_place=bool(pos % 2)), "axes: apply " + what, fails)
        _expect_value_error(lambda: std.accumulate(x, axis=ax_of(name)), "axes: accumulate " + what, fails)
        if x.tobytes() != arr.tobytes():
            fails.append(("C16.mismatch_raises", f"axes: {what}: input changed although ValueError"))
    with warnings.catch_warnings():
        warnings.simplefilter("ignore")
        try:
            after = std.apply(probe, axis=-1)
        except Exception as e:  # noqa
            fails.append(("C16.mismatch_raises", f"axes: apply fails after rejected calls: {type(e).__name__}: {e}"))
            return True
    if before.tobytes() != after.tobytes():
        fails.append(("C16.mismatch_raises", "axes: rejected calls changed the statistics"))
    return True


def _many_dataset(rng, N, n, dtype):
    """N vectors of n coefficients with |mean| <= 5 std (so (mean^2+var)/var <= ~30: the round-off of ten thousand additions
    times the cancellation in E[x^2] - mean^2 stays orders of magnitude below RTOL)."""
    dt = np.dtype(dtype)
    std = np.exp(rng.uniform(np.log(0.5), np.log(8.0), size=n))
    mean = std * rng.uniform(-5.0, 5.0, size=n)
    if dt.kind == "i":
        std = std + 3.0
    return (rng.standard_normal((N, n)) * std + mean).astype(dt)


def _as_tensor(rng, chunk, how):
    """(k, n) chunk as a tensor, coefficient axis anywhere. Returns (array, axis name, descr)."""
    k, n = chunk.shape
    neg = bool(rng.integers(2))
    if how == "kn":
        return np.array(chunk), (-1 if neg else 1), f"tensor({k},{n})"
    if how == "nk":
        return np.array(chunk.T), (-2 if neg else 0), f"tensor({n},{k})"
    pairs = _factor_pairs(k)
    a, b = pairs[int(rng.integers(len(pairs)))]
    t = chunk.reshape(a, b, n)
    if how == "abn":
        return np.array(t), (-1 if neg else 2), f"tensor({a},{b},{n})"
    if how == "anb":
        return np.array(np.transpose(t, (0, 2, 1))), (-2 if neg else 1), f"tensor({a},{n},{b})"
    if how == "nab":
        return np.asfortranarray(np.transpose(t, (2, 0, 1))), (-3 if neg else 0), f"tensor({n},{a},{b})F"
    pairs2 = _factor_pairs(b)
    c, d = pairs2[int(rng.integers(len(pairs2)))]
    return np.array(np.transpose(chunk.reshape(a, c, d, n), (0, 1, 3, 2))), (-2 if neg else 2), f"tensor({a},{c},{n},{d})"


MANY_HOWS = ("kn", "nk", "abn", "anb", "nab", "acnd")


def _part_many(case, fails, slack):
    """"mean and variance are those of all feature vectors accumulated so far; accumulation is additive, so any split or
    order of the same vectors across accumulate calls - along any axis, as vectors or tensors - gives the same transform":
    for data sets of MANY vectors (N at and around powers of two and their multiples, i.e. at, just below and just above
    any plausible internal block length), given (1) whole, as ONE tensor, in each of six rank 2..4 presentations,
    (2) in two calls cut at N//2, at the largest power of two below N, one vector off either end, (3) in random chunks
    in random order and presentation, (4) after a few single vectors, (5) vector by vector (`by_vector`).  Every history
    must give (x - mean)/std with the one-shot numpy moments of the N vectors.  Also on the N-vector tensor itself:
    "apply returns (x - mean)/std per coefficient of the chosen axis" with statistics, and "Without statistics, a tensor is
    standardised with its own per-coefficient mean and variance over the other axes" (same expected values, since the
    tensor IS the data set)."""
    from pydrobert.speech.post import Standardize

    rng = _common.make_rng(int(case["seed"]), "c16-many")
    n, N, norm_var = int(case["n"]), int(case["N"]), bool(case["norm_var"])
    D = _many_dataset(rng, N, n, case["dtype"])
    D64 = D.astype(np.float64)
    mean, sd = D64.mean(axis=0), np.sqrt(D64.var(axis=0))
    if not (np.all(sd > 0) and np.all((mean ** 2 + sd ** 2) / sd ** 2 <= 1e3)):
        raise RuntimeError("data set not well conditioned")
    probe = _ro(np.concatenate([D64[:3], D64[-2:]]) + 0.25)
    exp, mag = _expected(probe, -1, mean, sd if norm_var else None)

    histories = []  # (description, [(array, axis)])
    for how in MANY_HOWS:
        arr, axis, descr = _as_tensor(rng, D, how)
        histories.append((f"ONE call {descr} axis={axis}", [(arr, axis)]))
    cuts = {N // 2, N - 1, 1}
    b = 1
    while 2 * b < N:
        b *= 2
    cuts.add(b)  # largest power of two below N
    for cut in sorted(c for c in cuts if 0 < c < N):
        parts = []
        for lo, hi in ((0, cut), (cut, N)):
            if hi - lo == 1:
                parts.append((np.array(D[lo]), 0, f"vector({n},)"))
            else:
                parts.append(_as_tensor(rng, D[lo:hi], MANY_HOWS[int(rng.integers(len(MANY_HOWS)))]))
        if rng.integers(2):
            parts.reverse()
        histories.append(("TWO calls " + " + ".join(f"{d} axis={a}" for _, a, d in parts), [(x, a) for x, a, _ in parts]))
    # random chunks, permuted
    order = rng.permutation(N)
    rows, calls, i = D[order], [], 0
    while i < N:
        k = int(min(N - i, rng.integers(1, max(2, N // 3) + 1)))
        if k == 1:
            calls.append((np.array(rows[i]), -1, f"vector({n},)"))
        else:
            calls.append(_as_tensor(rng, rows[i : i + k], MANY_HOWS[int(rng.integers(len(MANY_HOWS)))]))
        i += k
    histories.append((f"{len(calls)} calls, permuted vectors: " + " + ".join(d for _, _, d in calls)[:100], [(x, a) for x, a, _ in calls]))
    # a few single vectors first, then the rest as one tensor (statistics exist when the big tensor arrives)
    k0 = int(rng.integers(1, 4))
    if N - k0 >= 2:
        arr, axis, descr = _as_tensor(rng, D[k0:], MANY_HOWS[int(rng.integers(len(MANY_HOWS)))])
        histories.append((f"{k0} vectors then ONE call {descr} axis={axis}", [(np.array(D[j]), -1) for j in range(k0)] + [(arr, axis)]))
    if case.get("by_vector"):
        histories.append((f"{N} calls, one vector({n},) each", [(D[j], 0) for j in range(N)]))

    results = []
    for descr, calls in histories:
        std = Standardize(norm_var=norm_var)
        changed = False
        try:
            with warnings.catch_warnings():
                warnings.simplefilter("ignore")
                for arr, axis in calls:
                    x = _ro(arr)
                    std.accumulate(x, axis=axis)
                    changed = changed or x.tobytes() != np.asarray(arr).tobytes()
                res = std.apply(probe, axis=-1)
        except Exception as e:  # noqa
            fails.append(("C16.input_unmodified" if "read-only" in str(e) else "C16.raises", f"many: {N} vectors of {n} {D.dtype.name} as {descr}: raised {type(e).__name__}: {e}"))
            results.append((descr, None, "raised"))
            continue
        if changed:
            fails.append(("C16.input_unmodified", f"many: accumulate changed its input ({descr})"))
        if not isinstance(res, np.ndarray) or res.dtype != np.float64 or res.shape != probe.shape:
            fails.append(("C16.dtype_shape", f"many: after {descr}: apply returned {getattr(res, 'dtype', None)} {getattr(res, 'shape', None)}"))
            results.append((descr, None, "bad type"))
            continue
        ok, worst, msg = _compare(res, exp, mag, None, -1)
        slack[0] = max(slack[0], worst)
        results.append((descr, ok, msg))
    good = [d for d, ok, _ in results if ok]
    nbad = 0
    for descr, ok, msg in results:
        if ok is False and nbad < 3:
            nbad += 1
            other = f"; the same vectors as [{good[0]}] give the right transform" if good else "; no presentation of these vectors gives the right transform"
            fails.append(("C16.additive", f"many: {N} vectors of {n} {D.dtype.name} coefficients, norm_var={norm_var}, accumulated as [{descr}]: apply differs from (x - mean)/std of these vectors: {msg}{other}"))

    # apply on the N-vector tensor itself: with the statistics of the data set, and without statistics (its own moments)
    with_stats = Standardize(norm_var=norm_var)
    try:
        with warnings.catch_warnings():
            warnings.simplefilter("ignore")
            for j in range(0, N, 97):  # chunks shorter than any block length under test
                if min(N, j + 97) - j > 1:
                    with_stats.accumulate(_ro(D[j : j + 97]), axis=-1)
                else:
                    with_stats.accumulate(_ro(D[j]), axis=0)
    except Exception as e:  # noqa
        fails.append(("C16.raises", f"many: accumulating chunks of 97 vectors raised {type(e).__name__}: {e}"))
        return True
    for how in (MANY_HOWS[int(rng.integers(len(MANY_HOWS)))], "kn"):
        t, axis, descr = _as_tensor(rng, D, how)
        e2, m2 = _expected(t, axis, mean, sd if norm_var else None)
        for label, obj, clause in (("with statistics", with_stats, "C16.global_values"), ("without statistics", Standardize(norm_var=norm_var), "C16.local_values")):
            in_place = bool(rng.integers(2))
            x = np.array(t, copy=True, order="K")
            x.flags.writeable = in_place
            what = f"many: apply({descr} {D.dtype.name}, axis={axis}, in_place={in_place}) {label}"
            try:
                with warnings.catch_warnings():
                    warnings.simplefilter("ignore")
                    res = obj.apply(x, axis=axis, in_place=in_place)
            except Exception as e:  # noqa
                fails.append(("C16.input_unmodified" if "read-only" in str(e) else "C16.raises", f"{what} raised {type(e).__name__}: {e}"))
                continue
            if not isinstance(res, np.ndarray) or res.dtype != np.float64 or res.shape != t.shape:
                fails.append(("C16.dtype_shape", f"{what} returned {getattr(res, 'dtype', None)} {getattr(res, 'shape', None)}"))
                continue
            if (not in_place or D.dtype != np.float64) and x.tobytes() != t.tobytes():
                fails.append(("C16.input_unmodified", f"{what} changed its input"))
            ok, worst, msg = _compare(res, e2, m2, None, axis)
            slack[0] = max(slack[0], worst)
            if not ok:
                fails.append(("C16.in_place" if in_place and D.dtype == np.float64 else clause, f"{what}: {msg}"))
    return True


def _check(case, tmpdir, slack):
    fails = []
    part = case["part"]
    if part == "axes":
        nt = _part_axes(case, fails, slack)
    elif part == "global":
        nt = _part_global(case, fails, slack)
    elif part == "loaded":
        nt = _part_loaded(case, fails, slack, tmpdir)
    elif part == "local":
        nt = _part_local(case, fails, slack)
    elif part == "mismatch":
        nt = _part_mismatch(case, fails, slack)
    elif part == "many":
        nt = _part_many(case, fails, slack)
    else:
        raise ValueError(part)
    return fails, nt


def _many_counts(tier):
    """Numbers of vectors at and around plausible internal block lengths: 2^8..2^13 (thorough: 2^6..2^14), one below and
    one above each, and a few multiples; the exact powers and multiples first."""
    ks = range(8, 14) if tier == "quick" else range(6, 15)
    powers = [2 ** k for k in ks]
    # exact block lengths first, the most usual ones (1024, 512, 4096, 256) leading
    exact = sorted(powers, key=lambda v: abs(np.log2(v) - 10.4))
    mult = [3 * 1024, 5 * 512, 3 * 256, 2000, 3 * 4096, 1000] if tier == "quick" else [3 * 1024, 5 * 512, 3 * 256, 6 * 128, 7 * 64, 2000, 3000, 10000, 3 * 4096, 5 * 2048, 1000, 100]
    near = [v + d for v in exact for d in (1, -1)] + ([] if tier == "quick" else [v + d for v in exact for d in (2, -2)])
    return exact, mult, near


def _many_cases(tier, seed):
    """`many` cases: few coefficients (cheap), every count x norm_var, dtypes in rotation; vector-by-vector histories for
    the counts up to 4097 in quick (all in thorough)."""
    rng = _common.make_rng(seed, "c16-many-enum")
    exact, mult, near = _many_counts(tier)
    k = 0
    rounds = ((True, exact), (True, mult), (True, near), (False, exact + mult), (True, exact + mult), (False, near)) if tier == "quick" else ((True, exact + mult + near), (False, exact + mult + near), (True, exact + mult))
    for r, (norm_var, counts) in enumerate(rounds):
        for N in counts:
            k += 1
            yield {
                "part": "many",
                "dtype": DTYPES[(k + r) % len(DTYPES)] if (r or k % 2 == 0) else "float64",
                "norm_var": norm_var,
                "n": int(rng.integers(1, 4 if tier == "quick" else 7)),
                "N": int(N),
                "by_vector": bool(tier != "quick" or (N <= 4097 and norm_var)),
                "seed": int(seed) * 1000003 + 500000 + k,
            }


def _cases(tier, seed):
    # tensors of MANY vectors first (cheap: a few coefficients each): block-wise reductions show only there
    for c in _many_cases(tier, seed):
        yield c
    rng = _common.make_rng(seed, "c16-enum")
    k = 0
    # most discriminating first: small data sets, every dtype x norm_var x part
    while True:
        for part in PARTS:
            for dtype in DTYPES:
                for norm_var in (True, False):
                    k += 1
                    small = k < 200
                    n = int(rng.integers(1, 5 if small else 13))
                    N = int(rng.integers(1, 8 if small else 41))
                    yield {
                        "part": part,
                        "dtype": dtype,
                        "norm_var": norm_var,
                        "n": n,
                        "N": N,
                        "const_col": bool(rng.integers(5) == 0),
                        "axis_np": bool(rng.integers(4) == 0),
                        "plans": 4 if tier == "quick" else 6,
                        "seed": int(seed) * 1000003 + k,
                    }


def run(tier: str, seed: int) -> dict:
    _common.use_repo()
    budget = 25.0 if tier == "quick" else 240.0
    col = _common.Collector(PROPERTY, tier, seed, budget_s=budget)
    slack = [0.0, 0.0]
    tmpdir = tempfile.mkdtemp(prefix="c16_")
    per_part = {}
    try:
        for case in _cases(tier, seed):
            if col.out_of_time() or col.too_many_failures():
                break
            try:
                fails, nt = _check(case, tmpdir, slack)
            except RuntimeError as e:
                col.note(f"skipped case {case}: {e}")
                continue
            per_part[case["part"]] = per_part.get(case["part"], 0) + 1
            col.case(case, nontrivial=nt, sample=case if col.evaluations % 97 == 5 else None)
            for clause, msg in fails:
                col.fail(clause, case, msg)
    finally:
        shutil.rmtree(tmpdir, ignore_errors=True)
    col.note(f"cases per part: {per_part}; each `axes` case makes {sum(2 * r for r in range(1, MAX_RANK + 1))} accumulate histories, {2 * sum(2 * r for r in range(1, MAX_RANK + 1))} applies with statistics, "
             f"{2 * sum(2 * r for r in range(2, MAX_RANK + 1))} without, and {2 * sum(2 * r for r in range(1, MAX_RANK + 1))} rejected calls")
    col.note(f"worst |apply - oracle| relative to (|x|+|mean|)/std: {slack[0]:.3g}; worst relative difference between two accumulation plans: {slack[1]:.3g} (tolerance {RTOL:g})")
    return col.result(
        rule="case = (part, dtype, norm_var, n coefficients, N vectors, axis_np, seed). many (enumerated first): N vectors of 1..3 coefficients with N at / one below / one above "
        "powers of two and some multiples; the same vectors accumulated as ONE tensor (6 presentations of rank 2..4, coefficient axis in every position), in TWO calls (cut at N//2, "
        "largest power of two below N, 1, N-1; either order), in random permuted chunks, after 1..3 single vectors, and (by_vector) one vector per call, each followed by a probe apply "
        "compared with the one-shot oracle; plus apply on the whole N-vector tensor with and without statistics, in_place or not. axes: EVERY legal axis name (rank 1..4, each position p named p and p - rank: 20 names; "
        "rank 1 = a feature vector whose only axis is named 0 or -1; python int, or np.int64 when axis_np) is used (a) to accumulate the whole data set along it "
        "(vectors one by one / one tensor, C, F or strided layout) followed by a fixed probe apply, (b) to apply with statistics with in_place False and True "
        "(other axes of length 1, 2, 3 or n), (c) rank >= 2: to apply without statistics, in_place False and True, (d) to apply/accumulate a tensor whose chosen "
        "axis has the wrong length while other axes may have the right one (ValueError, statistics unchanged). "
        "global: the data set is accumulated under `plans` independent plans "
        "(plan 0 in order, the others permuted; random chunks of 1..12 vectors; each chunk given as single vectors (axis 0 or -1), (k,n), (n,k), (a,b,n), (a,n,b) or F-ordered (n,a,1,b) "
        "with positive or negative axis) and apply() is run on a vector (axis 0 or -1) and three tensors of rank 2..4 (random axis, dtype, order, in_place) after each plan; "
        "loaded: statistics file written from hand-made sums, then more accumulated on top; local: no statistics; mismatch: wrong feature dimension. "
        "A case is non-trivial unless the data set is a single vector with norm_var (variance 0).",
        bound=f"BOUNDED: part many: N in {sorted(set(sum(_many_counts(tier), [])))} vectors of <= {3 if tier == 'quick' else 6} coefficients, |mean| <= 5 std; other parts: "
        f"seeded random data, n <= 12 coefficients, N <= 40 vectors, rank <= {MAX_RANK} (all 20 axis names of ranks 1..{MAX_RANK} in every `axes` case), dtypes float64/float32/int16/int32, every coefficient with (mean^2+var)/var <= 1e4 "
        f"(means up to 50 std, either sign); time-boxed ({budget:.0f} s)",
        assumptions=ASSUMPTIONS,
    )


def replay(case: dict):
    _common.use_repo()
    tmpdir = tempfile.mkdtemp(prefix="c16_")
    try:
        fails, _ = _check(case, tmpdir, [0.0, 0.0])
    finally:
        shutil.rmtree(tmpdir, ignore_errors=True)
    if fails:
        return False, "; ".join(f"{c}: {m}" for c, m in fails[:5])
    return True, "all C16 clauses hold on this case"


if __name__ == "__main__":
    from rtc import _common
    import sys

    _common.main(sys.modules[__name__])

"""Bounded stand-in for C20: windows and helper functions follow their documented closed forms.

Clauses (ids):
  C20.window.length        get_impulse_response(width) has exactly `width` samples (1-D float), width >= 0
  C20.window.nonneg        all samples >= 0 (a sample may be >= -1e-16 only where numpy's own window is < 0)
  C20.window.numpy_shape   == numpy.<bartlett|blackman|hamming|hanning>(width) / (c * max(1, width-1)),
                           c = 1/2, 0.42, 0.54, 1/2 (the continuous-limit area), rtol 1e-9
  C20.window.closed_form   == the textbook cosine-sum / triangle formula divided by the same area (atol 1e-15/area)
  C20.window.unit_sum      |sum - 1| <= 2/width for width >= 2
  C20.gamma.length / C20.gamma.nonneg
  C20.gamma.values         order >= 2, width >= 2: sample i = a^n/(n-1)! t^(n-1) e^(-a t), t = width-1-i,
                           a = (n-1)/(width - peak*width); |err| <= 1e-9*(|want| + 1e-6*max want).  order 1: a decaying exponential
                           density a e^(-a t) for the a read off the last sample
  C20.gamma.argmax         orders 2..6: peak*width - 2 < argmax <= peak*width
  C20.circshift.shift      ifft(embed(out)) == roll(ifft(embed(in)), shift), 1e-9
  C20.circshift.defined    no exception for any documented argument combination (dft_size=None included)
  C20.circshift.dtype      result is complex128 with the segment's shape
  C20.circshift.copy       copy=True leaves the input unchanged; copy=False with complex128 returns the same
                           object, written through
  C20.gauss_quant.monotone / .affine / .accuracy (1e-6 standard deviations vs mpmath, min(p,1-p) >= 1e-20)
  C20.angular.inverse / C20.angular.formula (rtol 1e-12)
  C20.window.repeat        (sessions) "Every window function returns exactly `width` non-negative samples for any width:
                           the numpy ... shape divided by its area ... or, for GammaWindow, the time-reversed gamma
                           probability density": EVERY request is a return of a window function, so the clauses above are
                           evaluated on each answer of a sequence of requests -- the same width twice in a row on one
                           object, interleaved with other widths, on fresh objects, on objects made by the alias factory
                           (every documented alias; alias_factory_subclass_from_arg with a string and with a mapping), on
                           > 64 distinct widths and then the same ones again.  Arrays handed out earlier keep their values
                           while later requests are served (they ARE the returned samples; id
                           C20.window.returned_array_changed), and after the caller has overwritten every array it was
                           given the next answers are still right (id C20.window.repeat_after_write).  A clause failing on
                           the first request ever made for a width in the process keeps its own id; on a later request it
                           is reported as C20.window.repeat with the request history.
                           Case {"check": "window_session", "window": name | "gamma"(+order, peak), "requests":
                           [[how, width], ...]}, how = "same" | "fresh" | "alias:<alias>" | "mapping:<alias>".
  circshift_fourier cases carry "repeat": the call is made twice on equal inputs; both outputs must satisfy
  C20.circshift.shift / .dtype / .copy and the first output must not be changed by the second call.
  gauss_quant accuracy evaluates every probability twice (second answer under the same 1e-6 clause).
"""
import math
import warnings

import numpy as np

from rtc import _common

PROPERTY = "C20"
ASSUMPTIONS = ["A-REAL", "A-FFT", "A-MATH", "A-FOURIER"]
RTOL = 1e-9

NP_WINDOWS = {
    # name: (class name, numpy function name, area constant c: window sums to c*(width-1) in the limit)
    "bartlett": ("BartlettWindow", "bartlett", 0.5),
    "blackman": ("BlackmanWindow", "blackman", 0.42),
    "hamming": ("HammingWindow", "hamming", 0.54),
    "hann": ("HannWindow", "hanning", 0.5),
}


def _closed_form(name, width):
    """Textbook definition of the window shape (peak 1), independent of numpy's window functions."""
    if width == 0:
        return np.zeros(0)
    if width == 1:
        return np.ones(1)
    out = np.empty(width)
    for i in range(width):
        x = i / (width - 1)
        if name == "bartlett":
            out[i] = 1.0 - abs(2.0 * x - 1.0)
        elif name == "hann":
            out[i] = 0.5 - 0.5 * math.cos(2 * math.pi * x)
        elif name == "hamming":
            out[i] = 0.54 - 0.46 * math.cos(2 * math.pi * x)
        elif name == "blackman":
            out[i] = 0.42 - 0.5 * math.cos(2 * math.pi * x) + 0.08 * math.cos(4 * math.pi * x)
    return out


def _silence():
    cm = warnings.catch_warnings()
    cm.__enter__()
    warnings.simplefilter("ignore")
    return cm


# ------------------------------------------------------------------------------------------
# windows


def _verify_np(name, width, got, one, fails, stats):
    """all numpy-window clauses on ONE answer `got` for `width`; appends to fails; -> None"""
    cls_name, np_name, c = NP_WINDOWS[name]
    np_fn = getattr(np, np_name)
    stats["n"] += 1
    if not isinstance(got, np.ndarray) or got.shape != (width,) or got.dtype.kind != "f":
        fails.append(("C20.window.length", one, f"shape {getattr(got, 'shape', None)} dtype {getattr(got, 'dtype', None)}, wanted ({width},) float"))
        return
    if width == 0:
        return
    if not np.all(np.isfinite(got)):
        fails.append(("C20.window.numpy_shape", one, "non-finite samples"))
        return
    area = c * max(1, width - 1)
    ref = np_fn(width)
    neg = got < 0
    if neg.any():
        stats["min"] = min(stats["min"], float(got.min()))
        excus = neg & (ref < 0) & (got >= -1e-16)
        stats["neg_from_numpy"] += int(excus.sum())
        if (neg & ~excus).any():
            i = int(np.flatnonzero(neg & ~excus)[0])
            fails.append(("C20.window.nonneg", one, f"sample {i} = {got[i]!r} (numpy's own sample is {ref[i]!r})"))
    want = ref / area
    if not np.allclose(got, want, rtol=RTOL, atol=1e-18):
        i = int(np.argmax(np.abs(got - want)))
        fails.append(("C20.window.numpy_shape", one, f"sample {i} = {got[i]!r}, numpy.{np_name}({width})[{i}]/({c}*max(1,width-1)) = {want[i]!r}"))
    want2 = _closed_form(name, width) / area
    if not np.allclose(got, want2, rtol=RTOL, atol=1e-15 / area):
        i = int(np.argmax(np.abs(got - want2)))
        fails.append(("C20.window.closed_form", one, f"sample {i} = {got[i]!r}, closed form gives {want2[i]!r}"))
    if width >= 2:
        s = float(math.fsum(got))
        if not abs(s - 1.0) <= 2.0 / width:
            fails.append(("C20.window.unit_sum", one, f"samples sum to {s!r}; |sum-1| > 2/{width}"))


def _check_np_window(case):
    from pydrobert.speech import filters

    name = case["window"]
    cls_name, np_name, c = NP_WINDOWS[name]
    widths = range(case["w_lo"], case["w_hi"] + 1) if "w_lo" in case else [case["width"]]
    fails, stats = [], {"neg_from_numpy": 0, "min": 0.0, "n": 0}
    win = getattr(filters, cls_name)()
    for width in widths:
        w_arg = np.int64(width) if case.get("np_int") else int(width)
        one = dict(check="np_window", window=name, width=int(width), np_int=bool(case.get("np_int")))
        _REQUESTS[(name, None, None, int(width))] = _REQUESTS.get((name, None, None, int(width)), 0) + 1
        try:
            got = win.get_impulse_response(w_arg)
        except Exception as e:  # noqa
            fails.append(("C20.window.length", one, f"raised {type(e).__name__}: {e}"))
            continue
        _verify_np(name, int(width), got, one, fails, stats)
        if len(fails) > 8:
            break
    return fails, stats["n"] > 0 and max(widths) >= 2, stats


def _gamma_closed(order, peak, width):
    n = int(order)
    a = (n - 1) / (width - peak * width)
    out = np.empty(width)
    for i in range(width):
        t = float(width - 1 - i)
        out[i] = (a ** n) / math.factorial(n - 1) * (t ** (n - 1)) * math.exp(-a * t)
    return out


def _verify_gamma(order, peak, width, got, one, fails, stats, do_argmax=True):
    """all GammaWindow clauses on ONE answer `got` for `width`"""
    stats["n"] += 1
    if not isinstance(got, np.ndarray) or got.shape != (width,) or got.dtype.kind != "f":
        fails.append(("C20.gamma.length", one, f"shape {getattr(got, 'shape', None)} dtype {getattr(got, 'dtype', None)}, wanted ({width},) float"))
        return
    if width == 0:
        return
    if not np.all(np.isfinite(got)) or (got < 0).any():
        fails.append(("C20.gamma.nonneg", one, f"negative or non-finite sample (min {np.nanmin(got)!r})"))
        return
    if width >= 2 and order >= 2:
        want = _gamma_closed(order, peak, width)
        # relative 1e-9 with an absolute floor of 1e-15 of the window's peak: the library forms
        # t^(n-1) * exp(-a t + ln c) and the exponential alone can be subnormal for samples ~1e-289
        den = np.abs(want) + 1e-6 * float(np.max(want))
        rel = float(np.max(np.abs(got - want) / den))
        stats["worst_rel"] = max(stats["worst_rel"], rel)
        if not rel <= RTOL:
            i = int(np.argmax(np.abs(got - want) / den))
            fails.append(("C20.gamma.values", one, f"sample {i} (t={width-1-i}) = {got[i]!r}, reversed gamma density gives {want[i]!r}"))
        if do_argmax and width >= 8:
            am = int(np.argmax(got))
            pw = peak * width
            if abs(am - pw) > 1:
                stats["literal_viol"] += 1
            if not (pw - 2 < am <= pw):
                fails.append(("C20.gamma.argmax", one, f"arg-max {am} is not within (peak*width-2, peak*width] = ({pw-2}, {pw}]"))
    elif width >= 2 and order == 1:
        # a e^{-a t}: the last sample (t=0) is a, consecutive ratios are e^{-a}
        a = float(got[-1])
        t = np.arange(width - 1, -1, -1, dtype=float)
        want = a * np.exp(-a * t)
        if not (a > 0 and np.allclose(got, want, rtol=RTOL, atol=0.0)):
            i = int(np.argmax(np.abs(got - want)))
            fails.append(("C20.gamma.values", one, f"order 1: sample {i} = {got[i]!r}, a e^(-a t) with a = last sample {a!r} gives {want[i]!r}"))


def _check_gamma(case):
    from pydrobert.speech import filters

    order, peak = int(case["order"]), float(case["peak"])
    widths = range(case["w_lo"], case["w_hi"] + 1) if "w_lo" in case else [case["width"]]
    do_argmax = bool(case.get("argmax", True))
    fails, stats = [], {"n": 0, "literal_viol": 0, "worst_rel": 0.0}
    win = filters.GammaWindow(order, peak)
    if win.order != order or win.peak != peak:
        fails.append(("C20.gamma.values", case, "order / peak attributes not stored"))
    for width in widths:
        one = dict(check="gamma", order=order, peak=peak, width=int(width), argmax=do_argmax)
        _REQUESTS[("gamma", order, peak, int(width))] = _REQUESTS.get(("gamma", order, peak, int(width)), 0) + 1
        try:
            got = win.get_impulse_response(int(width))
        except Exception as e:  # noqa
            fails.append(("C20.gamma.length", one, f"raised {type(e).__name__}: {e}"))
            continue
        _verify_gamma(order, peak, int(width), got, one, fails, stats, do_argmax)
        if len(fails) > 8:
            break
    return fails, stats["n"] > 0 and max(widths) >= 2, stats


# ------------------------------------------------------------------------------------------
# sessions: many requests to the window functions, see C20.window.repeat

_ALIASES = {  # the aliases documented on the classes (`aliases = {...}  #:`)
    "bartlett": ["bartlett", "triangular", "tri"],
    "blackman": ["blackman", "black"],
    "hamming": ["hamming"],
    "hann": ["hanning", "hann"],
    "gamma": ["gamma"],
}


_REQUESTS = {}  # (window, order, peak, width) -> number of requests made so far in this process (all case kinds)


def _check_window_session(case):
    from pydrobert.speech import filters
    from pydrobert.speech.alias import alias_factory_subclass_from_arg

    name = case["window"]
    gamma = name == "gamma"
    order, peak = int(case.get("order", 4)), float(case.get("peak", 0.75))
    fails, raw = [], []
    stats = {"neg_from_numpy": 0, "min": 0.0, "n": 0, "literal_viol": 0, "worst_rel": 0.0, "repeats": 0}

    def make(how):
        if how.startswith("alias:"):
            if gamma:
                return filters.WindowFunction.from_alias(how[6:], order=order, peak=peak)
            return alias_factory_subclass_from_arg(filters.WindowFunction, how[6:])
        if how.startswith("mapping:"):
            d = {"name": how[8:]}
            if gamma:
                d.update(order=order, peak=peak)
            return alias_factory_subclass_from_arg(filters.WindowFunction, d)
        return filters.GammaWindow(order, peak) if gamma else getattr(filters, NP_WINDOWS[name][0])()

    obj = make("fresh")
    held, seen, history = [], {}, []

    def request(how, width, tag="", clause_after=None):
        w = obj if how == "same" else make(how)
        nth = seen.get(width, 0) + 1
        seen[width] = nth
        if nth > 1:
            stats["repeats"] += 1
        gkey = (name, order if gamma else None, peak if gamma else None, int(width))
        _REQUESTS[gkey] = total = _REQUESTS.get(gkey, 0) + 1
        where = (
            f"[request #{len(history) + 1}{tag}: width {width} via {how!r}, request no. {nth} for this width in the session"
            f"{'' if total == nth else f' (no. {total} in this process)'}; before it: {', '.join(f'{h}({x})' for h, x in history[-4:]) or 'nothing'}]"
        )
        # the case to replay: the requests up to and including this one (a request of the second round: that request
        # alone -- asked, overwritten by the caller, asked again)
        one = dict(case, requests=[[how, int(width)]] if clause_after else [list(r) for r in case["requests"][: len(history) + 1]])
        local = []
        try:
            got = w.get_impulse_response(int(width))
        except Exception as e:  # noqa
            fails.append(("C20.gamma.length" if gamma else "C20.window.length", one, f"{where} raised {type(e).__name__}: {e}"))
            history.append((how, width))
            return
        if gamma:
            _verify_gamma(order, peak, int(width), got, one, local, stats, do_argmax=order >= 2 and peak >= 0.5)
        else:
            _verify_np(name, int(width), got, one, local, stats)
        for c, o, m in local:
            # a clause that fails on the very first answer for this width is reported under its own id; on a later
            # answer it is a matter of history
            first_ever = total == 1 and clause_after is None
            cl = c if first_ever else (clause_after or "C20.window.repeat")
            fails.append((cl, o, f"{where} {'' if first_ever else c + ': '}{m}"))
        if isinstance(got, np.ndarray) and got.ndim == 1:
            held.append((f"request #{len(history) + 1} (width {width} via {how!r})", got, got.copy()))
        history.append((how, width))

    changed = False
    for how, width in case["requests"]:
        request(str(how), int(width))
        # "returns ... samples": what was returned earlier still has the values it was returned with
        if not changed:
            for d, a, c in held[:-1]:
                if a.shape != c.shape or a.tobytes() != c.tobytes():
                    i = int(np.argmax(np.abs(a - c))) if a.shape == c.shape and a.size else 0
                    changed = True
                    fails.append(
                        (
                            "C20.window.returned_array_changed",
                            dict(case, requests=[list(r) for r in case["requests"][: len(history)]]),
                            f"the array returned by {d} was changed while request #{len(history)} (width {width} via {how!r}) was served (sample {i}: {c[i] if c.size else None!r} -> {a[i] if a.size else None!r})",
                        )
                    )
                    break
        if len(fails) > 6:
            break
    # the caller owns what it was given: overwrite everything, then ask again (only when all went well so far)
    if not fails:
        n_held = len(held)
        for d, a, c in held:
            if a.flags.writeable and a.size:
                a[...] = np.nan
        again = []
        for how, width in case["requests"]:
            if (str(how), int(width)) not in again:
                again.append((str(how), int(width)))
        for how, width in again[:12]:
            request(how, width, tag=" (after the caller overwrote every array it had been given with NaN)", clause_after="C20.window.repeat_after_write")
            if len(fails) > 6:
                break
        # hygiene: put the original values back, so that a library-side cache shared between objects is not left
        # poisoned by this harness for the cases that follow
        for d, a, c in held[:n_held]:
            if a.flags.writeable and a.size:
                a[...] = c
    out, keys = [], set()
    for c, o, m in fails:
        if c not in keys:
            keys.add(c)
            out.append((c, o, m))
    return out, stats["repeats"] > 0 and max(int(w) for _, w in case["requests"]) >= 2, stats


def _window_session_cases(tier, seed):
    rng = _common.make_rng(seed, "c20:sessions")
    cases = []
    targets = [("bartlett", {}), ("hann", {}), ("hamming", {}), ("blackman", {}), ("gamma", {"order": 4, "peak": 0.75}), ("gamma", {"order": 2, "peak": 0.5}), ("gamma", {"order": 1, "peak": 0.25})]
    for name, extra in targets:
        al = _ALIASES[name]
        base = [1, 3, 400, 25, 2, 8, 401]
        seeded = [int(x) for x in rng.integers(2, 600 if tier == "quick" else 3000, 3 if tier == "quick" else 12)]
        # 1. the same width twice in a row on one object; 2. interleaved with other widths
        reqs = []
        for w in base + seeded:
            reqs += [["same", w], ["same", w]]
        ws = base + seeded
        reqs += [["same", w] for w in ws] + [["same", w] for w in reversed(ws)]
        cases.append(dict({"check": "window_session", "window": name, "requests": reqs}, **extra))
        # 3. fresh objects and the alias factory (string and mapping), mixed with the session's object
        reqs = []
        for w in [400, 1, 7] + seeded[:2]:
            reqs += [["fresh", w], ["fresh", w]]
            for a in al:
                reqs += [["alias:" + a, w], ["mapping:" + a, w]]
            reqs += [["same", w], ["fresh", w], ["same", w]]
        cases.append(dict({"check": "window_session", "window": name, "requests": reqs}, **extra))
        # 4. more distinct widths than any plausible small cache holds, then the same ones again, and the first few a third time
        span = list(range(0, 90 if tier == "quick" else 300))
        reqs = [["same", w] for w in span] + [["fresh" if w % 3 == 0 else "same", w] for w in span] + [["same", w] for w in span[:10]]
        cases.append(dict({"check": "window_session", "window": name, "requests": reqs}, **extra))
    return cases


# ------------------------------------------------------------------------------------------
# circshift_fourier


def _embed(seg, start, D):
    full = np.zeros(D, dtype=np.complex128)
    for k in range(len(seg)):
        full[(start + k) % D] += complex(seg[k])
    return full


def _circ_input(case):
    rng = _common.make_rng(case["seed"], "c20:circ:" + str(case["salt"]))
    n = int(case["n"])
    dt = np.dtype(case["dtype"])
    if dt.kind == "c":
        seg = (rng.standard_normal(n) + 1j * rng.standard_normal(n)).astype(dt)
    else:
        seg = rng.standard_normal(n).astype(dt)
    return seg


def _check_circshift(case):
    from pydrobert.speech import util

    fails, stats = [], {}
    seg = _circ_input(case)
    before = seg.copy()
    n, start = len(seg), int(case["start_idx"])
    D_arg = case["dft_size"]  # int, None (passed explicitly) or "omit"
    D = n + start if D_arg in (None, "omit") else int(D_arg)
    shift = case["shift"]
    if case.get("shift_type") == "float":
        shift_arg = float(shift)
    elif case.get("shift_type") == "np":
        shift_arg = np.int64(shift)
    else:
        shift_arg = int(shift)
    copy = case["copy"]  # True, False, or "omit"
    kwargs = {}
    if D_arg != "omit":
        kwargs["dft_size"] = D_arg
    if copy != "omit":
        kwargs["copy"] = bool(copy)
    if start != 0 or case.get("pass_start", True):
        kwargs["start_idx"] = start
    x_in = np.fft.ifft(_embed(before, start, D))
    try:
        cm = _silence()
        try:
            out = util.circshift_fourier(seg, shift_arg, **kwargs)
        finally:
            cm.__exit__(None, None, None)
    except Exception as e:  # noqa
        return [("C20.circshift.defined", case, f"circshift_fourier raised {type(e).__name__}: {e}")], n > 0, stats
    if not isinstance(out, np.ndarray) or out.shape != seg.shape or out.dtype != np.complex128:
        fails.append(("C20.circshift.dtype", case, f"result shape/dtype {getattr(out, 'shape', None)}/{getattr(out, 'dtype', None)}, wanted {seg.shape}/complex128"))
        if not isinstance(out, np.ndarray) or out.shape != seg.shape:
            return fails, n > 0, stats
    x_out = np.fft.ifft(_embed(out, start, D))
    want = np.roll(x_in, int(shift))
    scale = max(float(np.max(np.abs(x_in))), 1e-300)
    err = float(np.max(np.abs(x_out - want))) / scale
    stats["err"] = err
    if not err <= RTOL:
        fails.append(("C20.circshift.shift", case, f"ifft(out) differs from roll(ifft(in), {shift}) by {err:.3g} of max|x| (dft size {D}, start {start}, len {n})"))
    is_copy = copy in (True, "omit")
    if is_copy:
        if seg.dtype != before.dtype or seg.tobytes() != before.tobytes():
            fails.append(("C20.circshift.copy", case, "input modified although copy=True"))
        if n and np.shares_memory(out, seg):
            fails.append(("C20.circshift.copy", case, "result shares memory with the input although copy=True"))
    elif seg.dtype == np.complex128:
        if out is not seg:
            fails.append(("C20.circshift.copy", case, "copy=False with complex128 input did not return the same object"))
    nontrivial = n > 0 and (int(shift) % D != 0) and float(np.max(np.abs(x_in))) > 0
    if case.get("repeat") and not fails:
        # the same call once more on an equal input: "for every ... the inverse DFT of circshift_fourier's output is the
        # inverse DFT of its input circularly shifted" holds for the second call as for the first, and the first
        # output keeps its values
        seg2 = before.copy()
        first = out.copy()
        try:
            cm = _silence()
            try:
                out2 = util.circshift_fourier(seg2, shift_arg, **kwargs)
            finally:
                cm.__exit__(None, None, None)
        except Exception as e:  # noqa
            return [("C20.circshift.defined", case, f"second identical call raised {type(e).__name__}: {e}")], nontrivial, stats
        if not isinstance(out2, np.ndarray) or out2.shape != seg.shape or out2.dtype != np.complex128:
            fails.append(("C20.circshift.dtype", case, f"second identical call: result shape/dtype {getattr(out2, 'shape', None)}/{getattr(out2, 'dtype', None)}"))
            return fails, nontrivial, stats
        err2 = float(np.max(np.abs(np.fft.ifft(_embed(out2, start, D)) - want))) / scale
        if not err2 <= RTOL:
            fails.append(("C20.circshift.shift", case, f"second identical call: ifft(out) differs from roll(ifft(in), {shift}) by {err2:.3g} of max|x| (first call: {err:.3g})"))
        if out.tobytes() != first.tobytes():
            fails.append(("C20.circshift.shift", case, "the output of the first call was changed by a second call on another array"))
        if is_copy and (seg2.tobytes() != before.tobytes()):
            fails.append(("C20.circshift.copy", case, "second identical call: input modified although copy=True"))
        if n and (np.shares_memory(out2, out) or (is_copy and np.shares_memory(out2, seg2))):
            fails.append(("C20.circshift.copy", case, "second identical call: result shares memory with the first result / its own input"))
    return fails, nontrivial, stats


# ------------------------------------------------------------------------------------------
# gauss_quant


def _mp_quantile(p_float):
    """Standard normal quantile of the exact binary value of p_float, 40 digits (Newton on log cdf)."""
    import mpmath as mp

    mp.mp.dps = 40
    p = mp.mpf(p_float)  # exact
    upper = p > mp.mpf(1) / 2
    r = 1 - p if upper else p  # exact in mp arithmetic at 40 digits for doubles >= 2^-53 from 1
    if r == mp.mpf(1) / 2:
        return mp.mpf(0)
    # lower-tail quantile z < 0 with cdf(z) = r;  cdf(z) = erfc(-z/sqrt2)/2
    z = -mp.sqrt(-2 * mp.log(r)) if r < mp.mpf("0.1") else mp.mpf(-1) * (1 - 2 * r) * mp.mpf("1.2533")
    lr = mp.log(r)
    for _ in range(60):
        c = mp.erfc(-z / mp.sqrt(2)) / 2
        pdf = mp.exp(-z * z / 2) / mp.sqrt(2 * mp.pi)
        step = (mp.log(c) - lr) * c / pdf
        z = z - step
        if abs(step) < mp.mpf(10) ** -30:
            break
    else:
        raise RuntimeError("newton did not converge")
    return -z if upper else z


def _gq_funcs():
    from pydrobert.speech import util

    fns = [("gauss_quant", util.gauss_quant)]
    oe = getattr(util, "_gauss_quant_odeh_evans", None)
    if oe is not None and oe is not util.gauss_quant:
        fns.append(("_gauss_quant_odeh_evans", oe))
    return fns


def _p_from(spec):
    """p as float from ("lo", decimal string) -> float(s); ("hi", decimal string q) -> 1 - float(q)
    (exact: 1 - q is representable for q a multiple of 2^-53 ... otherwise rounded once, and the oracle
    then uses the exact binary value of the float that is actually passed)."""
    side, s = spec
    return float(s) if side == "lo" else 1.0 - float(s)


def _gq_grid(kind, seed=0, n=2000):
    ps = []
    if kind in ("mono", "acc"):
        k_lo = np.linspace(-20, math.log10(0.5), n // 2)
        ps += [10.0 ** k for k in k_lo]
        k_hi = np.linspace(-16, math.log10(0.5), n // 2)
        ps += [1.0 - 10.0 ** k for k in k_hi]
        ps += [1e-20, 1.0 - 1e-16, 0.5, 0.5 - 1e-9, 0.5 + 1e-9, 0.25, 0.75]
    if kind == "mono":
        ps += list(np.linspace(1e-4, 1 - 1e-4, 9999))
        one = 1.0
        x = one
        for _ in range(60):
            x = float(np.nextafter(x, 0))
            ps.append(x)
    if kind == "ulp":
        # doubles adjacent to 0.5: spacing (1e-16) is below the resolution of y = sqrt(-2 ln r), so only
        # "never decreasing" can be asked of them (A-REAL); they guard the sign switch at p = 0.5
        x = 0.5
        y = 0.5
        ps += [0.5, 0.4, 0.6]
        for _ in range(60):
            x = float(np.nextafter(x, 0))
            y = float(np.nextafter(y, 1))
            ps += [x, y]
    if kind == "acc":
        rng = _common.make_rng(seed, "c20:gq")
        ps += list(rng.uniform(0, 1, n // 4))
        ps += list(10.0 ** rng.uniform(-20, -0.3, n // 8))
        ps += list(1.0 - 10.0 ** rng.uniform(-15.9, -0.3, n // 8))
    ps = np.unique(np.asarray(ps, dtype=np.float64))
    return ps[(ps > 0) & (ps < 1)]


def _check_gauss(case):
    fails, stats = [], {}
    chk = case["check"]
    fns = _gq_funcs()
    if chk == "gq.monotone":
        ps = np.asarray(case["points"], float) if case.get("points") else _gq_grid("mono")
        inside = ps[(ps >= 1e-20) & (ps <= 1 - 1e-16)]
        extra = np.unique(np.array([1e-300, 1e-30, 1e-25, 1e-21] + list(inside) + list(_gq_grid("ulp")))) if not case.get("points") else ps
        for nm, fn in fns:
            z = np.array([float(fn(float(p))) for p in inside])
            if not np.all(np.isfinite(z)):
                fails.append(("C20.gauss_quant.monotone", dict(case, points=[float(inside[~np.isfinite(z)][0])]), f"{nm}: non-finite quantile"))
                continue
            bad = np.flatnonzero(~(np.diff(z) > 0))
            if len(bad):
                i = int(bad[0])
                fails.append(("C20.gauss_quant.monotone", dict(case, points=[float(inside[i]), float(inside[i + 1])]), f"{nm}: q({inside[i]!r}) = {z[i]!r} >= q({inside[i+1]!r}) = {z[i+1]!r} ({len(bad)} such pairs)"))
            z2 = np.array([float(fn(float(p))) for p in extra])
            bad = np.flatnonzero(~(np.diff(z2) >= 0))
            if len(bad):
                i = int(bad[0])
                fails.append(("C20.gauss_quant.monotone", dict(case, points=[float(extra[i]), float(extra[i + 1])]), f"{nm}: decreasing: q({extra[i]!r}) = {z2[i]!r} > q({extra[i+1]!r}) = {z2[i+1]!r}"))
            # antisymmetry is implied by inverting the normal cdf: q(p) = -q(1-p) where 1-p is exact
        stats["n"] = len(inside)
        return fails, len(inside) >= 2, stats
    if chk == "gq.affine":
        rng = _common.make_rng(case["seed"], "c20:aff:" + str(case["salt"]))
        ps = _gq_grid("acc", case["seed"], 400)
        worst = 0.0
        for nm, fn in fns:
            for p in ps:
                mu, std = float(rng.uniform(-100, 100)), float(10 ** rng.uniform(-3, 3))
                base = float(fn(float(p)))
                for args, kw in (((float(p), mu, std), {}), ((float(p),), {"mu": mu, "std": std})):
                    got = float(fn(*args, **kw))
                    want = mu + std * base
                    err = abs(got - want) / max(abs(mu), abs(std * base), 1e-300)
                    worst = max(worst, err)
                    if not err <= 1e-12:
                        fails.append(("C20.gauss_quant.affine", dict(case, p=float(p), mu=mu, std=std), f"{nm}({p!r}, {mu!r}, {std!r}) = {got!r}, mu + std*q(p) = {want!r}"))
                        break
                if len(fails) > 4:
                    break
            # defaults are mu = 0, std = 1
            if float(fn(0.3)) != float(fn(0.3, 0, 1)):
                fails.append(("C20.gauss_quant.affine", case, f"{nm}: defaults are not mu=0, std=1"))
        stats["worst"] = worst
        stats["n"] = len(ps)
        return fails, True, stats
    if chk == "gq.accuracy":
        if case.get("points"):
            ps = np.asarray(case["points"], float)
        else:
            ps = _gq_grid("acc", case["seed"], int(case.get("n", 2000)))
            ps = ps[np.minimum(ps, 1 - ps) >= 1e-20]
        worst, wp = 0.0, None
        for p in ps:
            want = _mp_quantile(float(p))
            for nm, fn in fns:
                for nth in (1, 2):  # every probability is asked twice; each answer is under the clause
                    got = float(fn(float(p)))
                    err = abs(float(got - want)) if math.isfinite(got) else float("inf")
                    if err > worst:
                        worst, wp = err, float(p)
                    if not err <= 1e-6:
                        fails.append(("C20.gauss_quant.accuracy", dict(case, points=[float(p)]), f"{nm}({p!r}) = {got!r}{' on the second identical call' if nth == 2 else ''}, normal quantile is {float(want)!r} (error {err:.3g} standard deviations)"))
                        break
            if len(fails) > 4:
                break
        stats["worst"], stats["worst_p"], stats["n"] = worst, wp, len(ps)
        return fails, len(ps) > 0, stats
    raise ValueError(chk)


def _check_angular(case):
    from pydrobert.speech import util

    rng = _common.make_rng(case["seed"], "c20:ang:" + str(case["salt"]))
    fails, stats = [], {}
    n = int(case["n"])
    rates = [8000.0, 16000.0, 44100.0, 1.0, 22050.5, 11025] + [float(10 ** rng.uniform(0, 6)) for _ in range(4)]
    worst = 0.0
    for rate in rates:
        fs = np.concatenate([rng.uniform(-1e5, 1e5, n), 10 ** rng.uniform(-6, 5, n), [0.0, rate / 2, rate]])
        for f in fs:
            f = float(f)
            w = util.hertz_to_angular(f, rate)
            want = f * 2 * math.pi / rate
            if not abs(w - want) <= 1e-12 * abs(want):
                fails.append(("C20.angular.formula", dict(case, f=f, rate=rate), f"hertz_to_angular({f!r}, {rate!r}) = {w!r}, f*2*pi/rate = {want!r}"))
            back = util.angular_to_hertz(w, rate)
            e1 = abs(back - f) / abs(f) if f else abs(back)
            w2 = float(want)
            f2 = util.angular_to_hertz(w2, rate)
            want2 = w2 * rate / (2 * math.pi)
            if not abs(f2 - want2) <= 1e-12 * abs(want2):
                fails.append(("C20.angular.formula", dict(case, w=w2, rate=rate), f"angular_to_hertz({w2!r}, {rate!r}) = {f2!r}, w*rate/(2 pi) = {want2!r}"))
            back2 = util.hertz_to_angular(f2, rate)
            e2 = abs(back2 - w2) / abs(w2) if w2 else abs(back2)
            worst = max(worst, e1, e2)
            if not (e1 <= 1e-12 and e2 <= 1e-12):
                fails.append(("C20.angular.inverse", dict(case, f=f, rate=rate), f"round trips: f {f!r} -> {back!r}; w {w2!r} -> {back2!r}"))
            if len(fails) > 4:
                return fails, True, stats
    stats["worst"] = worst
    return fails, True, stats


def _check_case(case):
    _common.use_repo()
    chk = case["check"]
    if chk == "np_window":
        return _check_np_window(case)
    if chk == "gamma":
        return _check_gamma(case)
    if chk == "window_session":
        return _check_window_session(case)
    if chk == "circshift":
        return _check_circshift(case)
    if chk.startswith("gq."):
        return _check_gauss(case)
    if chk == "angular":
        return _check_angular(case)
    raise ValueError(chk)


# ------------------------------------------------------------------------------------------


def _circ_cases(tier, seed):
    rng = _common.make_rng(seed, "c20:circ-enum")
    cases = []
    # the documented defaults first
    k = 0

    def add(n, start, D, shift, copy, dtype, shift_type="int"):
        nonlocal k
        cases.append({"check": "circshift", "n": n, "start_idx": start, "dft_size": D, "shift": shift, "copy": copy, "dtype": dtype, "shift_type": shift_type, "seed": seed, "salt": k, "repeat": True})
        k += 1

    add(8, 0, "omit", 3, "omit", "complex128")
    add(8, 0, None, 3, True, "complex128")
    add(5, 3, None, -2, False, "complex128")
    add(5, 3, "omit", 11, True, "float64")
    # small exhaustive block
    for D in (1, 2, 3, 4, 5, 8, 9):
        for start in range(D):
            for n in sorted({1, max(1, D // 2), D}):
                for shift in sorted({-D - 1, -1, 0, 1, D - 1, D, 2 * D + 1}):
                    if tier == "quick" and (D > 5 and (start + shift) % 2):
                        continue
                    add(n, start, D, shift, bool((start + shift + n) % 2), "complex128")
    n_rand = 1500 if tier == "quick" else 20000
    for _ in range(n_rand):
        dmode = rng.integers(0, 3)
        n = int(rng.integers(1, 65))
        if dmode == 0:
            D = int(rng.integers(n, 130))
            start = int(rng.integers(0, D))
        else:
            start = int(rng.integers(0, 65))
            D = None if dmode == 1 else "omit"
        Deff = D if isinstance(D, int) else n + start
        shift = int(rng.integers(-3 * Deff - 2, 3 * Deff + 3))
        copy = [True, False, "omit"][int(rng.integers(0, 3))]
        dtype = ["complex128", "complex128", "complex64", "float64", "float32"][int(rng.integers(0, 5))]
        st = ["int", "int", "float", "np"][int(rng.integers(0, 4))]
        add(n, start, D, shift, copy, dtype, st)
    return cases


def _enumerate(tier, seed):
    cases = []
    # cheapest and most discriminating first
    cases += _circ_cases(tier, seed)[:4]
    for name in NP_WINDOWS:
        cases.append({"check": "np_window", "window": name, "w_lo": 0, "w_hi": 64})
    cases += _window_session_cases(tier, seed)
    cases.append({"check": "gq.monotone"})
    cases.append({"check": "gq.affine", "seed": seed, "salt": 0})
    cases.append({"check": "angular", "seed": seed, "salt": 0, "n": 50 if tier == "quick" else 2000})
    cases.append({"check": "gq.accuracy", "seed": seed, "n": 2000 if tier == "quick" else 20000})
    for name in NP_WINDOWS:
        for lo in range(65, 4097, 256):
            cases.append({"check": "np_window", "window": name, "w_lo": lo, "w_hi": min(4096, lo + 255)})
        cases.append({"check": "np_window", "window": name, "w_lo": 0, "w_hi": 40, "np_int": True})
    peaks_argmax = (0.5, 0.75, 0.9)
    for order in (2, 4, 3, 5, 6):
        for peak in peaks_argmax:
            cases.append({"check": "gamma", "order": order, "peak": peak, "w_lo": 0, "w_hi": 40, "argmax": True})
            if tier == "quick":
                # every width 8..2048 is visited in thorough; quick takes a stride that keeps every residue mod 4 / 10
                for lo, hi in ((41, 300), (301, 330), (1000, 1030), (2019, 2048)):
                    cases.append({"check": "gamma", "order": order, "peak": peak, "w_lo": lo, "w_hi": hi, "argmax": True})
            else:
                for lo in range(41, 2049, 251):
                    cases.append({"check": "gamma", "order": order, "peak": peak, "w_lo": lo, "w_hi": min(2048, lo + 250), "argmax": True})
                cases.append({"check": "gamma", "order": order, "peak": peak, "w_lo": 4000, "w_hi": 4096, "argmax": True})
    for order in (1, 2, 4, 8):
        for peak in (0.1, 0.25, 0.6, 0.99):
            cases.append({"check": "gamma", "order": order, "peak": peak, "w_lo": 0, "w_hi": 64 if tier == "quick" else 600, "argmax": False})
            cases.append({"check": "gamma", "order": order, "peak": peak, "w_lo": 4090, "w_hi": 4096, "argmax": False})
    cases += _circ_cases(tier, seed)[4:]
    return cases


def run(tier: str, seed: int) -> dict:
    _common.use_repo()
    col = _common.Collector(PROPERTY, tier, seed, budget_s=50 if tier == "quick" else 540)
    agg = {"neg": 0, "min": 0.0, "literal": 0, "gamma_rel": 0.0, "circ": 0.0, "nwin": 0, "ngam": 0, "nsess": 0, "nsess_req": 0, "nsess_rep": 0}
    for case in _enumerate(tier, seed):
        if col.out_of_time() or col.too_many_failures():
            col.note("stopped early (time or failure cap)")
            break
        try:
            fails, nontrivial, stats = _check_case(case)
        except Exception as e:  # noqa
            fails, nontrivial, stats = [("C20.exception", case, f"{type(e).__name__}: {e}")], False, {}
        chk = case["check"]
        col.case(case, nontrivial=nontrivial, sample=case if chk in ("circshift", "gamma") and col.evaluations % 7 == 0 else None)
        if chk == "window_session":
            agg["nsess"] += 1
            agg["nsess_req"] += stats.get("n", 0)
            agg["nsess_rep"] += stats.get("repeats", 0)
            agg["gamma_rel"] = max(agg["gamma_rel"], stats.get("worst_rel", 0.0))
        elif chk == "np_window":
            agg["neg"] += stats.get("neg_from_numpy", 0)
            agg["min"] = min(agg["min"], stats.get("min", 0.0))
            agg["nwin"] += stats.get("n", 0)
        elif chk == "gamma":
            agg["literal"] += stats.get("literal_viol", 0)
            agg["gamma_rel"] = max(agg["gamma_rel"], stats.get("worst_rel", 0.0))
            agg["ngam"] += stats.get("n", 0)
        elif chk == "circshift":
            agg["circ"] = max(agg["circ"], stats.get("err", 0.0))
        elif chk == "gq.accuracy":
            col.note(f"gauss_quant: worst error vs mpmath over {stats.get('n')} probabilities with min(p,1-p) >= 1e-20: {stats.get('worst', float('nan')):.3g} standard deviations at p = {stats.get('worst_p')!r} (tolerance 1e-6)")
        elif chk == "gq.monotone":
            col.note(f"gauss_quant: strictly increasing on {stats.get('n')} sorted distinct probabilities in [1e-20, 1-1e-16] (incl. the 60 doubles next to 1); non-decreasing when 1e-300..1e-21 and the 60 doubles on each side of 0.5 (spacing below the resolution of the formula) are added")
        elif chk == "gq.affine":
            col.note(f"gauss_quant: worst relative deviation from mu + std*q(p): {stats.get('worst', float('nan')):.2e} (tolerance 1e-12)")
        elif chk == "angular":
            col.note(f"angular/hertz: worst round-trip relative error {stats.get('worst', float('nan')):.2e} (tolerance 1e-12)")
        for clause, c, msg in fails:
            col.fail(clause, c, msg)
    col.note(f"windows: {agg['nwin']} (window, width) evaluations; negative samples excused because numpy's own window is negative there: {agg['neg']} (most negative {agg['min']:.3g}; Blackman end points, numpy.blackman itself returns -1.4e-17)")
    col.note(f"GammaWindow: {agg['ngam']} (order, peak, width) evaluations; worst relative deviation from the closed form {agg['gamma_rel']:.2e}; widths where the literal reading |argmax - peak*width| <= 1 does not hold (fractional peak*width, arg-max = floor(peak*width) - 1): {agg['literal']} (note only)")
    col.note(f"window sessions: {agg['nsess']} sessions (4 numpy-shaped windows, GammaWindow orders 4/2/1) with {agg['nsess_req']} requests, {agg['nsess_rep']} of them for a width already requested in the session (same object twice in a row, interleaved, fresh objects, every alias via the factory, > 64 distinct widths in between); every answer checked against all window clauses, earlier answers re-read at the end, and requests repeated after overwriting the returned arrays")
    col.note(f"circshift_fourier: every case makes the call twice on equal inputs; worst |ifft(out) - roll(ifft(in))| / max|x| = {agg['circ']:.2e} (tolerance 1e-9)")
    return col.result(
        rule="one case = a block of consecutive widths of one window (each width is evaluated; blocks of <= 256), one window session (a list of (how, width) requests to one window function: same object / fresh object / alias factory; non-trivial when a width >= 2 is requested more than once), one circshift_fourier call made twice (segment seed, length, start_idx, dft_size int|None|omitted, shift, copy True|False|omitted, dtype, shift type), or one gauss_quant / angular grid; non-trivial: block reaches width >= 2; circshift with non-empty segment, shift % D != 0; grids non-empty",
        bound="BOUNDED: widths 0..4096 for the four numpy-shaped windows (all), 3 sessions per window function (7 functions: 4 numpy-shaped, GammaWindow (4,0.75), (2,0.5), (1,0.25)) of 40-300 requests on widths 0..89 (thorough 0..299), {1,2,3,7,8,25,400,401} and 3 (12) seeded widths < 600 (3000), gauss_quant probabilities asked twice, GammaWindow orders 1..6,8 x peaks {0.5,0.75,0.9 (arg-max), 0.1,0.25,0.6,0.99 (values only)} x widths 0..2048 (quick: 0..330, 1000..1030, 2019..2048) and ..4096; values clause for width >= 2; circshift_fourier: integer-valued shifts in [-3D-2, 3D+2], D <= 129, 0 <= start_idx < D (given D) or <= 64 (defaulted), 1 <= len <= min(D,64), dtypes c128/c64/f64/f32; gauss_quant on ~2.5e3 (quick) / 2.5e4 (thorough) probabilities, oracle mpmath 40 digits",
        assumptions=ASSUMPTIONS,
    )


def replay(case: dict):
    _common.use_repo()
    try:
        fails, _, _ = _check_case(case)
    except KeyError as e:
        if e.args and isinstance(e.args[0], str) and e.args[0] not in case and e.args[0] in ("seed", "salt", "n", "check", "window", "w_lo", "w_hi", "order", "peak", "requests"):
            raise ValueError(f"malformed C20 case: field {e.args[0]!r} is missing")  # a harness problem, not a verdict on the real code
        return False, f"C20.exception {type(e).__name__}: {e}"
    except Exception as e:  # noqa
        return False, f"C20.exception {type(e).__name__}: {e}"
    if fails:
        return False, "; ".join(f"{c}: {m}" for c, _, m in fails[:3])
    return True, f"C20 {case.get('check')} holds on the case"


if __name__ == "__main__":
    from rtc import _common
    import sys

    _common.main(sys.modules[__name__])

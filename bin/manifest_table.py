# Table read by bin/mkmanifest. add(property, category, text, technique, note)
T = "contract-based deductive verification (sidecar contracts on the real functions -> VCs generated from the AST on every run -> z3/cvc5)"
TB = T + " + bounded runtime-contract stand-in for what no VC decides"
MIX = " Mixed proof + bounded, hence 'other'; the evidence file gives obligations/discharged and, separately and labelled bounded, the stand-in's counts."

add("C01", "other",
    "STFT: compute_chunk is proved to preserve a data invariant relating its buffer, counters and the ghost stream of all samples fed so far, and "
    "to hand _compute_frame exactly the documented frames, for every frame length, shift <= length, chunk length and history, in all three framing "
    "modes; finalize is proved to emit exactly the remaining frames of the whole-signal specification (count and contents incl. the symmetric "
    "reflection, outside the one open known finding) and frame_by_frame_calculation to feed consecutive slices covering the signal once; so any "
    "chunking followed by finalize equals compute_full by induction over chunks. Short-integration computer: compute_chunk is proved to preserve "
    "the overlap-save invariant (ring buffer = last D samples of the ghost stream; pending / filtered / emitted counters; frame count a function "
    "of the samples pushed only) and to hand _fill_y_buf, for every DFT block, a window that ends exactly where the next filtered samples begin, "
    "for every shift, support, DFT size, chunk length and history; _fill_y_buf accumulates every new sample exactly once into the right block at "
    "the right window offset; finalize / compute_full reach the whole-signal frame count through compute_chunk's contract. Value-level round-off "
    "(float32 included) and the FFT itself are decided by the bounded stand-in (chunked vs whole runs of the real code)." + MIX, TB)
add("C02", "other",
    "Proved for all sizes and flags: compute_full returns NF(N) frames, each the documented sample range with symmetric reflection; _compute_frame's "
    "half-spectrum walk pairs every filter tap exactly once with full-spectrum bin (b0+j) mod D (conjugate-mirrored past Nyquist), with the doubling "
    "for real banks, log floor and energy coefficient; the constructor makes buffer, window and DFT size fit (len(window) = L <= D, every filter "
    "truncated for width D); the doubling's precondition (zero taps at DC/Nyquist, support inside the half spectrum) is proved for the triangular "
    "bank and for Fbank from their constructors' invariants. Numeric agreement with an independent full-DFT oracle (all signal dtypes, run-time "
    "LOG_FLOOR_VALUE) and the default-frame-length clause are bounded." + MIX, TB)
add("C03", "other",
    "Proved for every frame shift s >= 1, longest support M, DFT size D >= M + s - 1, chunk length and history (both frame styles): the overlap-save "
    "bookkeeping of compute_chunk (each filtered sample produced exactly once, in order, from a window of D samples ending at that sample; asserts, "
    "indices and buffer copies safe), _handle_skip and _compute_preamble (what an utterance starts from), _fill_y_buf (every new sample "
    "accumulated once, into block (y_rem+i)//s at window offset (y_rem+i)%s, |y|^p of the inverse transform of X*filter), _compute_frame (frame "
    "= first window half on the oldest block + second half on the next, log-floored; blocks shift by one), the transform helpers (DFT-size "
    "points, double precision for every floating input dtype, complex128), and - under the property's hypothesis s < one-sided support - that "
    "compute_full returns (N + s//2)//s frames; the constructor's geometry, support and filter slices (filter i is _compute_dft of the impulse "
    "response rolled by _translation - centre_i (centered) or _translation (causal) and clamped to the longest support; the energy channel's "
    "filter is the transform of a unit impulse at _translation). Assumed: numpy.fft is the DFT and the last D-M+1 outputs of a D-point circular convolution are "
    "linear-convolution values (A-FFT). The numeric agreement with a direct-convolution oracle over banks x styles x "
    "flags x dtypes x lengths is bounded." + MIX, TB)
add("C04", "other",
    "Proved: STFT finalize resets every per-utterance attribute to the constructor's value (constants read from __init__), the fresh state satisfies the "
    "data invariant of an empty utterance whatever the buffer holds, compute_full / frame_by_frame_calculation raise ValueError exactly when started "
    "and write nothing before raising, compute_chunk establishes started, and no store reaches a parameter array. Short-integration computer: "
    "_compute_preamble leaves a mid-utterance state untouched and otherwise re-zeroes both buffers and sets the counters of an empty utterance "
    "(ValueError exactly for a dtype change / non-float first chunk, nothing written before it); finalize clears started and the remembered dtype; "
    "compute_full raises exactly when started. Arbitrary call histories are exercised by the bounded stand-in (bit-exact comparison with fresh "
    "instances)." + MIX, TB)
add("C05", "other",
    "Proved for the triangular bank, Fbank and the Gabor bank against the CONTRACT of ScalingFunction (strictly increasing, mutually inverse "
    "maps - C19): vertices / band edges equally spaced on the scale and strictly increasing, from low_hz to min(high_hz, Nyquist) (Fbank, Gabor: "
    "to high_hz <= floor(rate/2)); ValueError exactly for the stated bad ranges; triangular / Fbank truncated responses equal the documented "
    "triangle (Fbank: its square root in mel) at every bin; every Gabor centre is the midpoint of its edges, lies strictly inside its supports_hz, "
    "has a positive width and a temporal support (-d, d), d >= 1. Gain, 3 dB / ERB / L2 constants, scale_l2_norm and the gammatone bank are bounded "
    "(numeric)." + MIX, TB)
add("C06", "other",
    "Proved for the triangular bank and Fbank: start bin in [0, width), support within the half spectrum, taps equal to the documented response "
    "(so the rebuilt response is the full response), zero at DC / Nyquist, from the constructors' invariants (also proved); for both "
    "banks also get_frequency_response: documented length with and without half, the triangle at every bin, the real bank's full response "
    "Hermitian-symmetric with the triangle on its leading bins (so half=True is a prefix of it), the analytic bank zero above the Nyquist bin. "
    "For the Gabor bank the documented length of get_frequency_response (with and without half), index safety of its stores and the start bin / "
    "shape of get_truncated_response (also for the gammatone bank) are proved, the values are not. "
    "The 2 x threshold clause for Gabor / gammatone, the half / full / Hermitian clauses of the other banks, reuse of one bank object across "
    "requests and boundary-valued frequency ranges are bounded." + MIX, TB)
add("C07", "other",
    "Proved: the `supports` of the triangular bank and of Fbank give one integer pair per filter with left < 0 < right (straddle sample 0), the two "
    "sides differing by at most one sample, and the support formula is well defined (no division by zero, roots and fractional powers of "
    "positive numbers only) for every increasing vertex sequence; the gammatone bank's temporal support starts at the floor of the filter's onset, "
    "i.e. at sample 0 for causal (not max_centered) banks, whatever the Newton iteration for its right end yields. Everything else of the property is numerical Fourier analysis (inverse DFT "
    "vs impulse response within 2 x threshold, tail magnitudes outside the advertised supports, realness) and is decided by the bounded "
    "stand-in on the statement's exact domain, including the library's default configurations." + MIX, TB)
add("C08", "other",
    "Proved: AliasedFactory.from_alias on flat families of ANY size (a root with n direct subclasses, as every shipped family is): an instance of "
    "the last registered subclass carrying the alias - the root only if no subclass does - built with exactly the caller's arguments, ValueError iff "
    "nobody carries it; syntactic obligations on the shipped class tables (every `aliases` attribute is a set display of string literals - a bare "
    "string would make membership a substring test -, no alias is carried by two classes of one family); alias_factory_subclass_from_arg over all argument shapes (instance / str / mapping with alias, name, both, neither): which constructor "
    "call is made with which keywords, KeyError when neither key is present, the caller's mapping never mutated. Registry resolution is exhaustive "
    "by enumeration (AST-read class table vs the real from_alias) and shadowing / nested JSON round trips are bounded." + MIX, TB)
add("C09", "other",
    "Proved at term level (processors, readers and writers are uninterpreted, so the result is compared as a composition term): the Kaldi tool's "
    "utterance loop stores, under the utterance's own id, float32-or-double( post-processors in order, iff >= 1 frame ( compute_full( "
    "pre-processors in order ( the requested channel )))), skips exactly the documented cases, writes every other utterance once and in input "
    "order and returns 0 iff something was written; the torch tool's _FeatureProcessorDataset.__getitem__ (whole body) reads this utterance's path "
    "as float64 with force_as and key, applies the documented channel rules / ValueErrors, then pre-processors, computer (or a one-column matrix), "
    "post-processors in order and a float cast; the torch tool's resume logic removes exactly the stripped manifest lines; the torch STFT "
    "functional meets the compute_full specification (see C14); both tools use a given --seed (0 included); every configuration argument is "
    "_load_config of exactly one text - the named file's content if it can be opened, the argument itself otherwise - so the three syntaxes reach "
    "the tools as the parser's reading of that text. The numerical equality with the "
    "library pipeline, the three configuration syntaxes and the rest of the two script-like functions are exercised end to end by the bounded "
    "stand-in." + MIX, TB)
add("C10", "other",
    "Proved on statement slices of signals_to_torch_feat_dir with an effect trace (assumed torch.save / buffered-file contracts): a manifest line is "
    "written only after its file is complete, is flushed with the write, files are named dir/prefix+utt+suffix, every item once and in order; the "
    "base seed is the given --seed; each utterance is seeded by base + its position in the FULL map before anything else touches the RNG, and that "
    "position table is built before the manifest removes anything; on resume the manifest is rewound and exactly its stripped lines are removed from "
    "the work list (one defaulted pop per line); __getitem__ (whole body) assigns nothing on the dataset object, so the item depends on the "
    "utterance alone (worker independence). Real kills (SIGKILL / KeyboardInterrupt at every write) and worker counts are bounded." + MIX, TB)
add("C11", "other",
    "Proved: read_signal's dispatch for an arbitrary force_as string (exactly the documented helper, called with (source, dtype, key, **kwargs), "
    "result returned unchanged; ValueError for a stream without force_as, kaldi/table with a stream, or an undocumented force_as, before any reader "
    "runs), the suffix inference against the documented order (z3 strings), wds_read_signal's totality, and the .npy / .npz / raw / .pt helpers "
    "(one load of exactly the given source with the caller's keyword arguments, entry `key` or 'arr_0', one cast iff a dtype is given), the wave "
    "helper (all frames once as little-endian signed integers of the file's width, time x channels, IOError iff uneven, closed on every way out) "
    "and the soundfile helper (one read in the stored subtype's NumPy type, then the cast), the HDF5 helper (read-only open, the keyed entry or - "
    "for roots holding only data sets - the one with the smallest name, IOError iff none, one numpy.array conversion), SPHERE header parsing (see C12). Container "
    "round trips (incl. long SPHERE headers) are bounded." + MIX, TB)
add("C12", "other",
    "Proved: copy_samples' read loop against a ghost byte stream for every channel count, sample count and file length (cursor and decoded-prefix "
    "invariants; result count = min(sample_count, whole frames present), values, shape, warning iff truncated, no uninitialised cell; a data "
    "section that does not START with the shorten magic never reaches the shorten decoder), for PCM and both G.711 codings with and without "
    "expansion; both G.711 tables equal the ITU-T expansion on all 256 codes (exhaustive); read_header accepts exactly the field combinations "
    "with a known coding, non-zero counts and - for PCM only - a byte order, after a parse (line level: the bytes [0, hdrsize) split at newlines) "
    "that leaves the stream at the data section for every header size >= 1024, raises IOError iff the file is shorter than 1024 bytes / the magic "
    "is wrong / the size field is below 1024 / there is no end_head, and gives each of the six fields the value of its line before end_head. "
    "The byte-level tokenisation and real files are bounded." + MIX, TB)
add("C13", "other",
    "Proved (bit-vector VCs generated from the AST of the nested functions by guarded unrolling, one query per reader state): uvar_get(nbin) returns "
    "q * 2^nbin + field for a code of q zeros, a one and nbin bits, consumes exactly q + 1 + nbin bits and leaves the unread bits of its word "
    "buffer equal to the next bits of the stream, for every buffer fill 0..32, every field width 0..32 and every following words, for unary runs "
    "q <= 8 (quick) / 24 (thorough); var_get is the zig-zag inverse of uvar_get(nbin+1); masktab[n] has the n low bits set. Proved over "
    "mathematical integers on mechanically selected statement slices of copy_shortened_samples, for all block sizes, histories, predictor orders, "
    "mean lengths and shifts: one block command (ZERO, DIFF0-3, QLPC; versions 1 and 2) decodes to exactly the samples of the encoder's equations, "
    "wraps the history before the bit-shift fix-up, updates the running mean as the encoder does, consumes the documented Rice values and touches "
    "no other channel; the command loop interleaves channel-major blocks into sample-major output (1-3 channels), cycles channels, returns only "
    "on QUIT and raises on an unknown command; the stream header raises on a short buffer / unknown version / unknown type and reads its six "
    "fields in order; the set-up establishes the block contract's entry conditions; word_get refills without losing or repeating a byte and "
    "raises when the stream ends early; fix_bitshift and c99_div meet shorten's definitions. int32 wrap-around, floating-point division and whole "
    "streams are decided by the bounded stand-in: round trips through an independent encoder, the six sph2pipe vectors, exhaustive checks of the "
    "arithmetic helpers." + MIX, TB)
add("C14", "other",
    "Proved: pytorch_stft_frame_computer against the same specification as the NumPy computer, for every length/shift/DFT size/flag in the three "
    "framing modes and N >= L or N < L//2+1 (frame count and empty shape, padded signal = spec frames, as_strided memory safety, the mirrored "
    "walk, per-column values and energy); pytorch_preemphasize and pytorch_dither against the specifications Preemphasize.apply / Dither.apply "
    "are proved against; check_positive and PyTorchDither.__init__ (coeff 0 accepted); the two NumPy wrappers call apply / compute_full exactly "
    "once on the CPU array with default flags and wrap the result with the input's device and dtype; from_stft_frame_computer hands every "
    "constructor parameter the matching attribute and defaults to complex filters. float32, TorchScript, L//2+1 <= N < L and dither moments are "
    "bounded." + MIX, TB)
add("C15", "other",
    "Proved for tensors of rank 1-3 (Deltas) / 2-3 (Stack), every legal axis / time_axis, symbolic sizes: Deltas.apply filters every 1-D row "
    "exactly once; the stored row is out[t] = sum_j x_ext[t + j - (n-1)/2] * filt[j] of the row padded by (n-1)/2 on both sides with the "
    "object's pad mode and keyword arguments, has the row's length, its dtype, and the result is [input, delta_1, ..] joined along target_axis "
    "(concatenate) or a new axis there (stack); Stack.apply returns OUT[.., t, .., q*F + r, ..] = P[.., t*nv + q, .., r, ..] with nT = T // nv frames "
    "(ceil with a pad mode, padding only at the end of the time axis) for the 2-D copy/transpose/reshape route (element map tracked) and the "
    "N-D slicing route (q-th buffer = features[.., q:T:nv, ..], nv buffers joined along the feature axis); RuntimeError exactly when the axes "
    "coincide; neither assigns to self. Assumed: numpy's pad / correlate / ndindex / reshape / concatenate contracts, the filters' odd lengths "
    "(constructor). Values for all pad modes, dtypes, rank 4, and reuse of one instance are bounded." + MIX, TB)
add("C16", "other",
    "Proved for vectors and for tensors of rank 2-3 with every legal axis: accumulation adds (number of vectors, sums, sums of squares over "
    "the OTHER axes) of the chosen axis' coefficients to the statistics (additivity), keeps the class invariant (integer count, non-negative "
    "squares) and raises ValueError before writing on a length mismatch; apply returns (x - mean) * k per coefficient of the chosen axis with "
    "the accumulated moments or - without statistics - the tensor's own, float64, the input object only when in_place and float64; have_stats "
    "is true iff a vector was accumulated; the public accumulate / apply raise ValueError on an array without elements and otherwise call exactly "
    "the vector (rank 1) or tensor (rank > 1) routine once with the caller's arguments. Rank 4, the single-vector / zero-variance corners and dtype round-off are bounded." + MIX, TB)
add("C17", "other",
    "Proved: every statistics state reachable through accumulate satisfies the invariant under which _sanitize_stats's validity test (read from the "
    "source) accepts it on the first pass; the .npy / .npz / raw readers the reload goes through load exactly the given file and, for .npz, the "
    "entry `key` or 'arr_0'; Standardize.save, as an effect trace over an abstract archive map: ValueError and no I/O without statistics, one "
    "np.save / tofile for .npy / other names, for .npz at most one load and exactly one savez / savez_compressed of base + {key: statistics} "
    "with the first free 'arr_m' as default key, the new statistics winning over an equal key and every other entry kept. Real files for every "
    "target/key/compress/overwrite combination and save/load sequences on one path are bounded." + MIX, TB)
add("C18", "other",
    "Proved for 1-D signals with the default axis: Preemphasize.apply returns y[0]=x[0], y[i]=x[i]-coeff*x[i-1] with the OLD neighbour; Dither.apply "
    "adds coeff times one fresh RNG draw (so independent of the signal, linear in coeff); result dtype = input dtype; the input is stored into only "
    "when in_place and float64, and then written through. Noise moments and dtype round-off are bounded." + MIX, TB)
add("C19", "proof",
    "Every clause of the property is a discharged obligation over the real methods: both methods of each of the four scaling functions are "
    "executed symbolically from the repository source (all paths), and inverse pairs in both directions, strict monotonicity of both maps, "
    "agreement of the piecewise Bark branches at their break-points (continuity), the published mel / Bark closed forms (1000 Hz = 1000 mel "
    "within 0.02), well-definedness of every division and logarithm on [0, 1e5] Hz, and OctaveScaling's rejection of low_hz <= 0 are proved "
    "for all real frequencies and parameters (floats as reals, exp/ln as uninterpreted functions with inverse/monotonicity axioms). A bounded "
    "stand-in additionally measures the floating-point round-off on finite grids.",
    "contract-based deductive verification: symbolic execution of the real methods to terms, lemmas over the terms discharged by z3 (NRA + UF axioms)")
add("C20", "other",
    "Proved: circshift_fourier multiplies the filter by exp(-2 pi i (shift mod D)((start+k) mod D)/D) with D defaulted to len+start, every operand "
    "defined on every path, copy=True never storing into the input and copy=False/complex128 writing through; hertz_to_angular / angular_to_hertz "
    "are mutual inverses; the Bartlett / Blackman / Hamming / Hann windows return exactly `width` samples equal to the numpy shape divided by "
    "gain * max(1, width - 1); GammaWindow returns exactly `width` non-negative samples, sample i being t^(n-1) exp(-a t + n ln a - ln (n-1)!) at "
    "t = width-1-i with a = (n-1)/(width - peak*width) (n >= 2) or 5/width (n = 1), over uninterpreted exp / log / power (0 <= peak < 1 assumed). "
    "The position of GammaWindow's maximum, the sums of the windows and gauss_quant accuracy/monotonicity are bounded." + MIX, TB)

# ---- additions of the last build session (appended to the texts above) ----------------------------------------------------------------
_ACC = (" The read-only accessors through which the property is observed are under contract too (each returns exactly the attribute - or the "
        "documented function of attributes - that the other contracts constrain, and writes nothing): ")
_GAMMA = (" The gammatone constructor's per-filter loop is under contract as a statement slice (eight per-filter lists as ghost lists, all flag "
          "combinations, every order >= 1 and filter count): one entry per filter in every list in order, centre k the midpoint of edges k and k+1 "
          "(centres strictly increasing), xi = 2 pi centre / rate, alpha and c positive, offset 0 unless max_centered (then -(order-1)/alpha), the "
          "temporal support computed from the same filter's alpha / c / offset, supports_ang symmetric around xi and - without scale_l2_norm - of "
          "strictly positive half-width with every log / square-root argument in its domain (centre strictly inside supports_hz), _wrap_below iff "
          "some lower edge is negative, lists frozen into tuples, supports_hz = supports_ang in Hz.")
EXTRA = {
    "C01": " The inherited FrameComputer.compute_full is under contract: exactly one frame_by_frame_calculation(self, signal) with the default chunk "
           "size, result returned as is.",
    "C02": " The per-frame summand is under contract at AST level: the constructor stores use_power and selects _power iff it is set (else _mag) by one "
           "if / else after the flag is stored; _power is numpy.linalg.norm(x, ord=2) ** 2 and _mag is numpy.sum(numpy.abs(x))." + _ACC + "frame_style, frame_length, frame_shift, sampling_rate, kaldi_shift, bank, includes_energy, frame_length_ms, frame_shift_ms.",
    "C03": _ACC + "the short-integration computer's frame_style, frame_length, frame_shift, sampling_rate and the base class's frame_length_ms / frame_shift_ms.",
    "C04": _ACC + "`started` of both computers is the `_started` flag the method contracts set and reset.",
    "C05": _GAMMA + _ACC + "centers_hz (the inner vertices in order / the centres the constructor laid out), supports_hz (pair k = vertices k and k+2), num_filts, "
                  "sampling_rate, scaled_l2_norm, erb, order of all four banks.",
    "C07": _ACC + "is_real, is_analytic, is_zero_phase, supports, supports_hz of all four banks and the base class's supports_ms." + _GAMMA + " ComplexGammatoneFilterBank.get_impulse_response: exactly "
           "`width` samples and every aliased store inside the buffer, for any number of periods.",
    "C06": " ComplexGammatoneFilterBank.get_frequency_response is under contract for the documented length (with and without half) and the shape "
           "safety of its vectorised accumulation (bin grid of exactly dft_size entries, one _H value per grid point, arrays of equal length added); "
           "its values stay bounded.",
    "C08": " Nested components: for every constructor that accepts one (the three computers' bank and window, the three banks' scaling function) an "
           "AST-level data-flow obligation set shows that exactly the caller's argument goes to alias_factory_subclass_from_arg with the documented "
           "family, that the result replaces the argument before any other use and is never rebound, and that the optional window defaults to "
           "GammaWindow for the causal style and HannWindow otherwise.",
    "C09": " The torch tool's dataset constructor and __len__ are under contract (every argument stored unchanged under the attribute __getitem__ "
           "reads; the utterance table is the tuple of the map's items in the map's order), closing the chain pipeline construction -> dataset -> "
           "__getitem__.",
    "C10": " The torch tool's dataset constructor and __len__ are under contract (every argument, the base seed and the position table included, "
           "stored unchanged; the utterance table is the tuple of the map's items in the map's order).",
    "C16": " Standardize.__init__ (how loaded statistics get in) is under contract as described for C17.",
    "C11": " The SPHERE clause goes through the same reader functions as C12: copy_samples (all five codings) and sphere_read_signal are under "
           "contract for C11 as well (replayed by the C12 stand-in); the stand-in also writes data sections longer than the reader's 16 KiB block "
           "with 3-7 channels.",
    "C14": " The module class itself is under contract: PyTorchShortTimeFourierTransformFrameComputer.__init__ (ValueError iff a filter is not a "
           "vector, an offset is negative, frame length / shift are not positive, the style is unknown, the window's shape is not (frame_length,) "
           "or a given DFT size is shorter than the frame; otherwise every argument is stored under the attribute forward() reads, offsets and "
           "filters as the argument's columns in order, default DFT size 2**ceil(log2(frame_length))) and forward (one call of the functional on "
           "the caller's signal and the module's own attributes in the functional's parameter order); the constructors of PyTorchPreemphasize, "
           "PyTorchPostProcessorWrapper and PyTorchShortIntegrationFrameComputer, the two delegating forwards and check_in.",
    "C15": " Stack.__init__ is under contract (ValueError iff num_vectors < 1; every argument stored unchanged under the attribute apply reads).",
    "C17": " Standardize.__init__ is under contract by case split over the caller's arguments and over what each read attempt does: nothing read "
           "without a file name (TypeError for stray keywords); exactly one read with an explicit dtype; otherwise attempts with float64, float32, "
           "'dm', 'fm' in that order, the four documented exception classes move on and anything else propagates, the first success is kept, IOError "
           "when all fail, and the float re-interpretation heuristic runs exactly when the array read is one-dimensional.",
    "C18": " The constructors of Dither and Preemphasize are under contract (the coefficient is stored unchanged).",
    "C19": " LinearScaling.__init__ is under contract (low_hz and slope_hz stored unchanged).",
    "C20": " GammaWindow.__init__ is under contract (order and peak stored unchanged).",
}
for _pid, _txt in EXTRA.items():
    CHECKS[_pid]["text"] = CHECKS[_pid]["text"] + _txt

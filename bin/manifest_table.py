# Table read by bin/mkmanifest. add(property, category, text, technique, note)
add("C02", "other",
    "Deductive kernel: the half-spectrum walk of STFT._compute_frame is proved, for every DFT size, start bin, filter length and flag "
    "combination, to pair each filter tap exactly once with the full-spectrum bin (b0+j) mod D (conjugate-mirrored beyond Nyquist), "
    "with the doubling for real banks, the log floor and the energy coefficient at index 0, from loop invariants on the real source. "
    "Numeric agreement with an independent full-DFT oracle is checked by a bounded stand-in. Mixed proof + bounded, hence 'other'.",
    "contract-based deductive verification (sidecar contracts -> VCs from the real AST -> z3) + bounded runtime-contract stand-in")
pending = "check not built yet in this session; will be claimed once its obligations and stand-in run green on the unchanged tree"
for p in ["C01","C03","C04","C05","C06","C07","C08","C09","C10","C11","C12","C13","C14","C15","C16","C17","C18","C19","C20"]:
    NOT_APPLICABLE[p] = pending

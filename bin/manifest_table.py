# Table read by bin/mkmanifest. add(property, category, text, technique, note)
add("C02", "other",
    "Deductive kernel: the half-spectrum walk of STFT._compute_frame is proved, for every DFT size, start bin, filter length and flag "
    "combination, to pair each filter tap exactly once with the full-spectrum bin (b0+j) mod D (conjugate-mirrored beyond Nyquist), "
    "with the doubling for real banks, the log floor and the energy coefficient at index 0, from loop invariants on the real source. "
    "Numeric agreement with an independent full-DFT oracle is checked by a bounded stand-in. Mixed proof + bounded, hence 'other'.",
    "contract-based deductive verification (sidecar contracts -> VCs from the real AST -> z3) + bounded runtime-contract stand-in")
add("C01", "other",
    "Deductive kernel (STFT): compute_chunk is proved to preserve a data invariant relating its buffer, counters and the ghost "
    "stream of all samples fed so far, and to hand _compute_frame exactly the documented frames, for every frame length, shift <= length, "
    "chunk length and history, in all three framing modes; finalize is proved to emit exactly the remaining frames of the whole-signal "
    "specification (count and contents, with the symmetric reflection) and compute_full to meet the same specification; so any chunking "
    "followed by finalize equals compute_full by induction over chunks. The short-integration computer and value-level round-off are "
    "decided by a bounded stand-in (chunked vs whole runs of the real code). Mixed proof + bounded, hence 'other'.",
    "contract-based deductive verification (loop/data invariants with ghost stream -> VCs from the real AST -> z3) + bounded runtime-contract stand-in")
BOUNDED = ("At this commit the property is decided by its bounded runtime-contract stand-in only (executable contracts on the real functions "
           "driven by enumerated / seeded inputs against an independent oracle; bounds in the evidence file); the deductive obligations for "
           "its functions are being added. Bounded, not proof, hence 'other'.")
TECH_B = "runtime contracts on the real functions (bounded stand-in of the contract-based deductive check; VCs in progress)"
for p in ["C03", "C04", "C05", "C06", "C07", "C08", "C09", "C10", "C11", "C12", "C13", "C14", "C15", "C16", "C17", "C18", "C20"]:
    add(p, "other", BOUNDED, TECH_B)
add("C19", "proof",
    "Every clause of the property is a discharged obligation over the real methods: both methods of each of the four scaling functions are "
    "executed symbolically from the repository source (all paths), and inverse pairs in both directions, strict monotonicity of both maps, "
    "agreement of the piecewise Bark branches at their break-points (continuity), the published mel / Bark closed forms (1000 Hz = 1000 mel "
    "within 0.02), well-definedness of every division and logarithm on [0, 1e5] Hz, and OctaveScaling's rejection of low_hz <= 0 are proved "
    "for all real frequencies and parameters (floats as reals, exp/ln as uninterpreted functions with inverse/monotonicity axioms). A bounded "
    "stand-in additionally measures the floating-point round-off on finite grids.",
    "contract-based deductive verification: symbolic execution of the real methods to terms, lemmas over the terms discharged by z3 (NRA + UF axioms)")

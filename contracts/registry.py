"""Which contract units serve which property. A unit is a callable (tier, active_known_findings)
-> pyvc.check.UnitResult that re-extracts its functions from $VERIF_REPO and generates their VCs."""
import traceback

from pyvc import extract, symex
from pyvc.check import UnitResult


def run_contract(prop, target, contract, setups, name=None, to_case=None, post_run=None):
    """symbolically execute `target` once per setup (a setup is a callable (ex, st) building the
    entry state; several setups = case split over configurations) and collect the obligations"""
    u = UnitResult(name or target[1])
    try:
        fx = extract.get_function(*target)
    except KeyError as e:
        u.outside.append((":".join(target), f"function not found: {e}"))
        return u
    u.functions.append(fx.describe())
    u.to_case = to_case
    for label, setup in setups:
        ex = symex.Executor(fx, contract, prop)
        ex.case_label = label
        st = symex.State()
        try:
            setup(ex, st)
            ex.run(st)
        except symex.Outside as e:
            u.outside.append((fx.id + (f"[{label}]" if label else ""), str(e)))
            continue
        for o in ex.obligations + ex.canaries:
            if label:
                o.id = o.id + f"[{label}]"
        u.obligations += ex.obligations
        u.canaries += ex.canaries
        u.assumptions |= set(ex.assumption_ids)
        u.notes += ex.notes
        if post_run:
            post_run(ex, u)
    if not u.obligations and not u.outside:
        u.outside.append((fx.id, "no obligations were generated (vacuous contract?)"))
    return u


def unit_stft_frame(prop):
    def unit(tier, known):
        from contracts import stft_frame as C
        return run_contract(prop, C.TARGET, C.contract(), [("", C.setup)], to_case=C.to_case)
    unit.__name__ = "stft_frame"
    return unit


def unit_stft(prop, which):
    def unit(tier, known):
        from contracts import stft_stream as C
        contract = getattr(C, "contract_" + which)()
        setups = [(m, getattr(C, "setup_" + which)(m, known)) for m in C.MODES]
        return run_contract(prop, ("compute", f"{C.CLS}.{'compute_' + which if which in ('full', 'chunk') else which}"), contract, setups,
                            name="stft_" + which, to_case=getattr(C, "to_case_" + which, None))
    unit.__name__ = "stft_" + which
    return unit


def _scales(prop):
    from contracts import scales
    return scales.unit_scales(prop)


UNITS = {
    "C19": [_scales("C19")],
    "C02": [unit_stft_frame("C02"), unit_stft("C02", "full")],
    "C01": [unit_stft("C01", "finalize"), unit_stft("C01", "chunk")],
}

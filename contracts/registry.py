"""Which contract units serve which property. A unit is a callable (tier, active_known_findings)
-> pyvc.check.UnitResult that re-extracts its functions from $VERIF_REPO and generates their VCs."""
import traceback

from pyvc import extract, symex
from pyvc.check import UnitResult


def run_contract(prop, target, contract, setups, name=None, to_case=None, post_run=None, replay_module=None, fname=None):
    """symbolically execute `target` once per setup (a setup is a callable (ex, st) building the
    entry state; several setups = case split over configurations) and collect the obligations"""
    if isinstance(target, extract.Extracted):  # an already extracted function or statement slice
        u = UnitResult(name or target.qualname)
        fx = target
    else:
        u = UnitResult(name or target[1])
        try:
            fx = extract.get_function(*target)
        except KeyError as e:
            u.outside.append((":".join(target), f"function not found: {e}"))
            return u
    u.functions.append(fx.describe())
    u.to_case = to_case
    u.replay_module = replay_module
    # decorators are DROPPED by the extraction; that is only harmless for the ones known not to change what a call computes
    odd = extract.odd_decorators(fx)
    if odd:
        u.outside.append((fx.id, f"decorated with {', '.join(odd)}: a decorator the extraction would drop although it may change what a call returns (caching, wrapping)"))
        return u
    for label, setup in setups:
        ex = symex.Executor(fx, contract, prop)
        if fname:
            ex.fname = fname
        ex.case_label = label
        st = symex.State()
        try:
            setup(ex, st)
            ex.run(st)
        except symex.Outside as e:
            u.outside.append((fx.id + (f"[{label}]" if label else ""), str(e)))
            continue
        for o in ex.obligations + ex.canaries:
            if label:
                o.id = o.id + f"[{label}]"
        u.obligations += ex.obligations
        u.canaries += ex.canaries
        u.assumptions |= set(ex.assumption_ids)
        u.notes += ex.notes
        if post_run:
            post_run(ex, u)
    if not u.obligations and not u.outside:
        u.outside.append((fx.id, "no obligations were generated (vacuous contract?)"))
    return u


def _freeze(u):
    """picklable form of a UnitResult produced in a worker process: each VC as SMT-LIB text"""
    from pyvc.solve import vc_smt2

    def fz(o):
        return {"id": o.id, "kind": o.kind, "where": o.where, "smt2": vc_smt2(o.pc, o.goal), "verdict": o.verdict, "backend": o.backend}
    return {"functions": u.functions, "outside": u.outside, "assumptions": sorted(u.assumptions), "notes": u.notes,
            "obligations": [fz(o) for o in u.obligations], "canaries": [fz(o) for o in u.canaries]}


def _mp_job(job):
    import importlib
    mod, fn, args = job
    try:
        return _freeze(getattr(importlib.import_module(mod), fn)(*args))
    except Exception as e:  # generator fault in the worker: reported as outside-the-subset by the parent, never as a violation
        return {"functions": [], "outside": [(f"{mod}.{fn}{args}", f"generator error {type(e).__name__}: {e}")], "assumptions": [], "notes": [],
                "obligations": [], "canaries": [], "traceback": traceback.format_exc()}


def run_parallel(name, jobs, to_case=None, replay_module=None):
    """generate the VCs of several (function, setup) pairs in worker processes; job = (module, function name, args), the function
    returns a UnitResult. The merged UnitResult carries the VCs as SMT-LIB text (Obligation.smt2_pre)."""
    import z3
    from concurrent.futures import ProcessPoolExecutor
    from pyvc.symex import Obligation
    u = UnitResult(name)
    u.to_case, u.replay_module = to_case, replay_module
    if len(jobs) == 1:
        parts = [_mp_job(jobs[0])]
    else:
        with ProcessPoolExecutor(max_workers=min(len(jobs), 16)) as pool:
            parts = list(pool.map(_mp_job, jobs))
    seen = set()
    for p in parts:
        for f in p["functions"]:
            key = f.get("function"), f.get("sha256")
            if key not in seen:
                seen.add(key)
                u.functions.append(f)
        u.outside += [tuple(x) for x in p["outside"]]
        u.assumptions |= set(p["assumptions"])
        u.notes += p["notes"]
        if p.get("traceback"):
            print(p["traceback"])
        for src, dst in (("obligations", u.obligations), ("canaries", u.canaries)):
            for d in p[src]:
                o = Obligation(d["id"], [], z3.BoolVal(True), d["kind"], d["where"])
                o.smt2_pre = d["smt2"]
                o.verdict, o.backend = d["verdict"], d["backend"]
                dst.append(o)
    if not u.obligations and not u.outside:
        u.outside.append((name, "no obligations were generated (vacuous contract?)"))
    return u


def unit_stft_frame(prop):
    def unit(tier, known):
        from contracts import stft_frame as C
        return run_contract(prop, C.TARGET, C.contract(), [("", C.setup)], to_case=C.to_case, replay_module="rtc.c02")
    unit.__name__ = "stft_frame"
    return unit


def unit_stft(prop, which):
    def unit(tier, known):
        from contracts import stft_stream as C
        contract = getattr(C, "contract_" + which)()
        setups = [(m, getattr(C, "setup_" + which)(m, known)) for m in C.MODES]
        to_case, rm = (C.to_case_c04, "rtc.c04") if prop == "C04" else (getattr(C, "to_case_" + which, None), "rtc.c01")
        if prop == "C02" and which == "full":
            to_case, rm = C.to_case_full_c02, "rtc.c02"
        return run_contract(prop, ("compute", f"{C.CLS}.{'compute_' + which if which in ('full', 'chunk') else which}"), contract, setups,
                            name="stft_" + which, to_case=to_case, replay_module=rm)
    unit.__name__ = "stft_" + which
    return unit


def _lazy(module, fn, prop):
    def unit(tier, known):
        import importlib
        return getattr(importlib.import_module(module), fn)(prop)(tier, known)
    unit.__name__ = fn
    return unit


def _lazy_list(module, fn, prop, k):
    def unit(tier, known):
        import importlib
        return getattr(importlib.import_module(module), fn)(prop)[k](tier, known)
    unit.__name__ = f"{fn}[{k}]"
    return unit


def _scales(prop):
    from contracts import scales
    return scales.unit_scales(prop)


def unit_fbf(prop):
    def unit(tier, known):
        from contracts import stft_stream as C
        to_case, rm = (C.to_case_c04, "rtc.c04") if prop == "C04" else (C.to_case_fbf, "rtc.c01")
        return run_contract(prop, ("compute", "frame_by_frame_calculation"), C.contract_fbf(), [("", C.setup_fbf)], name="frame_by_frame",
                            to_case=to_case, replay_module=rm)
    unit.__name__ = "frame_by_frame"
    return unit


def unit_stft_fresh(prop):
    """lemma: the state the constructor leaves (constants read from __init__'s AST) and the state finalize() leaves
    both satisfy the data invariant of an empty utterance - so a finalized computer is indistinguishable, through the
    contracts of compute_chunk / finalize / compute_full, from a freshly constructed one"""
    def unit(tier, known):
        import ast
        import z3
        from contracts import stft_stream as C
        from pyvc import api
        from pyvc.symex import Obligation, State, Executor, Contract
        u = UnitResult("stft_fresh_state")
        try:
            fx = extract.get_function("compute", f"{C.CLS}.__init__")
        except KeyError as e:
            u.outside.append(("compute:__init__", str(e)))
            return u
        u.functions.append(fx.describe())
        consts = {}
        for n in ast.walk(fx.node):
            if isinstance(n, ast.Assign) and len(n.targets) == 1 and isinstance(n.targets[0], ast.Attribute) \
                    and isinstance(n.targets[0].value, ast.Name) and n.targets[0].value.id == "self":
                v = n.value
                if isinstance(v, ast.Constant):
                    consts[n.targets[0].attr] = v.value
                elif isinstance(v, ast.Attribute) and ast.unparse(v) == "np.float64":
                    consts[n.targets[0].attr] = "np.float64"
        want = {"_started": False, "_first_frame": True, "_buf_len": 0, "_hist_len": 0, "_chunk_dtype": "np.float64"}
        for k, v in want.items():
            ob = Obligation(f"{prop}.__init__.initial_{k}", [], z3.BoolVal(consts.get(k, "<missing>") == v and type(consts.get(k)) == type(v)), "lemma", fx.lineno)
            u.obligations.append(ob)
        # Inv(X = empty, T = 0, E = 0) holds in that state, whatever the buffer contains
        for mode in C.MODES:
            ex = Executor(fx, Contract(target="lemma", consts=C.consts()), prop)
            ex.fname = "fresh_state"
            st = State()
            C.base_setup(ex, st, mode)
            st.fields[("self", "_started")] = False
            st.fields[("self", "_first_frame")] = True
            st.fields[("self", "_buf_len")] = 0
            st.fields[("self", "_hist_len")] = 0
            st.ghost["T"], st.ghost["E"] = 0, 0
            ex.entry = st.copy()
            for lab, e in C.INV:
                ex.oblige(st, ex.spec(st, e), f"inv_of_empty_utterance.{lab}[{mode}]", "lemma")
            u.obligations += ex.obligations
        u.to_case = C.to_case_c04
        u.replay_module = "rtc.c04"
        return u
    unit.__name__ = "stft_fresh_state"
    return unit


def unit_torch_stft(prop):
    def unit(tier, known):
        from contracts import torch_stft as C
        return run_contract(prop, C.TARGET, C.contract(), [(m, C.setup(m)) for m in ("causal", "centered", "kaldi")], name="torch_stft",
                            to_case=getattr(C, "to_case", None), replay_module="rtc.c14")
    unit.__name__ = "torch_stft"
    return unit


def unit_tri(prop, which):
    def unit(tier, known):
        import z3
        from contracts import filters_tri as C
        from pyvc.symex import Obligation
        if which == "init":
            u = run_contract(prop, ("filters", f"{C.CLS}.__init__"), C.contract_init(), [("high_none", C.setup_init(True)), ("high_given", C.setup_init(False))],
                             name="tri_init", to_case=C.to_case, replay_module="rtc.c05_tri")
            # lemma: the property's rejection sentence is implied by the proved `raises` condition
            low, high, rate = z3.Reals("low_hz high_hz sampling_rate")
            stated = z3.Or(low < 0, z3.And(high > 0, z3.Or(high <= low, high > rate / 2 + 1)))
            raises = z3.Not(z3.And(0 <= low, low < high, high <= rate / 2 + 1))
            u.obligations.append(Obligation(f"{prop}.__init__.rejection_sentence_implied", [rate > 0], z3.Implies(stated, raises), "lemma", None))
            return u
        if which == "frequency":
            u = None
            for half in (False, True):
                r = run_contract(prop, ("filters", f"{C.CLS}.get_frequency_response"), C.contract_frequency(half), [("half" if half else "full", C.setup_frequency(half))],
                                 name="tri_frequency", to_case=C.to_case_frequency, replay_module="rtc.c06")
                if u is None:
                    u = r
                else:
                    u.obligations += r.obligations
                    u.canaries += r.canaries
                    u.outside += r.outside
            return u
        setup = {"truncated": C.setup_method}[which]
        contract = {"truncated": C.contract_truncated}[which]()
        return run_contract(prop, ("filters", f"{C.CLS}.get_{which}_response"), contract, [("", setup)], name="tri_" + which, to_case=C.to_case, replay_module="rtc.c05_tri")
    unit.__name__ = "tri_" + which
    return unit


def unit_circshift(prop):
    def unit(tier, known):
        from contracts import util_misc as C
        return run_contract(prop, ("util", "circshift_fourier"), C.contract_circshift(), [("dft_given", C.setup_circshift(False)), ("dft_default", C.setup_circshift(True))],
                            name="circshift_fourier", to_case=C.to_case_circshift, replay_module="rtc.c20")
    unit.__name__ = "circshift_fourier"
    return unit


def unit_copy_samples(prop):
    def unit(tier, known):
        from contracts import sphere as C
        return run_contract(prop, ("_sphere", "copy_samples"), C.contract(), C.SETUPS, name="copy_samples", to_case=C.to_case, replay_module="rtc.c12")
    unit.__name__ = "copy_samples"
    return unit


def unit_pre(prop, which):
    def unit(tier, known):
        from contracts import pre as C
        cls = {"preemph": "Preemphasize", "dither": "Dither"}[which]
        return run_contract(prop, ("pre", f"{cls}.apply"), getattr(C, "contract_" + which)(), [("", C.setup)], name="pre_" + which, fname=f"{cls}.apply",
                            to_case=C.to_case, replay_module="rtc.c18")
    unit.__name__ = "pre_" + which
    return unit


def unit_alias_arg(prop):
    def unit(tier, known):
        from contracts import alias as C
        return run_contract(prop, ("alias", "alias_factory_subclass_from_arg"), C.contract(), C.SETUPS, name="alias_factory_subclass_from_arg",
                            to_case=C.to_case, replay_module="rtc.c08")
    unit.__name__ = "alias_factory_subclass_from_arg"
    return unit


def unit_std(prop, which):
    def unit(tier, known):
        from contracts import standardize as C
        if which == "accumulate_vector":
            return run_contract(prop, ("post", "Standardize._accumulate_vector"), C.contract_accumulate_vector(),
                                [("first", C.setup_acc(False)), ("further", C.setup_acc(True))], name="std_accumulate_vector", fname="Standardize._accumulate_vector",
                                to_case=C.to_case, replay_module="rtc.c16")
        if which == "have_stats":
            return run_contract(prop, ("post", "Standardize.have_stats"), C.contract_have_stats(), [("none", C.setup_have(False)), ("some", C.setup_have(True))],
                                name="std_have_stats", fname="Standardize.have_stats", to_case=C.to_case, replay_module="rtc.c16")
        return run_contract(prop, ("post", "Standardize._apply_vector"), C.contract_apply_vector(), [("", C.setup_apply)], name="std_apply_vector",
                            fname="Standardize._apply_vector", to_case=C.to_case, replay_module="rtc.c16")
    unit.__name__ = "std_" + which
    return unit


def unit_read_signal(prop, which):
    def unit(tier, known):
        from contracts import read_signal as C
        if which == "dispatch":
            if prop == "C12":
                # under C12 what matters is that the SPHERE reader gets the caller's dtype (a 1-byte dtype means "raw codes"): replayed
                # with the C12 stand-in's dtype / plain cases
                def tc12(ob):
                    import itertools
                    from rtc import c12
                    allc = list(itertools.islice(c12.enumerate_cases("quick", 0), 6000))
                    return [c for c in allc if c.get("kind") == "dtype"][:200] + [c for c in allc if c.get("kind") == "plain"][:200]
                return run_contract(prop, ("util", "read_signal"), C.contract(), C.SETUPS, name="read_signal", to_case=tc12, replay_module="rtc.c12")
            return run_contract(prop, ("util", "read_signal"), C.contract(), C.SETUPS, name="read_signal", to_case=C.to_case, replay_module="rtc.c11")
        if which == "infer":
            return run_contract(prop, ("util", "_infer_force_as_from_rfilename"), C.contract_infer(), [("", C.setup_infer)], name="infer_force_as",
                                to_case=C.to_case, replay_module="rtc.c11")
        return run_contract(prop, ("util", "wds_read_signal"), C.contract_wds(), C.WDS_SETUPS, name="wds_read_signal", to_case=C.to_case_wds, replay_module="rtc.c11")
    unit.__name__ = "read_signal_" + which
    return unit


def unit_si(prop, which):
    def unit(tier, known):
        from contracts import si_stream as C
        rm = "rtc.c01" if prop == "C01" else ("rtc.c04" if prop == "C04" else "rtc.c03")
        if which == "preamble":
            rm = "rtc.c04"  # what the preamble resets only shows in call histories: replayed by the C04 stand-in (computer reuse)
        jobs = [("contracts.si_stream", "generate", (prop, which, label)) for label in C.LABELS[which]]
        return run_parallel("si_" + which, jobs, to_case=getattr(C, "to_case_" + rm[-3:]), replay_module=rm)
    unit.__name__ = "si_" + which
    return unit


def unit_si_frame(prop, which):
    def unit(tier, known):
        from contracts import si_frame as C
        jobs = [("contracts.si_frame", "generate", (prop, which, label)) for label in C.LABELS[which]]
        from contracts import si_stream
        rm = "rtc.c01" if prop == "C01" else "rtc.c03"
        tc = getattr(si_stream, "to_case_" + rm[-3:])
        if which in ("dft", "idft"):
            tc = C.make_to_case(tc)
        return run_parallel("si_" + which, jobs, to_case=tc, replay_module=rm)
    unit.__name__ = "si_" + which
    return unit


def unit_fbank(prop, which):
    def unit(tier, known):
        from contracts import filters_fbank as C
        jobs = [("contracts.filters_fbank", "generate", (prop, which, label)) for label in C.LABELS[which]]
        if which == "frequency":
            from contracts import filters_tri as T

            def tc(ob):
                out = []
                for c in T.to_case_frequency(ob):
                    c2 = dict(c, bank=dict(c["bank"], bank="fbank"))
                    out.append(c2)
                return out
            return run_parallel("fbank_frequency", jobs, to_case=tc, replay_module="rtc.c06")
        return run_parallel("fbank_" + which, jobs, to_case=C.to_case, replay_module="rtc.c05_tri")
    unit.__name__ = "fbank_" + which
    return unit


def unit_stft_geometry(prop):
    def unit(tier, known):
        from contracts import stft_frame as C
        return run_parallel("stft_geometry", [("contracts.stft_frame", "generate_geometry", (prop,))], to_case=C.to_case_geometry, replay_module="rtc.c02")
    unit.__name__ = "stft_geometry"
    return unit


def unit_supports(prop, which):
    def unit(tier, known):
        from contracts import filters_supports as C
        return run_parallel(which + "_supports", [("contracts.filters_supports", "generate", (prop, which, ""))], to_case=C.to_case, replay_module="rtc.c07")
    unit.__name__ = which + "_supports"
    return unit


def unit_deltas(prop):
    def unit(tier, known):
        from contracts import post_deltas as C
        jobs = [("contracts.post_deltas", "generate", (prop, label)) for label in C.LABELS]
        return run_parallel("deltas_apply", jobs, to_case=C.to_case, replay_module="rtc.c15")
    unit.__name__ = "deltas_apply"
    return unit


def unit_deltas_init(prop):
    def unit(tier, known):
        from contracts import post_deltas as C
        jobs = [("contracts.post_deltas", "generate_init", (prop, nd)) for nd in (0, 1, 2, 3)]
        return run_parallel("deltas_init", jobs, to_case=C.to_case, replay_module="rtc.c15")
    unit.__name__ = "deltas_init"
    return unit


def unit_std_tensor(prop):
    def unit(tier, known):
        from contracts import standardize as C
        jobs = [("contracts.standardize", "generate_tensor", (prop, label)) for label in C.tensor_labels()]
        return run_parallel("std_accumulate_tensor", jobs, to_case=C.to_case, replay_module="rtc.c16")
    unit.__name__ = "std_accumulate_tensor"
    return unit


def unit_std_apply_tensor(prop):
    def unit(tier, known):
        from contracts import standardize as C
        jobs = [("contracts.standardize", "generate_apply_tensor", (prop, label)) for label in C.apply_tensor_labels()]
        return run_parallel("std_apply_tensor", jobs, to_case=C.to_case, replay_module="rtc.c16")
    unit.__name__ = "std_apply_tensor"
    return unit


def unit_readers(prop):
    def unit(tier, known):
        from contracts import readers as C
        jobs = [("contracts.readers", "generate", (prop, label)) for label in C.labels()]
        rm = "rtc.c17" if prop == "C17" else "rtc.c11"
        return run_parallel("readers", jobs, to_case=getattr(C, "to_case_" + rm[-3:], None), replay_module=rm)
    unit.__name__ = "readers"
    return unit


def unit_torch_wrappers(prop):
    def unit(tier, known):
        from contracts import torch_wrappers as C
        jobs = [("contracts.torch_wrappers", "generate", (prop, w)) for w in C.UNITS]
        return run_parallel("torch_wrappers", jobs, to_case=C.to_case, replay_module="rtc.c14")
    unit.__name__ = "torch_wrappers"
    return unit


def unit_header_validation(prop):
    def unit(tier, known):
        from contracts import sphere as C
        jobs = [("contracts.sphere", "generate_header", (prop, label)) for label in C.header_labels()]
        return run_parallel("read_header_validation", jobs, to_case=C.to_case_header, replay_module="rtc.c12")
    unit.__name__ = "read_header_validation"
    return unit


def unit_windows(prop):
    def unit(tier, known):
        from contracts import windows as C
        jobs = [("contracts.windows", "generate", (prop, cls)) for cls in C.WINDOWS]
        return run_parallel("windows", jobs, to_case=C.to_case, replay_module="rtc.c20")
    unit.__name__ = "windows"
    return unit


def unit_gabor(prop):
    def unit(tier, known):
        from contracts import filters_gabor as C
        jobs = [("contracts.filters_gabor", "generate", (prop, label)) for label in C.LABELS]
        return run_parallel("gabor_init", jobs, to_case=C.to_case_c05, replay_module="rtc.c05")
    unit.__name__ = "gabor_init"
    return unit


def unit_gamma_prefix(prop):
    def unit(tier, known):
        from contracts import filters_gabor as C

        def tc(ob):
            cs = C.to_case_c05(ob) or []
            out = []
            for c in cs:
                c2 = dict(c)
                if isinstance(c2.get("bank"), dict) and c2["bank"].get("bank") == "gabor":
                    c2["bank"] = dict(c2["bank"], bank="gamma", order=4, max_centered=False)
                out.append(c2)
            return out
        jobs = [("contracts.filters_gabor", "generate_gamma", (prop, label)) for label in C.LABELS[:2]]
        return run_parallel("gamma_init_prefix", jobs, to_case=tc, replay_module="rtc.c05")
    unit.__name__ = "gamma_init_prefix"
    return unit


def unit_stack(prop):
    def unit(tier, known):
        from contracts import post_stack as C
        jobs = [("contracts.post_stack", "generate", (prop, label)) for label in C.LABELS]
        return run_parallel("stack_apply", jobs, to_case=C.to_case, replay_module="rtc.c15")
    unit.__name__ = "stack_apply"
    return unit


UNITS = {
    "C15": [unit_deltas("C15"), unit_stack("C15"), unit_deltas_init("C15"), _lazy("contracts.accessors", "unit_ctors", "C15")],
    "C07": [unit_supports("C07", "tri"), unit_supports("C07", "fbank"), _lazy("contracts.filters_gabor", "unit_gamma_support", "C07"), _lazy("contracts.filters_gamma", "unit_gamma_loop", "C07"), _lazy("contracts.filters_gabor", "unit_gamma_impulse_length", "C07"),
            _lazy("contracts.purity", "unit_purity", "C07"), _lazy("contracts.accessors", "unit_accessors", "C07")],
    "C03": [unit_si("C03", w) for w in ("chunk", "handle_skip", "preamble", "finalize", "full", "geometry", "supports")] + [_lazy("contracts.si_stream", "unit_filters", "C03")] + [unit_si_frame("C03", w) for w in ("fill", "frame", "dft", "idft")] + [_lazy("contracts.accessors", "unit_accessors", "C03")],
    "C13": [_lazy("contracts.shorten", "unit_bit_reader", "C13"), _lazy("contracts.shorten_block", "unit_block", "C13"),
            _lazy("contracts.shorten_block", "unit_fix", "C13"), _lazy("contracts.shorten_block", "unit_div", "C13"),
            _lazy("contracts.shorten_block", "unit_setup", "C13"), _lazy("contracts.shorten_block", "unit_loop", "C13"),
            _lazy("contracts.shorten_block", "unit_header", "C13"), _lazy("contracts.shorten_block", "unit_word_get", "C13"),
            _lazy("contracts.shorten_block", "unit_ulong", "C13")],
    "C11": [unit_read_signal("C11", "dispatch"), unit_read_signal("C11", "wds"), unit_read_signal("C11", "infer"), unit_readers("C11"),
            _lazy("contracts.sphere_header", "unit_parse", "C11"), _lazy("contracts.readers_audio", "unit_readers_audio", "C11"),
            # the SPHERE clause of C11 goes through the same reader functions as C12: same contracts, replayed by the C12 stand-in
            unit_copy_samples("C11"), _lazy("contracts.sphere_header", "unit_sphere_read_signal", "C11")],
    "C16": [unit_std("C16", "accumulate_vector"), unit_std("C16", "apply_vector"), unit_std("C16", "have_stats"), unit_std_tensor("C16"), unit_std_apply_tensor("C16"), _lazy("contracts.standardize", "unit_dispatch", "C16"), _lazy("contracts.standardize_init", "unit_init", "C16")],
    "C17": [unit_std("C17", "accumulate_vector"), _lazy("contracts.standardize", "unit_sanitize_accepts_saved", "C17"), unit_readers("C17"),
            _lazy("contracts.standardize_save", "unit_save", "C17"), _lazy("contracts.standardize_init", "unit_init", "C17")],
    "C08": [unit_alias_arg("C08"), _lazy("contracts.alias", "unit_from_alias", "C08"), _lazy("contracts.alias", "unit_registry", "C08"), _lazy("contracts.alias", "unit_nested", "C08")],
    "C18": [unit_pre("C18", "preemph"), unit_pre("C18", "dither"), _lazy("contracts.purity", "unit_purity", "C18"), _lazy("contracts.accessors", "unit_ctors", "C18")],
    "C12": [unit_copy_samples("C12"), _lazy("contracts.sphere", "unit_g711", "C12"), unit_header_validation("C12"),
            _lazy("contracts.sphere_header", "unit_parse", "C12"), unit_read_signal("C12", "dispatch"),
            _lazy("contracts.sphere_header", "unit_sphere_read_signal", "C12")],
    "C20": [unit_circshift("C20"), _lazy("contracts.util_misc", "unit_angular", "C20"), unit_windows("C20"), _lazy("contracts.purity", "unit_purity", "C20"), _lazy("contracts.windows", "unit_gamma", "C20"), _lazy("contracts.util_misc", "unit_gauss_quant", "C20"), _lazy("contracts.accessors", "unit_ctors", "C20")],
    "C05": [unit_tri("C05", "init"), unit_tri("C05", "truncated"), unit_fbank("C05", "init"), unit_fbank("C05", "truncated"), unit_gabor("C05"), unit_gamma_prefix("C05"), _lazy("contracts.filters_gamma", "unit_gamma_loop", "C05"), _lazy("contracts.purity", "unit_purity", "C05"), _lazy("contracts.accessors", "unit_accessors", "C05")],
    "C06": [unit_tri("C06", "frequency"), unit_fbank("C06", "frequency"), _lazy("contracts.filters_gabor", "unit_resp_length", "C06"), _lazy("contracts.filters_gabor", "unit_trunc_shape", "C06"), _lazy("contracts.filters_gabor", "unit_gamma_trunc_shape", "C06"), _lazy("contracts.filters_gabor", "unit_gamma_resp_length", "C06"), unit_tri("C06", "truncated"), unit_tri("C06", "init"), unit_fbank("C06", "truncated"), unit_fbank("C06", "init"), _lazy("contracts.purity", "unit_purity", "C06")],
    "C14": [unit_torch_stft("C14"), unit_torch_wrappers("C14"), _lazy("contracts.torch_wrappers", "unit_from_stft", "C14"), _lazy("contracts.torch_wrappers", "unit_stft_module", "C14"), _lazy("contracts.torch_wrappers", "unit_stft_module_init", "C14"), _lazy("contracts.accessors", "unit_torch_small", "C14")],
    "C09": [unit_torch_stft("C09")] + [_lazy_list("contracts.cli", "units", "C09", k) for k in range(8)] + [_lazy("contracts.cli", "unit_config_type", "C09"), _lazy("contracts.accessors", "unit_dataset", "C09")],
    "C10": [_lazy_list("contracts.cli", "units", "C10", k) for k in range(6)] + [_lazy("contracts.purity", "unit_purity", "C10"), _lazy("contracts.accessors", "unit_dataset", "C10")],
    "C19": [_scales("C19"), _lazy("contracts.accessors", "unit_ctors", "C19")],
    "C02": [unit_stft_frame("C02"), unit_stft_geometry("C02"), _lazy("contracts.stft_frame", "unit_base_computer", "C02"), _lazy("contracts.stft_frame", "unit_nonlin", "C02"), unit_stft("C02", "full"), unit_tri("C02", "init"), unit_tri("C02", "truncated"), unit_fbank("C02", "init"), unit_fbank("C02", "truncated"), _lazy("contracts.accessors", "unit_accessors", "C02")],
    "C01": [unit_stft("C01", "finalize"), unit_stft("C01", "chunk"), unit_fbf("C01"), _lazy("contracts.accessors", "unit_base_full", "C01")] + [unit_si("C01", w) for w in ("chunk", "handle_skip", "finalize", "full")] + [unit_si_frame("C01", w) for w in ("fill", "frame", "dft")],
    "C04": [unit_stft("C04", "finalize"), unit_stft("C04", "chunk"), unit_stft("C04", "full"), unit_fbf("C04"), unit_stft_fresh("C04")] +
           [unit_si("C04", w) for w in ("preamble", "finalize", "full", "chunk")] + [_lazy("contracts.accessors", "unit_accessors", "C04")],
}
